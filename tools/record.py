#!/usr/bin/env python3
"""tools/record.py <id> <property> <fixed|known> <commit|-> <witness-glob> <what...>   (edits known_findings.json)"""
import glob, json, sys
fid, prop, status, commit, wglob = sys.argv[1:6]
what = " ".join(sys.argv[6:])
p = "/verif/known_findings.json"
d = json.load(open(p))
d["findings"] = [f for f in d["findings"] if f["id"] != fid]
e = {"id": fid, "property": prop, "status": status, "what": what,
     "witness": sorted(x.replace("/verif/", "") for x in glob.glob("/verif/" + wglob))}
if commit != "-":
    e["commit"] = commit
e["line"] = (f"fixed: property={prop} {commit} {what}" if status == "fixed" else f"KNOWN-FINDING: property={prop} {fid} {what}")
d["findings"].append(e)
json.dump(d, open(p, "w"), indent=1)
print(fid, len(e["witness"]), "witnesses")
