#!/bin/bash
# usage: tools/seedany.sh <srcdir> <seed-id> CHECK [CHECK...] : apply the seeded patch once, run several checks, report which turn red
src=$1; sid=$2; shift 2
W=/tmp/vp_seedany_$$/repo
git -C /repo worktree add -q --detach $W HEAD || exit 2
trap "git -C /repo worktree remove --force $W; rm -rf /tmp/vp_seedany_$$" EXIT
cd $W && git apply $src/patch.diff || { echo "SEED $sid: patch does not apply"; exit 2; }
cd /verif
for c in "$@"; do
  out=$(VERIF_REPO=$W ./check $c quick 2>&1); rc=$?
  echo "SEED $sid: $c exit=$rc $(echo "$out" | grep '^violation' | sed 's/^violation \[\([^]]*\)\].*/\1/' | sort -u | tr '\n' ' ' | cut -c1-200)"
done
