#!/bin/bash
# tools/runall.sh [tier] : run every registered check on /repo sequentially; summary line per check
tier=${1:-quick}
cd "$(dirname "$0")/.."
for c in $(python3 -c "import json;print(' '.join(x['property_id'] for x in json.load(open('MANIFEST.json'))['checks']))"); do
  s=$(date +%s)
  out=$(./check $c $tier 2>&1); rc=$?
  e=$(( $(date +%s) - s ))
  echo "$c exit=$rc ${e}s $(echo "$out" | grep -E "^$c $tier seed" | sed 's/.*: //') $(echo "$out" | grep -c '^VIOLATION') viol $(echo "$out" | grep -c '^KNOWN-FINDING') known $(echo "$out" | grep -c 'HARNESS-ERROR') herr"
done
