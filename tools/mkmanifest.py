#!/usr/bin/env python3
"""Regenerate MANIFEST.json from the table below (kept valid at all times)."""
import json
from pathlib import Path

ROOT = Path(__file__).resolve().parent.parent
BASELINE = "cd /repo && /venv/bin/python -m pytest -ra -q -p no:cacheprovider --timeout=900 --continue-on-collection-errors"

CHECKS = {
    "C01": dict(
        level="exploration",
        text="Generated search (Hypothesis, 16 shards) over m x n instances up to cond 1e10 decided by per-instance optimality certificates: orthogonality / residual identity / SVD reference for variable projection; exact active-set enumeration (a feasible witness with smaller residual is a proof of non-optimality), KKT and residual identity for NNLS; plus the dispatch through optimize(). Exploration, not proof: it reports how many instances were tried and their cond/family histogram.",
        note="Trusted: numpy SVD/lstsq as reference, float tolerances of 1e3-1e4 backward-error units. NNLS optimality outside the measured reliable region of the pinned scipy nnls is the known finding N1.",
        technique="property-based testing with optimality-certificate oracles (Hypothesis)",
        ref="DESIGN.md section 4 C01",
    ),
}

PENDING_REASON = "check not built yet in this session (planned, see DESIGN.md section 4); nothing is claimed for it"


def main():
    props = [json.loads(l) for l in (ROOT / "properties.jsonl").read_text().splitlines() if l.strip()]
    checks, na = [], []
    for p in props:
        pid = p["id"]
        c = CHECKS.get(pid)
        if c is None:
            na.append({"property_id": pid, "reason": PENDING_REASON})
            continue
        checks.append(
            {
                "property_id": pid,
                "quick_cmd": f"./check {pid} quick",
                "thorough_cmd": f"./check {pid} thorough",
                "evidence_file": f"evidence/{pid}.json",
                "replay_cmd_template": f"./check {pid} --replay {{path}}",
                "engine": "vlib",
                "level_claimed": {"category": c["level"], "text": c["text"], "design_ref": c["ref"]},
                "level_note": c["note"],
                "technique": c["technique"],
            }
        )
    manifest = {
        "version": 1,
        "setup_cmd": "./setup.sh",
        "hooks": {
            "guard": "GLOTARAN_PYGLOTARAN_VERIF",
            "enable": "no hooks are compiled into /repo: checks import /repo's working tree directly (editable install); fault injection, evaluation counting and objective capture are done from the harness side (harness megacomplexes, patching least_squares as seen by glotaran.optimization.optimizer)",
            "baseline_off_cmd": BASELINE,
            "source_commits": [],
            "add_only": True,
        },
        "engines": [
            {
                "name": "vlib",
                "path": "vlib/",
                "serves_properties": [c["property_id"] for c in checks],
                "kind_free_text": "Hypothesis property-based testing (sharded over 16 processes), exhaustive enumeration of finite sub-domains, rule-based state machines, fault enumeration; explicit reference-model / certificate / round-trip / metamorphic oracles",
            }
        ],
        "checks": checks,
        "notes": "Exit protocol: 0 held; 1 + VIOLATION line per unlisted violation bucket; 2 harness error (never a verdict). Known findings: known_findings.json.",
        "not_applicable": na,
    }
    (ROOT / "MANIFEST.json").write_text(json.dumps(manifest, indent=1) + "\n")


if __name__ == "__main__":
    main()
