#!/usr/bin/env python3
"""Regenerate MANIFEST.json from the table below (kept valid at all times)."""
import json
from pathlib import Path

ROOT = Path(__file__).resolve().parent.parent
BASELINE = "cd /repo && /venv/bin/python -m pytest -ra -q -p no:cacheprovider --timeout=900 --continue-on-collection-errors"

CHECKS = {
    "C01": dict(
        level="exploration",
        text="Generated search (Hypothesis, 16 shards) over m x n instances up to cond 1e10 decided by per-instance optimality certificates: orthogonality / residual identity / SVD reference for variable projection; exact active-set enumeration (a feasible witness with smaller residual is a proof of non-optimality), KKT and residual identity for NNLS; plus the dispatch through optimize(). Exploration, not proof: it reports how many instances were tried and their cond/family histogram. Data vectors also as float32 / int64, the same array objects refilled in place between calls, dispatch with a dataset scale and per-index weights, and the Result returned after a contained fault (its clps / residuals must solve the linear problem of its own matrix).",
        note="Trusted: numpy SVD/lstsq as reference, float tolerances of 1e3-1e4 backward-error units. NNLS optimality outside the measured reliable region of the pinned scipy nnls is the known finding N1.",
        technique="property-based testing with optimality-certificate oracles (Hypothesis)",
        ref="DESIGN.md section 4 C01",
    ),
    "C02": dict(
        level="exploration",
        text="Generated search (Hypothesis) over the scheme space of the statement, built from harness megacomplexes with closed-form columns; the penalty vector captured exactly as scipy receives it is compared at x0 and two further points with an independent reference objective written from the statement (per-index reduced, scaled, weighted least squares; stacked problems for linked groups; equal-area penalties), plus metamorphic independence of dataset groups, linked groups with clp_link_tolerance > 0 aligned by the C09 reference model, and a second optimizer on the same scheme object. Exploration: counts, feature histogram and samples are reported; nothing is proved. Inputs are also varied in representation: float32 / int64 data, Fortran / strided / read-only arrays, integer and descending / shuffled global axes. A further sub-check keeps two unrelated schemes alive in one process and evaluates them alternately, each against its own reference.",
        note="Trusted: the reference objective (vlib/oracle/refobjective.py), numpy lstsq, exhaustive active-set NNLS. Cases whose semantics the statement leaves open are discarded and counted.",
        technique="property-based testing against a reference model + metamorphic relation (Hypothesis)",
        ref="DESIGN.md section 4 C02",
    ),
    "C03": dict(
        level="exploration",
        text="Generated search over the C02 scheme space with confusable dataset labels, square/non-square shapes, both storage orders and noisy data; every variable of every result dataset of optimize() is compared by label and coordinate with the identities of the statement and with the reference residual/clp blocks at the optimised parameters. A reference-free identities sub-check runs on schemes whose interval bounds sit one ulp off axis values and whose linked axes are offset; datasets in other dtypes / layouts and on descending / shuffled / integer axes are generated.",
        note="Trusted: reference objective; tolerances 1e-12..1e-8 of the data scale for per-index cond <= 1e6.",
        technique="property-based testing against a reference model (Hypothesis)",
        ref="DESIGN.md section 4 C03",
    ),
    "C13": dict(
        level="exploration",
        text="Generated search over optimisations of the C02 scheme space (all three methods, unused free parameters, non-negative parameters): each reported statistic is recomputed from the reported datasets, penalties and Jacobian, from the reference's counts, and from an independent re-evaluation of the objective at the optimised parameters. A second sub-check re-uses one Optimizer object (good run, contained failing run, create_result) and demands a self-consistent Result.",
        note="Trusted: reference objective for counts; covariance only compared when the Jacobian is clearly full rank or clearly rank deficient.",
        technique="property-based testing with recomputation oracles (Hypothesis)",
        ref="DESIGN.md section 4 C13",
    ),
    "C10": dict(
        level="exploration",
        text="Hypothesis rule-based state machine over the captured objective (evaluate new / earlier / raising points, fresh optimizer, change numba thread count) with a history invariant (value at x is a function of x only) and deep snapshots of the caller's parameters, model and data after every step; optimize() twice per method; dataset matrices recomputed under several numba thread counts, a fresh-process matrix over NUMBA_NUM_THREADS. Thread schedules are only sampled - the harness cannot own numba's scheduler (stated limit). Further rules: a neighbouring vector (one coordinate moved by 1e-6..1e-10 relative) against a fresh optimizer, kinetic schemes on time axes in other units (parameter magnitudes 1e-8..1e5), descending / shuffled / integer axes. The capture overwrites the returned vector and the given x after every evaluation, a rule lets the caller overwrite its own data after the optimizer was created, and an earlier Result must share nothing with the scheme nor change through a second or continued run.",
        note="Trusted: snapshot covers parameter dicts, model dict, data/weight/coordinate bytes. Bit-equality is counted; violation threshold 1e-12 relative.",
        technique="stateful property-based testing (Hypothesis RuleBasedStateMachine) + differential runs across processes/thread counts",
        ref="DESIGN.md section 4 C10",
    ),
    "C14": dict(
        level="exploration",
        text="Generated built-in kinetic models (decay variants, IRF variants, oscillation, artifact, baseline, full-model spectra, 1-3 datasets with scales): simulate -> objective at the generating parameters is zero to rounding, clps equal generating clps / scale, the optimiser stays at the truth, recovers from <= 20 % perturbation when identifiable (gated by cond(J)), and seeded noise is reproducible. Also: an Optimizer re-run after a failed run equals a fresh one, numpy integer noise seeds, descending / shuffled / integer axes.",
        note="Conditioning / identifiability gates discard (and count) cases; tolerances scale with the measured conditioning.",
        technique="property-based round-trip (simulate -> fit) testing (Hypothesis)",
        ref="DESIGN.md section 4 C14",
    ),
    "C15": dict(
        level="fault_enumeration",
        text="For each small scheme/method the fault-free run fixes the number N of model evaluations; a fault (exception object, NaN matrix, Inf matrix) is then injected at every k = 1..N, plus persistent region faults, for every method and verbose/raise_exception combination; oracle from the statement (exception identity, InitialParameterError iff nothing evaluated, Result from a parameter vector the harness megacomplex logged as evaluated without error, stdout identity, scheme snapshot); every kind of invalid scheme is rejected before any evaluation. Error texts without message, with several lines and with a leading line break are injected as well. Invalid schemes include two dataset groups of which one names an unknown residual function; the D15 known-finding predicate covers only faults that reach the post-fit code.",
        note="Fault position is enumerated exhaustively per scheme; the schemes themselves are a small fixed family (4 variants x seeds). Known finding D15 (create_result unprotected) is listed in known_findings.json.",
        technique="exhaustive fault-position enumeration with a logging harness megacomplex",
        ref="DESIGN.md section 4 C15",
    ),
    "C08": dict(
        level="exploration",
        text="Exhaustive enumeration (unit level) of every axis that is a subset (size 1-5) of a 7-point dyadic grid x every ordered bound pair from {-inf, below, on a point, quarter point, exact midpoint, above, +inf} x 1-2 intervals x item kind against an interval reference model written from the statement (inside subset-of S subset-of inside+nearest-range, monotone, only = complement of zero, union for lists), plus Hypothesis-generated schemes through optimize() decoding the affected sets from reported clps / weights / penalties / clp counts, the dataset-weight-wins-with-warning rule, 2-3 relations with their own intervals, index-dependent and index-independent matrices, and a differential locality check (the same scheme with and without one item must agree outside the item's reach). Unit level also: an item used with another interval before, and a deep copy of a used item, act on the interval assigned last.",
        note="Float-fragile decisions (bound within 1e-9 of a point, nearest-point ties) are left open in the reference (set of admissible outcomes). Exhaustive only over the stated grid.",
        technique="exhaustive enumeration + property-based testing against an interval reference model",
        ref="DESIGN.md section 4 C08",
    ),
    "C05": dict(
        level="exploration",
        text="Hypothesis-generated rates, widths, times (log-spaced, uniform and clustered around the numerical branch switch), 1-3 Gaussians with the documented broadcast patterns, normalise on/off, per-index shifts and centre/width dispersion in both dispersion variables; each decay column obtained through the public calculate_matrix path is compared with a 60-digit mpmath closed form (itself self-checked against quadrature of the defining convolution), per index with the documented effective centre/width and with an index-independent twin model; result variables of a one-evaluation optimize() are checked too. Time axes also descending / shuffled, integer global axes, and every evaluation repeated after a refused one. Time axes of 4097..12289 points are decided metamorphically (every row equals the row of the same time point on a short axis); a decoy global axis with the same length and end points is evaluated first.",
        note="Tolerance 1e-11 relative + 1e-13 of the column maximum, plus the first-order effect of the unavoidable rounding of the effective centre/width. Rate order / A-matrix taken from the megacomplex (C04's subject).",
        technique="property-based testing against a high-precision (mpmath) reference + metamorphic twin models",
        ref="DESIGN.md section 4 C05",
    ),
    "C04": dict(
        level="exploration",
        text="Hypothesis-generated compartmental schemes (1-5 compartments, chains / trees / reversible chains / parallel / rings with real spectrum, 1-3 combined K-matrices with overridden entries, shuffled declaration order, any initial distribution with/without exclude_from_normalize, arbitrary time axes): the decay, decay-sequential and decay-parallel matrices are compared with exp(Kt)j evaluated by mpmath.expm at 50 digits from a K assembled by the oracle itself; differential sequential/parallel vs general, conservation for closed systems, and the reported rates / lifetimes / A-matrix / DAS / K-matrix of a one-evaluation optimize(). The time axis is also handed over descending / shuffled / strided / read-only, and every evaluation is repeated after a refused one (bit-identical). Time axes of 1025..9000 points are decided metamorphically (every row equals the row of the same time point on a short axis); a decoy axis with the same length and end points is evaluated first.",
        note="Tolerance 1000 eps cond(V) (1+|K|t)|j| per time point; cases with relative eigenvalue gap < 1e-2, complex eigenvalues, cond(V) > 1e6 or |K|t > 1e7 are discarded and counted.",
        technique="property-based testing against a high-precision (mpmath expm) reference + differential testing",
        ref="DESIGN.md section 4 C04",
    ),
    "C11": dict(
        level="exploration",
        text="Hypothesis-generated parameter sets (flat/nested/numeric labels; free, fixed, bounded, one-sided, non-negative, expression parameters; values on/near bounds, exactly 1 for non-negative, 1e-12..1e12): round trip through the optimiser's vector, what least_squares is handed (stub substituted for the name used by the optimizer), and real fits with all three methods: every history record and the result respect bounds / fixed / expressions, and Jacobian columns, covariance and standard errors refer to the free-label order (finite-difference derivative of the independently captured objective); histories on ONE Parameters object (observe, edit vary / bounds / expression in place, observe or fit again); optimisations aborted by an injected fault still return parameters within bounds.",
        note="Round trip rtol 1e-9; Jacobian column match by cosine > 0.99 against central differences; either documented branch of the log-space standard error accepted.",
        technique="property-based round-trip and differential testing (Hypothesis)",
        ref="DESIGN.md section 4 C11",
    ),
    "C12": dict(
        level="exploration",
        text="Exhaustive enumeration of all labelled dependency DAGs over <= 4 expression parameters x every placement of <= 2 plain parameters (1/4 sample in quick, all 23 056 in thorough), random expression trees up to 6 parameters, a rule-based state machine of updates / copies / csv and yml reloads, and real optimisations whose harness megacomplex logs every evaluated parameter vector; oracle: the strategy's own expression tree evaluated in dependency order, idempotence of a second update.",
        note="Expression trees leaving the real finite domain are discarded and counted; rtol 1e-12.",
        technique="exhaustive enumeration + stateful property-based testing against a reference evaluator",
        ref="DESIGN.md section 4 C12",
    ),
    "C16": dict(
        level="exploration",
        text="Hypothesis-generated valid parameter sets (numeric-looking, boolean-looking, nested labels; all-empty / mixed option columns; NaN errors, infinite bounds, expressions incl. numeric literals) saved and loaded through csv, tsv, xlsx and ods for 3 cycles and compared with an own field-by-field comparator; yml / dict / list specifications against programmatic construction; save / load / resave histories on paths that already hold a file; atheris through hypothesis.fuzz_one_input in the thorough tier.",
        note="Floats after text I/O compared to k*1e-13 relative after k cycles. Labels equal to pandas NA tokens are the known finding D16e.",
        technique="property-based round-trip testing (Hypothesis) + coverage-guided fuzzing of the same strategies (atheris)",
        ref="DESIGN.md section 4 C16",
    ),
    "C17": dict(
        level="exploration",
        text="Hypothesis model grammar over the built-in item types (tuple-keyed K-matrices, interval forms, nested labels, several groups): yml round trip of the specification AND of the objective; enumerated SavingOptions x target kinds for results (loaded in place and after moving the folder and changing cwd); netCDF datasets bit-equal; ascii time-/wavelength-explicit files for non-square data in both dimension orders; histories of save / load / continue / move / remove / chdir in which loaded and continued results are saved again.",
        note="YAML statistics exact, netCDF byte-exact, text floats 1e-13 relative, ascii values 1e-10 (written %.10e).",
        technique="property-based round-trip testing (Hypothesis) + exhaustive option grid",
        ref="DESIGN.md section 4 C17",
    ),
    "C18": dict(
        level="exploration",
        text="Exhaustive matrix of every save_* function x every registered format (+ unknown format, + a harness plugin that writes half a file and raises) x target state x allow_overwrite with a file-tree snapshot oracle (bytes and mtimes); exhaustive short sequences and Hypothesis state machines over a real Project (optimize with prefix-sharing result names, import/generate with all flags, deletion of old runs) against a run-number model written from the statement, including saves that fail midway and up to three live Project handles on one folder used alternately. Result names also contain '.' and glob characters; the protected save is also tried on the file the same object was saved to before.",
        note="Result names ending in _run_dddd are inherently ambiguous and excluded. Exhaustive over the stated matrix and over sequences of length 4 (5 in thorough) only.",
        technique="exhaustive enumeration + stateful property-based testing against a reference model",
        ref="DESIGN.md section 4 C18",
    ),
    "C19": dict(
        level="exploration",
        text="Exhaustive BFS over all sequences of register / set_plugin operations up to depth 4 (5 in thorough) over a small alphabet, with every lookup evaluated after every prefix, for a fresh dict and for copies of the three real registries; exhaustive dispatch of load_*/save_* against recording plugins; a Hypothesis state machine up to 40 steps; oracle: abstract registry model written from the statement.",
        note="Only statement-level facts are asserted (not the exact key set of the registry dict). Real registries are restored and checked for leaks after every case.",
        technique="exhaustive bounded enumeration + stateful property-based testing against an abstract model",
        ref="DESIGN.md section 4 C19",
    ),
    "C20": dict(
        level="exploration",
        text="Hypothesis model grammar over all built-in item types with matching parameters; an independent table of 31 reference positions drives the mutations (each reference renamed, each definition deleted, each parameter removed, unique megacomplexes duplicated, exclusive ones combined): validate / valid / Scheme.validate never raise, every mutation is reported naming the missing label, the unmutated model is valid, fills and evaluates without lookup errors, generated parameters validate; histories on one live model + Parameters object (rename / repair / delete / restore in place between validations, probes in generated order). atheris on the grammar in the thorough tier.",
        note="Positions annotated as plain str (weights datasets, clp targets, compartments) are not treated as references.",
        technique="property-based mutation testing against an independent reference table (Hypothesis, atheris)",
        ref="DESIGN.md section 4 C20",
    ),
    "C09": dict(
        level="exploration",
        text="Exhaustive enumeration of 2-dataset (axes = subsets of {0..4} + offsets) and 3-dataset (subsets of {0,1,2}) alignments x 6 tolerances x 3 methods x dataset orders (stratified 1/19 sample in quick, all 625 050 in thorough) plus Hypothesis-generated larger cases, against an alignment reference model written from the statement (nearest admissible target within tolerance on the permitted side, growing aligned set, AlignDatasetError iff a dataset's points collide); data values are unique so the (dataset, column) -> aligned point assignment is decoded from get_aligned_data; and optimize() level: clps identical iff aligned to the same point, reported on original coordinates, equal to the lstsq solution of exactly the stacked columns. Sub-check optimize_continued applies the same clauses to a second optimize() started from result.get_scheme().",
        note="Float-fragile decisions (distance within 1e-9 of the tolerance, equidistant candidates) are left open: the model returns the set of admissible outcomes. Axes strictly increasing.",
        technique="exhaustive enumeration + property-based testing against an alignment reference model",
        ref="DESIGN.md section 4 C09",
    ),
    "C06": dict(
        level="exploration",
        text="Permutation twins: exhaustive over all permutations of 2-4 labels / 3 megacomplexes / 3 datasets for the built-in megacomplex types x {no, Gaussian, multi-Gaussian, dispersed} IRF and random beyond (K-matrix entry order, dict orders, splits into single-label megacomplexes): matrix columns compared BY LABEL, optimize() results (cost, one optimisation step, every labelled result array) compared by label, internal consistency of reported spectra / profiles with clp and matrix columns of the same label; composition: each per-index column equals the scaled sum of the megacomplexes' own columns of that label (2-D/3-D mixes in either order).",
        note="Only variable projection. Twin parameters compared after one optimisation step with a conditioning-derived tolerance (scipy's forward-difference Jacobian amplifies rounding between twins).",
        technique="metamorphic (permutation) property-based testing + exhaustive enumeration of small permutation groups",
        ref="DESIGN.md section 4 C06",
    ),
    "C07": dict(
        level="exploration",
        text="Hypothesis-generated oscillation / PFID / artifact / shape parameters (frequencies 0-2000 cm-1, rates of either sign where supported, widths 1e-3..5, shifts, dispersion, 1-3 oscillations, artifact orders 1-3, skewness down to 1e-9, inverted/scaled axes) against 50-digit mpmath closed forms (self-checked against quadrature of the defining convolutions); one proportionality constant per megacomplex type estimated on a canonical case and required everywhere; the effective IRF position is compared with the decay model of the same dataset; whole datasets combining several IRF-using megacomplexes in every list order are evaluated twice on one filled dataset model and compared, label by label, with each megacomplex alone.",
        note="Errors are normalised by the true column scale; beyond 5 sigma the code truncates to zero (5e-6 of the scale allowed there). Frequency folding excluded by construction.",
        technique="property-based testing against high-precision (mpmath) reference formulae",
        ref="DESIGN.md section 4 C07",
    ),
}

PENDING_REASON = "check not built yet in this session (planned, see DESIGN.md section 4); nothing is claimed for it"


def main():
    props = [json.loads(l) for l in (ROOT / "properties.jsonl").read_text().splitlines() if l.strip()]
    checks, na = [], []
    for p in props:
        pid = p["id"]
        c = CHECKS.get(pid)
        if c is None:
            na.append({"property_id": pid, "reason": PENDING_REASON})
            continue
        checks.append(
            {
                "property_id": pid,
                "quick_cmd": f"./check {pid} quick",
                "thorough_cmd": f"./check {pid} thorough",
                "evidence_file": f"evidence/{pid}.json",
                "replay_cmd_template": f"./check {pid} --replay {{path}}",
                "engine": "vlib",
                "level_claimed": {"category": c["level"], "text": c["text"], "design_ref": c["ref"]},
                "level_note": c["note"],
                "technique": c["technique"],
            }
        )
    manifest = {
        "version": 1,
        "setup_cmd": "./setup.sh",
        "hooks": {
            "guard": "GLOTARAN_PYGLOTARAN_VERIF",
            "enable": "no hooks are compiled into /repo: checks import /repo's working tree directly (editable install); fault injection, evaluation counting and objective capture are done from the harness side (harness megacomplexes, patching least_squares as seen by glotaran.optimization.optimizer)",
            "baseline_off_cmd": BASELINE,
            "source_commits": [],
            "add_only": True,
        },
        "engines": [
            {
                "name": "vlib",
                "path": "vlib/",
                "serves_properties": [c["property_id"] for c in checks],
                "kind_free_text": "Hypothesis property-based testing (sharded over 16 processes), exhaustive enumeration of finite sub-domains, rule-based state machines, fault enumeration; explicit reference-model / certificate / round-trip / metamorphic oracles",
            }
        ],
        "checks": checks,
        "notes": "Exit protocol: 0 held; 1 + VIOLATION line per unlisted violation bucket; 2 harness error (never a verdict). Known findings: known_findings.json.",
        "not_applicable": na,
    }
    (ROOT / "MANIFEST.json").write_text(json.dumps(manifest, indent=1) + "\n")


if __name__ == "__main__":
    main()
