#!/bin/bash
# tools/seedsweep.sh : re-run every recorded seeded change against the current checks (each in its own scratch worktree)
cd "$(dirname "$0")/.."
for d in seeded/*/; do
  id=$(basename $d)
  P=$(python3 -c "import json;print(json.load(open('$d/meta.json'))['breaks_property'])")
  ./tools/seedtest.sh $P $(pwd)/$d $id 2>&1 | grep "check" | cut -c1-260
done
