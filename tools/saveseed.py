#!/usr/bin/env python3
"""tools/saveseed.py <seed-id> <PROP> <srcdir> <caught|missed-then-caught> <buckets> -- copies patch.diff, demo.py, notes and writes meta.json"""
import json, shutil, sys
from pathlib import Path
sid, prop, src, status, buckets = sys.argv[1:6]
dst = Path("/verif/seeded") / sid
dst.mkdir(parents=True, exist_ok=True)
shutil.copy(Path(src) / "patch.diff", dst / "patch.diff")
shutil.copy(Path(src) / "demo.py", dst / "demo.py")
notes = (Path(src) / "notes.md").read_text() if (Path(src) / "notes.md").exists() else ""
(dst / "notes.md").write_text(notes)
meta = {
    "id": sid, "breaks_property": prop,
    "origin": "independent sub-agent given only the property text and a scratch worktree of /repo (nothing from /verif)",
    "needs_to_manifest": notes.strip().splitlines()[:40],
    "verified_by_me": "tools/seedtest.sh: in a scratch worktree of /repo HEAD demo.py exits 0 without the patch and 1 with it; existing tests reported passing by the author (directories listed in notes.md)",
    "ran": f"VERIF_REPO=<scratch worktree with patch> ./check {prop} quick",
    "result": status, "violation_buckets": buckets.split(","),
}
(dst / "meta.json").write_text(json.dumps(meta, indent=1))
print("saved", dst)
