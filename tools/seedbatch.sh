#!/bin/bash
# tools/seedbatch.sh <root> <pid> <PROP> : run seedtest for every sub-directory A, B, C ... of <root>_<pid>/out
root=$1; p=$2; P=$3
for x in A B C; do
  d=${root}_$p/out/$x
  [ -f $d/patch.diff ] && /verif/tools/seedtest.sh $P $d r${root: -1}$p$x 2>&1 | grep SEED | cut -c1-420
done
