#!/bin/bash
# usage: tools/seedtest.sh <PROP> <srcdir-with-patch.diff+demo.py> <seed-id> [check args...]
# 1) verifies the seeded change (demo fails with it, passes without) in a scratch worktree of /repo HEAD
# 2) runs ./check <PROP> quick against that worktree (VERIF_REPO) and reports whether it turned red
prop=$1; src=$2; sid=$3; shift 3
W=/tmp/vp_seed_$$/repo
git -C /repo worktree add -q --detach $W HEAD || exit 2
trap "git -C /repo worktree remove --force $W; rm -rf /tmp/vp_seed_$$" EXIT
cd $W
PYTHONPATH=$W /venv/bin/python $src/demo.py >/tmp/vp_seed_$$/demo_clean.log 2>&1; clean=$?
git apply $src/patch.diff || { echo "SEED $sid: patch does not apply"; exit 2; }
PYTHONPATH=$W /venv/bin/python $src/demo.py >/tmp/vp_seed_$$/demo_mut.log 2>&1; mut=$?
echo "SEED $sid: demo exit clean=$clean mutated=$mut"
cd /verif
out=$(VERIF_REPO=$W ./check $prop quick "$@" 2>&1); rc=$?
echo "SEED $sid: ./check $prop quick $* -> exit=$rc buckets: $(echo "$out" | grep '^violation' | sed 's/^violation \[\([^]]*\)\].*/\1/' | sort -u | tr '\n' ' ')"
echo "$out" | grep -E "quick seed" 
