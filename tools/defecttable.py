#!/usr/bin/env python3
"""tools/defecttable.py : the markdown defect table of DESIGN.md section 5, from known_findings.json (sorted by property, id)"""
import json
from pathlib import Path
k = json.load(open(Path(__file__).resolve().parent.parent / "known_findings.json"))
items = k["findings"] if isinstance(k, dict) else k
print("| id | property | what failed | disposition | witnesses |")
print("|----|----------|-------------|-------------|-----------|")
for e in sorted(items, key=lambda e: (e["property"], e["id"])):
    disp = f"**fixed** in /repo `{e['commit']}`" if e["status"] == "fixed" else "**known finding** (not repaired)"
    print(f"| {e['id']} | {e['property']} | {e['what']} | {disp} | {len(e.get('witness', []))} |")
