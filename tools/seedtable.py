#!/usr/bin/env python3
"""tools/seedtable.py <prefix> : markdown table rows of the recorded seeded changes whose id starts with <prefix> (for DESIGN.md 6.4)"""
import json, sys
from pathlib import Path
for d in sorted((Path(__file__).resolve().parent.parent / "seeded").glob(sys.argv[1] + "*")):
    m = json.load(open(d / "meta.json"))
    first = next((l.strip().lstrip("# ").strip() for l in m["needs_to_manifest"] if l.strip()), "")
    b = ", ".join(m["violation_buckets"][:3]) + (", ..." if len(m["violation_buckets"]) > 3 else "")
    print(f"| {m['id']} | {m['breaks_property']} | {first[:150]} | {m['result']} | {b} |")
