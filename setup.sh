#!/bin/sh
# offline setup: third-party helpers for the harness (never shadows /venv packages), byte-compile
cd "$(dirname "$0")" || exit 2
if [ ! -d .deps/mpmath ]; then
  /venv/bin/python -m pip install -q --no-index --no-deps --find-links /opt/veriftools/wheels \
     --target .deps mpmath sortedcontainers hypothesis atheris >/dev/null 2>&1 || \
  /venv/bin/python -m pip install -q --no-index --no-deps --find-links /opt/veriftools/wheels \
     --target .deps mpmath sortedcontainers hypothesis || exit 2
fi
/venv/bin/python -m compileall -q vlib >/dev/null 2>&1
/venv/bin/python -c "import sys; sys.path.append('.deps'); import hypothesis, mpmath, numpy, scipy; sys.path.insert(0,'/repo'); import glotaran" || exit 2
echo setup ok
