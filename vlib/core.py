"""Framework: sub-check kinds, shard workers, violation bucketing, shrinking.

A *case* is plain JSON data.  A property function ``prop(case)`` returns a dict of
classification tags (``{"nontrivial": bool, "tags": [...]}``) or raises ``Violation``.
Any other exception escaping a property function is a *harness error* (exit 2), never a
violation: calls into the code under test whose success the property statement promises are
wrapped explicitly with ``expect_ok``.
"""

from __future__ import annotations

import hashlib
import json
import math
import os
import time
import traceback
from collections import Counter
from contextlib import contextmanager
from dataclasses import dataclass
from dataclasses import field
from typing import Any
from typing import Callable


class Violation(Exception):
    """The property does not hold on this case (oracle clause ``clause``)."""

    def __init__(self, clause: str, message: str = ""):
        super().__init__(f"{clause}: {message}")
        self.clause = clause
        self.message = message


class Discard(Exception):
    """The case is outside the stated domain (counted, never a verdict)."""

    def __init__(self, reason: str = "discard"):
        super().__init__(reason)
        self.reason = reason


class _StopShrink(BaseException):
    pass


@contextmanager
def expect_ok(clause: str, allowed: tuple = ()):
    """Calls whose success the property statement promises.

    An exception raised inside (other than ``allowed`` / Violation / Discard) becomes a
    Violation of ``clause`` naming the exception type and the innermost glotaran frame.
    """
    try:
        yield
    except (Violation, Discard, _StopShrink):
        raise
    except allowed:
        raise
    except Exception as e:  # noqa: BLE001
        frame = innermost_repo_frame(e)
        # one bucket per (clause, exception type, innermost glotaran frame): one root cause does not hide another
        raise Violation(f"{clause}:{type(e).__name__}@{frame}", f"{type(e).__name__}: {str(e)[:300]} @ {frame}") from e


def innermost_repo_frame(e: BaseException) -> str:
    tb = traceback.extract_tb(e.__traceback__)
    hit = ""
    for fr in tb:
        if "/glotaran/" in fr.filename:
            hit = f"{fr.filename.split('/glotaran/', 1)[1]}:{fr.name}"
    return hit or "?"


def check(cond: bool, clause: str, message: str | Callable[[], str] = ""):
    if not cond:
        raise Violation(clause, message() if callable(message) else message)


def digest(case: Any) -> str:
    return hashlib.sha256(json.dumps(case, sort_keys=True, default=_json_default).encode()).hexdigest()[:16]


def _json_default(o):
    import numpy as np

    if isinstance(o, np.generic):
        return o.item()
    if isinstance(o, np.ndarray):
        return o.tolist()
    if isinstance(o, (set, frozenset)):
        return sorted(o)
    if isinstance(o, tuple):
        return list(o)
    return repr(o)


def to_jsonable(o):
    return json.loads(json.dumps(o, default=_json_default))


def derive_seed(*parts) -> int:
    h = hashlib.sha256("/".join(str(p) for p in parts).encode()).digest()
    return int.from_bytes(h[:4], "big")


# ------------------------------------------------------------------------------------------
# sub-check kinds


@dataclass
class Sub:
    name: str
    prop: Callable[[Any], dict | None] | None = None
    # hypothesis driven
    strategy: Callable[[], Any] | None = None
    # exhaustive enumeration: enumerate(tier) -> list of cases  (chunked over the pool)
    enumerate: Callable[[str], list] | None = None
    # stateful: machine factory -> RuleBasedStateMachine subclass having .log (list of steps)
    machine: Callable[[], Any] | None = None
    replay_steps: Callable[[list], None] | None = None
    # custom: fn(tier, seed) -> ShardResult (runs in the parent)
    custom: Callable[[str, int], "ShardResult"] | None = None
    budget: dict = field(default_factory=lambda: {"quick": 100, "thorough": 1000})
    steps: dict = field(default_factory=lambda: {"quick": 12, "thorough": 40})
    shards: dict = field(default_factory=lambda: {"quick": 16, "thorough": 16})
    exhaustive: bool = False
    doc: str = ""


@dataclass
class Property:
    id: str
    level: str
    rule: str
    subs: list[Sub]
    assumptions: list[str] = field(default_factory=list)
    selfcheck: Callable[[], None] | None = None

    def sub(self, name: str) -> Sub:
        for s in self.subs:
            if s.name == name:
                return s
        raise KeyError(name)


@dataclass
class ShardResult:
    evaluations: int = 0
    discards: Counter = field(default_factory=Counter)
    nontrivial: set = field(default_factory=set)
    tags: Counter = field(default_factory=Counter)
    samples: list = field(default_factory=list)
    failures: list = field(default_factory=list)  # dict(sub, clause, message, case)
    failure_counts: Counter = field(default_factory=Counter)
    errors: list = field(default_factory=list)  # harness errors (tracebacks)
    wall: float = 0.0
    extra: dict = field(default_factory=dict)

    def merge(self, o: "ShardResult"):
        self.evaluations += o.evaluations
        self.discards.update(o.discards)
        self.nontrivial |= o.nontrivial
        self.tags.update(o.tags)
        for s in o.samples:
            if len(self.samples) < 5:
                self.samples.append(s)
        self.failures.extend(o.failures)
        self.failure_counts.update(o.failure_counts)
        self.errors.extend(o.errors[:3])
        self.wall += o.wall
        for k, v in o.extra.items():
            if isinstance(v, (int, float)) and isinstance(self.extra.get(k, 0), (int, float)):
                self.extra[k] = self.extra.get(k, 0) + v
            else:
                self.extra[k] = v


class Recorder:
    """Runs ``prop`` on cases, recording instead of raising."""

    def __init__(self, sub: Sub, keep_per_bucket: int = 2):
        self.sub = sub
        self.res = ShardResult()
        self.keep = keep_per_bucket

    def run(self, case) -> str | None:
        """Return the violated clause (or None)."""
        r = self.res
        try:
            out = self.sub.prop(case)
        except Discard as d:
            r.discards[d.reason] += 1
            return None
        except Violation as v:
            r.evaluations += 1
            key = v.clause
            r.failure_counts[key] += 1
            if sum(1 for f in r.failures if f["clause"] == key) < self.keep:
                r.failures.append(
                    {"sub": self.sub.name, "clause": v.clause, "message": v.message[:2000], "case": to_jsonable(case)}
                )
            return v.clause
        except _StopShrink:
            raise
        except Exception:  # noqa: BLE001
            r.evaluations += 1
            if len(r.errors) < 3:
                r.errors.append(
                    {"sub": self.sub.name, "traceback": traceback.format_exc()[-3000:], "case": to_jsonable(case)}
                )
            return None
        r.evaluations += 1
        out = out or {}
        tags = list(out.get("tags", []))
        for t in tags:
            r.tags[t] += 1
        if out.get("nontrivial"):
            r.nontrivial.add(digest(case))
            r.tags["nontrivial"] += 1
            if len(r.samples) < 2:
                r.samples.append(to_jsonable(case))
        elif len(r.samples) < 1:
            r.samples.append(to_jsonable(case))
        return None


def _hyp_settings(n, phases=None):
    from hypothesis import HealthCheck
    from hypothesis import Phase
    from hypothesis import settings

    return settings(
        max_examples=max(1, n),
        database=None,
        deadline=None,
        derandomize=False,
        report_multiple_bugs=False,
        phases=phases or [Phase.generate],
        suppress_health_check=list(HealthCheck),
    )


def run_hyp_shard(sub: Sub, n: int, seed: int) -> ShardResult:
    import hypothesis
    from hypothesis import given

    rec = Recorder(sub)
    t0 = time.time()

    @hypothesis.seed(seed)
    @_hyp_settings(n)
    @given(sub.strategy())
    def test(case):
        rec.run(case)

    try:
        test()
    except Exception:  # noqa: BLE001  (generator error -> harness error)
        rec.res.errors.append({"sub": sub.name, "traceback": traceback.format_exc()[-3000:], "case": None})
    rec.res.wall = time.time() - t0
    return rec.res


def matches_known(entry: dict, failure: dict) -> bool:
    """Does a failure fall under a *known* (unrepaired) finding?"""
    if entry.get("status") != "known":
        return False
    if entry.get("sub") not in (None, failure["sub"]):
        return False
    if not any(failure["clause"] == c or failure["clause"].startswith(c + ":") for c in entry.get("clauses", [])):
        return False
    pred = entry.get("predicate")
    if pred:
        from vlib import predicates

        # the predicate sees "<clause> | <message>"
        return bool(getattr(predicates, pred)(failure["case"], f'{failure["clause"]} | {failure.get("message", "")}', entry.get("params", {})))
    return True


def shrink_hyp(sub: Sub, n: int, seed: int, clause: str, max_calls: int = 400, known: list | None = None):
    """Re-run the same shard, failing only for ``clause``, with the shrink phase on.

    Returns the smallest failing case seen (JSON length) or None.
    """
    import hypothesis
    from hypothesis import Phase
    from hypothesis import given

    best = {"case": None, "size": math.inf, "message": "", "calls": 0, "failed": False}

    @hypothesis.seed(seed)
    @_hyp_settings(n, phases=[Phase.generate, Phase.shrink])
    @given(sub.strategy())
    def test(case):
        if best["failed"]:
            best["calls"] += 1
            if best["calls"] > max_calls:
                raise _StopShrink()
        try:
            sub.prop(case)
        except Violation as v:
            f = {"sub": sub.name, "clause": v.clause, "message": v.message, "case": case}
            if v.clause == clause and not any(matches_known(e, f) for e in (known or [])):
                best["failed"] = True
                size = len(json.dumps(to_jsonable(case)))
                if size <= best["size"]:
                    best.update(case=to_jsonable(case), size=size, message=v.message)
                raise
        except Discard:
            pass
        except _StopShrink:
            raise
        except Exception:  # noqa: BLE001
            pass

    try:
        test()
    except _StopShrink:
        pass
    except BaseException:  # noqa: BLE001
        pass
    return best["case"], best["message"]


def run_enum_chunk(sub: Sub, cases: list) -> ShardResult:
    rec = Recorder(sub)
    t0 = time.time()
    for c in cases:
        rec.run(c)
    rec.res.wall = time.time() - t0
    return rec.res


def _find_violation(e, depth=0):
    if isinstance(e, Violation):
        return e
    if depth > 6 or e is None:
        return None
    for sub_e in getattr(e, "exceptions", ()) or ():
        v = _find_violation(sub_e, depth + 1)
        if v is not None:
            return v
    for nxt in (e.__cause__, e.__context__):
        if nxt is not None and nxt is not e:
            v = _find_violation(nxt, depth + 1)
            if v is not None:
                return v
    return None


def run_machine_shard(sub: Sub, n: int, steps: int, seed: int, shrink: bool = True) -> ShardResult:
    """Run a RuleBasedStateMachine; the machine keeps ``self.log`` (JSON steps).

    The machine class must expose class attribute ``stats`` (a dict the harness resets) into
    which ``teardown`` adds evaluations / nontrivial digests / tags.
    """
    import hypothesis
    from hypothesis import HealthCheck
    from hypothesis import Phase
    from hypothesis import settings
    from hypothesis.stateful import run_state_machine_as_test

    res = ShardResult()
    t0 = time.time()
    cls = sub.machine()
    cls.stats = {"runs": 0, "nontrivial": set(), "tags": Counter(), "samples": [], "last_fail": None, "steps": 0}
    st_ = settings(
        max_examples=max(1, n),
        stateful_step_count=steps,
        database=None,
        deadline=None,
        report_multiple_bugs=False,
        phases=[Phase.generate, Phase.shrink] if shrink else [Phase.generate],
        suppress_health_check=list(HealthCheck),
    )
    try:
        run_state_machine_as_test(hypothesis.seed(seed)(cls), settings=st_)
    except Violation as v:
        lf = cls.stats.get("last_fail")
        res.failure_counts[v.clause] += 1
        res.failures.append(
            {
                "sub": sub.name,
                "clause": v.clause,
                "message": v.message[:2000],
                "case": to_jsonable(lf if lf is not None else {"steps": None}),
            }
        )
    except BaseException as e:  # noqa: BLE001
        if isinstance(e, (KeyboardInterrupt, SystemExit)):
            raise
        # a Violation raised in a rule normally arrives as itself; when the failure does not reproduce identically on
        # Hypothesis' re-run (e.g. process-level state leaked by the code under test) it arrives inside a FlakyFailure /
        # ExceptionGroup: the violations it contains still count
        found = _find_violation(e)
        if found is not None:
            lf = cls.stats.get("last_fail")
            res.failure_counts[found.clause] += 1
            res.failures.append(
                {"sub": sub.name, "clause": found.clause, "message": (found.message + " [reported by Hypothesis as flaky: the outcome depends on earlier cases in the same process]")[:2000],
                 "case": to_jsonable(lf if lf is not None else {"steps": None})}
            )
        else:
            tb = traceback.format_exc()
            res.errors.append({"sub": sub.name, "traceback": f"{type(e).__name__}: {str(e)[:600]}\n[...]\n" + tb[:1500] + "\n[...]\n" + tb[-1500:],
                               "case": to_jsonable(cls.stats.get("last_fail"))})
    res.evaluations = cls.stats["runs"]
    res.nontrivial = set(cls.stats["nontrivial"])
    res.tags = Counter(cls.stats["tags"])
    res.samples = list(cls.stats["samples"])[:2]
    res.extra["machine_steps"] = cls.stats["steps"]
    res.wall = time.time() - t0
    return res


# ------------------------------------------------------------------------------------------
# worker entry (spawned processes)


_ENUM_CACHE: dict = {}


def worker_init():
    for k in ("OMP_NUM_THREADS", "OPENBLAS_NUM_THREADS", "MKL_NUM_THREADS", "NUMBA_NUM_THREADS"):
        os.environ.setdefault(k, "1")


def worker_task(task: dict) -> ShardResult:
    from vlib.runner import load_property

    try:
        prop = load_property(task["property"])
        sub = prop.sub(task["sub"])
        kind = task["kind"]
        if kind == "hyp":
            return run_hyp_shard(sub, task["n"], task["seed"])
        if kind == "enum":
            ck = (task["property"], task["sub"], task["tier"])
            if ck not in _ENUM_CACHE:
                _ENUM_CACHE[ck] = sub.enumerate(task["tier"])
            cases = _ENUM_CACHE[ck]
            lo, hi = task["range"]
            return run_enum_chunk(sub, cases[lo:hi])
        if kind == "machine":
            return run_machine_shard(sub, task["n"], task["steps"], task["seed"], task.get("shrink", True))
        if kind == "shrink":
            case, msg = shrink_hyp(sub, task["n"], task["seed"], task["clause"], task.get("max_calls", 400), task.get("known"))
            r = ShardResult()
            r.extra["shrunk"] = {"case": case, "message": msg}
            return r
        raise ValueError(kind)
    except Exception:  # noqa: BLE001
        r = ShardResult()
        r.errors.append({"sub": task.get("sub"), "traceback": traceback.format_exc()[-3000:], "case": None})
        return r
