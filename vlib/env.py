"""A process environment that differs from the defaults: settings a user's session may have changed and that must not leak into
files, results or objectives (numpy print options, pandas display options, pandas copy-on-write mode).  Used by the persistence checks for a deterministic
third of their cases."""

from __future__ import annotations

import contextlib


def hostile_for(case) -> bool:
    from vlib.core import digest

    return int(digest(case)[:8], 16) % 3 == 0


@contextlib.contextmanager
def hostile_environment(active: bool = True):
    if not active:
        yield False
        return
    import numpy as np
    import pandas as pd

    with np.printoptions(precision=2, threshold=3, edgeitems=1, suppress=True, linewidth=40), pd.option_context(
        "display.precision", 2, "display.max_rows", 2, "display.max_columns", 2, "display.max_colwidth", 8, "display.float_format", "{:.1f}".format, "mode.copy_on_write", True
    ):
        yield True
