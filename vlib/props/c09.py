"""C09 - CLP linking aligns global axes faithfully.

Oracle: the alignment reference model of ``vlib/oracle/c09_align.py`` (written from the property
statement; float-fragile decisions are left open, the model yields *sets* of admissible targets).

Observation points
* ``DataProviderLinked(scheme, group)``: the data values are unique odd integers (times a power of
  two where a dataset is weighted), so every entry of ``get_aligned_data(i)`` names the dataset,
  column and row it came from.  From that the *observed assignment* (dataset, column) -> aligned
  value is decoded and verified step by step against the model; the other tables
  (``get_aligned_dataset_indices``, ``group_definitions``/``get_aligned_group_label``,
  ``get_aligned_weight``) have to describe the same assignment.
* ``optimize()`` with ``link_clp: True``: the assignment is reconstructed by induction from
  "which points report identical clps" and verified against the same model; the clps have to be the
  least-squares solution of the stack of exactly the columns assigned to the aligned point.
"""

from __future__ import annotations

import itertools
import math
import os

import numpy as np
from hypothesis import strategies as st

from vlib.core import Discard
from vlib.core import Property
from vlib.core import Sub
from vlib.core import check
from vlib.core import expect_ok
from vlib.oracle import c09_align as ref

LABELS = ["dsA", "dsB", "dsC", "dsD"]
METHODS = list(ref.METHODS)
RATES = [0.3, 1.1]
CLP_LABELS = ["s0", "s1"]

# ------------------------------------------------------------------------------------------
# case -> glotaran objects


def _validate(case):
    axes = case["axes"]
    n = len(axes)
    if not 2 <= n <= 4:
        raise Discard("number of datasets outside 2..4")
    for ax in axes:
        if len(ax) == 0:
            raise Discard("empty axis")
        if not all(math.isfinite(x) for x in ax):
            raise Discard("non-finite axis")
        if len(set(ax)) != len(ax):
            raise Discard("axis with repeated points")
        if not case.get("axis_order") and any(b <= a for a, b in zip(ax, ax[1:])):
            raise Discard("axis not strictly increasing")
    tol = case["tol"]
    if not (math.isfinite(tol) and tol >= 0):
        raise Discard("tolerance negative or non-finite")
    if case["method"] not in METHODS:
        raise Discard("unknown method")


def weight_array(k, m, g):
    """Powers of two (exact products), different per dataset / row / column."""
    r = np.arange(m)[:, None]
    c = np.arange(g)[None, :]
    return 2.0 ** -(1.0 + (r + 2 * c + k) % 3)


def model_axis(k, m):
    return np.linspace(0.0, 2.0 + k, m) if m > 1 else np.array([0.5 + k])


def build(case, data_arrays):
    """Scheme + dataset group; ``data_arrays[k]`` is the (model, global) data of dataset #k."""
    import xarray as xr

    from glotaran.project import Scheme
    from vlib import testmc

    axes = case["axes"]
    n = len(axes)
    labels = case["labels"]
    spec = {
        "dataset_groups": {"default": {"link_clp": True}},
        "megacomplex": {"m": {"type": "verif-table", "labels": CLP_LABELS, "rates": ["r.1", "r.2"], "shape": "exp",
                              "index_dependent": bool(case.get("index_dependent"))}},
        "dataset": {labels[k]: {"megacomplex": ["m"]} for k in range(n)},
    }
    model, params = testmc.make_model(spec, {"r": list(RATES)})
    weights = []
    datasets = {}
    for k in range(n):
        d = np.asarray(data_arrays[k], dtype=float)
        m, g = d.shape
        w = weight_array(k, m, g) if case["weights"][k] else None
        weights.append(w)
        transposed = bool(case["transposed"][k])
        dims = ("global", "model") if transposed else ("model", "global")
        variables = {"data": (dims, d.T.copy() if transposed else d.copy())}
        if w is not None:
            variables["weight"] = (dims, w.T.copy() if transposed else w.copy())
        gdtype = {"int64": np.int64, "float32": np.float32}.get((case.get("axis_dtypes") or ["float64"] * n)[k], np.float64)
        datasets[k] = xr.Dataset(variables, coords={"model": model_axis(k, m), "global": np.asarray(axes[k], dtype=float).astype(gdtype)})
    data = {labels[k]: datasets[k] for k in case["data_order"]}
    kwargs = {}
    if "nfev" in case:
        kwargs["maximum_number_function_evaluations"] = case["nfev"]
    scheme = Scheme(model, params, data, clp_link_tolerance=case["tol"], clp_link_method=case["method"], **kwargs)
    return scheme, weights


def coded_data(case):
    """Unique odd integers: value -> (dataset, column, row)."""
    out = []
    for k, ax in enumerate(case["axes"]):
        m = case["msizes"][k]
        r = np.arange(m)[:, None]
        c = np.arange(len(ax))[None, :]
        out.append((1.0 + 2.0 * (k * 1000 + c * 20 + r)).astype(float))
    return out


# ------------------------------------------------------------------------------------------
# DataProviderLinked level


def prop_provider(case, sub):
    from glotaran.optimization.data_provider import AlignDatasetError
    from glotaran.optimization.data_provider import DataProviderLinked

    _validate(case)
    axes = [[float(x) for x in ax] for ax in case["axes"]]
    n = len(axes)
    tol, method = float(case["tol"]), case["method"]
    labels = case["labels"]
    raw = coded_data(case)
    scheme, weights = build(case, raw)
    stacked = [raw[k] * weights[k] if weights[k] is not None else raw[k] for k in range(n)]
    decode = {}
    for k in range(n):
        for (r, c), val in np.ndenumerate(stacked[k]):
            decode[float(val)] = (k, c, r)
    assert len(decode) == sum(a.size for a in stacked)  # harness invariant (odd * 2^-j is unique)

    tags = [method, f"n{n}", f"tol{tol:g}" if sub == "grid" else ("tol0" if tol == 0 else "tol>0")]
    try:
        err_possible, ok_possible = ref.error_analysis(axes, tol, method)
    except ref.TooOpen:
        raise Discard("too many open decisions for the path enumeration") from None

    group = scheme.model.get_dataset_groups()["default"]
    group.set_parameters(scheme.parameters)
    raised = False
    try:
        with expect_ok(f"{sub}.call.{method}", allowed=(AlignDatasetError,)):
            dp = DataProviderLinked(scheme, group)
    except AlignDatasetError:
        raised = True
    if raised:
        check(
            err_possible,
            f"{sub}.error_unexpected.{method}",
            lambda: f"AlignDatasetError although no admissible assignment merges two points of one dataset: axes {axes} tol {tol} {method}",
        )
        return {"nontrivial": False, "tags": tags + ["align_error", "error_open" if ok_possible else "error_mandatory"]}

    aligned = [float(x) for x in np.asarray(dp.aligned_global_axis, dtype=float)]
    check(all(b > a for a, b in zip(aligned, aligned[1:])), f"{sub}.axis_increasing", lambda: f"aligned axis {aligned}")
    observed = [[None] * len(ax) for ax in axes]
    blocks_at = []
    for i, a in enumerate(aligned):
        arr = np.asarray(dp.get_aligned_data(i), dtype=float).ravel()
        dec = [decode.get(float(x)) for x in arr]
        check(None not in dec, f"{sub}.data_foreign_value", lambda: f"aligned data at {a} contains values of no dataset: {arr.tolist()}")
        blocks = []
        pos = 0
        while pos < len(dec):
            k, c, r = dec[pos]
            m = case["msizes"][k]
            want = [(k, c, rr) for rr in range(m)]
            check(dec[pos : pos + m] == want, f"{sub}.data_whole_columns", lambda: f"aligned data at {a}: {dec} is not a sequence of whole columns")
            blocks.append((k, c))
            pos += m
        check(len(blocks) > 0, f"{sub}.axis_union", lambda: f"aligned point {a} holds no data column")
        ks = [k for k, _ in blocks]
        check(
            ks == sorted(set(ks)),
            f"{sub}.merge.{method}" if len(set(ks)) < len(ks) else f"{sub}.data_group_order",
            lambda: f"aligned data at {a}: blocks (dataset, column) {blocks} - one column per dataset, in group order, expected",
        )
        for k, c in blocks:
            check(observed[k][c] is None, f"{sub}.column_once", lambda: f"column {c} of dataset #{k} enters more than once")
            observed[k][c] = a
        blocks_at.append(blocks)
    missing = [(k, c) for k in range(n) for c in range(len(axes[k])) if observed[k][c] is None]
    check(not missing, f"{sub}.column_once", lambda: f"columns (dataset, column) {missing} enter nowhere; aligned axis {aligned}")

    # the assignment is the one the statement prescribes
    bad, flags = ref.check_assignment(axes, tol, method, observed)
    if bad is not None:
        kind, msg = bad
        clause = {"first": f"{sub}.first_dataset", "target": f"{sub}.target.{method}", "merge": f"{sub}.merge.{method}"}[kind]
        check(False, clause, msg + f" | axes {axes}")
    check(ok_possible, f"{sub}.error_missing.{method}", lambda: f"no AlignDatasetError although every admissible assignment merges two points of one dataset: {axes} tol {tol}")
    union = sorted({t for obs in observed for t in obs})
    check(union == aligned, f"{sub}.axis_union", lambda: f"aligned axis {aligned} != sorted distinct targets {union}")

    # the other tables describe the same assignment
    seen_labels = set()
    any_weight = any(w is not None for w in weights)
    for i, blocks in enumerate(blocks_at):
        idx = [int(x) for x in np.asarray(dp.get_aligned_dataset_indices(i)).ravel()]
        check(idx == [c for _, c in blocks], f"{sub}.dataset_indices", lambda: f"at {aligned[i]}: indices {idx}, data columns {blocks}")
        gl = str(dp.get_aligned_group_label(i))
        seen_labels.add(gl)
        gd = dp.group_definitions.get(gl)
        check(
            gd is not None and [str(x) for x in gd] == [labels[k] for k, _ in blocks],
            f"{sub}.group_definitions",
            lambda: f"at {aligned[i]}: group '{gl}' -> {gd}, stacked datasets {[labels[k] for k, _ in blocks]}",
        )
        w = dp.get_aligned_weight(i)
        if any(weights[k] is not None for k, _ in blocks):
            want = np.concatenate([weights[k][:, c] if weights[k] is not None else np.ones(case["msizes"][k]) for k, c in blocks])
            check(
                w is not None and np.asarray(w).shape == want.shape and np.array_equal(np.asarray(w, dtype=float), want),
                f"{sub}.weights",
                lambda: f"at {aligned[i]}: weight {None if w is None else np.asarray(w).tolist()}, expected {want.tolist()} (ones for unweighted datasets)",
            )
        else:
            size = sum(case["msizes"][k] for k, _ in blocks)
            check(
                w is None or (np.asarray(w).shape == (size,) and np.all(np.asarray(w) == 1.0)),
                f"{sub}.weights",
                lambda: f"at {aligned[i]}: no stacked dataset is weighted but weight is {np.asarray(w).tolist()}",
            )
    check({str(x) for x in dp.group_definitions} == seen_labels, f"{sub}.group_definitions", lambda: f"{dict(dp.group_definitions)} vs used {seen_labels}")

    shared = sum(1 for b in blocks_at if len(b) > 1)
    single = sum(1 for b in blocks_at if len(b) == 1)
    moved = any(observed[k][c] != axes[k][c] for k in range(n) for c in range(len(axes[k])))
    tags += ["shared" if shared else "nothing_shared", "moved" if moved else "unmoved"]
    if flags["open"]:
        tags.append("open_tolerance_decision")
    if flags["tie"]:
        tags.append("tie")
    if err_possible:
        tags.append("error_open")
    if any_weight:
        tags.append("weights_some" if not all(w is not None for w in weights) else "weights_all")
    return {"nontrivial": bool(tol > 0 and shared and single), "tags": tags}


# ------------------------------------------------------------------------------------------
# exhaustive grid

OFFS = [0.0, 0.2, -0.2, 0.5, -0.5]
TOLS = [0.0, 0.1, 0.2, 0.5, 1.0, 1.5]
SUBSETS5 = [list(s) for r in range(1, 5) for s in itertools.combinations(range(5), r)]  # 30
SUBSETS3 = [list(s) for r in range(1, 4) for s in itertools.combinations(range(3), r)]  # 7
ORDERS3 = [(0, 1, 2), (1, 0, 2), (1, 2, 0)]  # with (d2, d3) ranging over all ordered pairs these cover all 6 orders
# mixed-radix layouts; the leading digits (order, method, tol) are the strata
RADIX2 = (2, 3, 6, 30, 30, 5)
RADIX3 = (3, 3, 6, 7, 7, 5, 7, 5)
N2 = math.prod(RADIX2)
N3 = math.prod(RADIX3)
QUICK_STRIDE = 19  # prime: coprime to every radix, so each stratum sees all digit combinations evenly


def _digits(idx, radix):
    out = []
    for r in reversed(radix):
        out.append(idx % r)
        idx //= r
    return out[::-1]


def _mix(idx):
    h = (idx * 0x9E3779B1 + 0x7F4A7C15) & 0xFFFFFFFF
    h ^= h >> 15
    h = (h * 0x2C1B3C6D) & 0xFFFFFFFF
    h ^= h >> 12
    return h


def _decorate(axes, tol, method, h):
    """Non-alignment attributes (weights on some datasets, labels, layouts) chosen by a hash of the index."""
    n = len(axes)
    perms = list(itertools.permutations(range(n)))
    lab = perms[(h >> 4) % len(perms)]
    wmask = h % (1 << n)
    tmask = (h >> 10) % (1 << n)
    return {
        "axes": axes,
        "tol": tol,
        "method": method,
        "labels": [LABELS[j] for j in lab],
        "weights": [bool(wmask >> k & 1) for k in range(n)],
        "transposed": [bool(tmask >> k & 1) for k in range(n)],
        "msizes": [1 + (h >> (16 + 2 * k)) % 3 for k in range(n)],
        "data_order": list(range(n)) if (h >> 24) % 2 == 0 else list(range(n))[::-1],
    }


def grid_case(idx):
    if idx < N2:
        order, mi, ti, s1, s2, o2 = _digits(idx, RADIX2)
        ds = [[float(g) for g in SUBSETS5[s1]], [float(g) + OFFS[o2] for g in SUBSETS5[s2]]]
        axes = ds if order == 0 else ds[::-1]
    else:
        order, mi, ti, s1, s2, o2, s3, o3 = _digits(idx - N2, RADIX3)
        ds = [
            [float(g) for g in SUBSETS3[s1]],
            [float(g) + OFFS[o2] for g in SUBSETS3[s2]],
            [float(g) + OFFS[o3] for g in SUBSETS3[s3]],
        ]
        axes = [ds[j] for j in ORDERS3[order]]
    return _decorate(axes, TOLS[ti], METHODS[mi], _mix(idx))


class GridCases:
    """Lazy list of the grid cases (``len`` and slicing are all the runner needs)."""

    def __init__(self, tier):
        if tier == "thorough":
            self.idx = range(N2 + N3)
        else:
            seed = int(os.environ.get("VERIF_SEED", "1"))
            idx = []
            for base, total, inner in ((0, N2, math.prod(RADIX2[3:])), (N2, N3, math.prod(RADIX3[3:]))):
                for s in range(total // inner):  # stratum = (order, method, tolerance)
                    first = (seed + 7 * s) % QUICK_STRIDE
                    idx.extend(range(base + s * inner + first, base + (s + 1) * inner, QUICK_STRIDE))
            self.idx = idx

    def __len__(self):
        return len(self.idx)

    def __getitem__(self, item):
        if isinstance(item, slice):
            return [grid_case(i) for i in self.idx[item]]
        return grid_case(self.idx[item])

    def __iter__(self):
        return (grid_case(i) for i in self.idx)


# ------------------------------------------------------------------------------------------
# random axes (Hypothesis)


@st.composite
def random_axes(draw, n, max_size):
    family = draw(st.sampled_from(["grid", "grid", "grid_shift", "float", "near_tol"]))
    if family in ("grid", "grid_shift"):
        step = draw(st.sampled_from([1.0, 0.5, 0.25, 2.0]))
        shift = 0.0 if family == "grid" else draw(st.sampled_from([-6.0, 100.0, 1000.0, -0.5]))
        tol = step * draw(st.sampled_from([0.0, 0.1, 0.2, 0.25, 0.5, 0.75, 1.0, 1.5, 2.0, 3.0]))
        axes = []
        for _ in range(n):
            pts = draw(st.lists(st.integers(0, 12), min_size=1, max_size=max_size, unique=True))
            off = step * draw(st.sampled_from([0.0, 0.0, 0.125, -0.125, 0.25, -0.25, 0.5, -0.5, 0.2, -0.2, 0.1, -0.1, 0.3, -0.3]))
            axes.append(sorted(shift + step * p + off for p in pts))
    elif family == "float":
        tol = draw(st.one_of(st.sampled_from([0.0, 0.5, 1.0]), st.floats(0.0, 3.0)))
        # multiples of 2^-20 in [-10, 10]: distinct points are resolvable by float subtraction.  (Aligned points closer
        # than one rounding error of ``target - v`` - e.g. 0.0 and -4e-242 seen from 1.0 - make the alignment itself
        # a float-fragile decision that can even reverse the order of a dataset's points; outside the stated domain.)
        axes = [
            sorted(q / 2.0**20 for q in draw(st.lists(st.integers(-10 * 2**20, 10 * 2**20), min_size=1, max_size=max_size, unique=True)))
            for _ in range(n)
        ]
    else:  # points a hair's breadth inside / outside the tolerance, on either side
        tol = draw(st.sampled_from([0.1, 0.25, 0.3, 1.0, 1.7]))
        base = sorted(draw(st.lists(st.integers(-4, 8), min_size=1, max_size=max_size, unique=True)))
        axes = [[3.0 * b for b in base]]
        for _ in range(n - 1):
            pts = draw(st.lists(st.sampled_from(base), min_size=1, max_size=max_size, unique=True))
            ax = []
            for b in pts:
                sgn = draw(st.sampled_from([-1.0, 1.0]))
                eps = draw(st.sampled_from([0.0, 1e-15, -1e-15, 1e-12, -1e-12, 1e-10, -1e-10, 1e-8, -1e-8, 1e-6, -1e-6, 1e-3, -1e-3]))
                ax.append(3.0 * b + sgn * tol * (1.0 + eps))
            axes.append(sorted(set(ax)))
        axes = list(draw(st.permutations(axes)))
    axes = [[float(x) for x in ax] for ax in axes]
    return axes, float(tol)


@st.composite
def random_cases(draw, ns=(3, 4, 4, 4, 2), max_size=8, msize=(1, 3), reorder=False):
    n = draw(st.sampled_from(ns))
    axes, tol = draw(random_axes(n, max_size))
    # the axes as instruments / scripts deliver them: descending or in acquisition order, integer or single precision
    # coordinates (only where every value is exactly representable, so that the numbers are the same)
    # (only for the optimize() level: the provider-level clauses are stated for ascending axes - "the aligned axis is strictly
    # increasing" - and identical descending axes of all datasets are taken over as they are)
    order = draw(st.sampled_from(["ascending", "ascending", "ascending", "descending", "first_descending", "shuffled"])) if reorder else "ascending"
    for k in range(n):
        if order == "descending" or (order == "first_descending" and k == 0):
            axes[k] = axes[k][::-1]
        elif order == "shuffled":
            axes[k] = list(draw(st.permutations(axes[k])))
    dtypes = []
    for k in range(n):
        dt = draw(st.sampled_from(["float64", "float64", "int64", "float32"]))
        if dt == "int64" and not all(float(v).is_integer() for v in axes[k]):
            dt = "float64"
        if dt == "float32" and not all(float(np.float32(v)) == v for v in axes[k]):
            dt = "float64"
        dtypes.append(dt)
    return {
        "axis_order": order,
        "axis_dtypes": dtypes,
        "index_dependent": draw(st.booleans()),
        "axes": axes,
        "tol": tol,
        "method": draw(st.sampled_from(METHODS)),
        "labels": list(draw(st.permutations(LABELS[:n]))),
        "weights": [draw(st.booleans()) for _ in range(n)],
        "transposed": [draw(st.booleans()) for _ in range(n)],
        "msizes": [draw(st.integers(*msize)) for _ in range(n)],
        "data_order": list(draw(st.permutations(list(range(n))))),
    }


# ------------------------------------------------------------------------------------------
# optimize() level


@st.composite
def optimize_cases(draw):
    # >= 4 rows per column keeps the degrees of freedom of the fit positive (2 clps per aligned point + 2 parameters)
    case = draw(random_cases(ns=(2, 2, 3, 3, 4), max_size=4, msize=(4, 6), reorder=True))
    case["seed"] = draw(st.integers(0, 2**32 - 1))
    case["nfev"] = 1
    return case


def noisy_data(case):
    from vlib import testmc

    rng = np.random.default_rng(case["seed"])
    out = []
    for k, ax in enumerate(case["axes"]):
        m = case["msizes"][k]
        a = testmc.table_matrix("exp", RATES, model_axis(k, m))
        c = rng.uniform(0.5, 2.0, (2, len(ax)))
        out.append(a @ c + 0.3 * rng.standard_normal((m, len(ax))))
    return out


EQ_TOL = 1e-10
NE_TOL = 1e-6


def prop_optimize(case, continued=False):
    from glotaran.optimization.data_provider import AlignDatasetError
    from glotaran.optimization.optimize import optimize
    from vlib import testmc

    _validate(case)
    sub = "optimize_continued" if continued else "optimize"
    axes = [[float(x) for x in ax] for ax in case["axes"]]
    n = len(axes)
    tol, method = float(case["tol"]), case["method"]
    labels = case["labels"]
    raw = noisy_data(case)
    scheme, weights = build(case, raw)
    tags = [method, f"n{n}", "tol0" if tol == 0 else "tol>0", f"axes_{case.get('axis_order', 'ascending')}"] + sorted({f"axis_{d}" for d in case.get("axis_dtypes", []) if d != "float64"}) + (
        ["index_dependent"] if case.get("index_dependent") else [])
    try:
        err_possible, ok_possible = ref.error_analysis(axes, tol, method)
    except ref.TooOpen:
        raise Discard("too many open decisions for the path enumeration") from None
    raised = False
    try:
        with expect_ok(f"{sub}.call.{method}", allowed=(AlignDatasetError,)):
            res = optimize(scheme, verbose=False, raise_exception=True)
            if continued:
                # r6c09B: the fit is continued from the Result (Result.get_scheme()): same datasets, same linking options
                res = optimize(res.get_scheme(), verbose=False, raise_exception=True)
    except AlignDatasetError:
        raised = True
    if raised:
        check(err_possible, f"{sub}.error_unexpected.{method}", lambda: f"AlignDatasetError although no admissible assignment merges two points of one dataset: {axes} tol {tol} {method}")
        return {"nontrivial": False, "tags": tags + ["align_error"]}

    # every result array sits on the dataset's original coordinates
    clps = []
    for k in range(n):
        check(labels[k] in res.data, f"{sub}.coords", lambda: f"no result dataset for {labels[k]}")
        ds = res.data[labels[k]]
        m = case["msizes"][k]
        g = [float(x) for x in np.asarray(ds.coords["global"].values, dtype=float)]
        check(g == axes[k], f"{sub}.coords", lambda: f"{labels[k]}: global coordinate {g}, original {axes[k]}")
        ma = np.asarray(ds.coords["model"].values, dtype=float)
        check(np.array_equal(ma, model_axis(k, m)), f"{sub}.coords", lambda: f"{labels[k]}: model coordinate {ma.tolist()}")
        for name in ("clp", "residual", "fitted_data", "data"):
            check(name in ds, f"{sub}.coords", lambda: f"{labels[k]}: result has no '{name}'")
            check(ds[name].sizes.get("global") == len(axes[k]), f"{sub}.coords", lambda: f"{labels[k]}.{name}: sizes {dict(ds[name].sizes)}")
        got = ds["data"].transpose("model", "global").values
        check(np.array_equal(got, raw[k]), f"{sub}.data_reported_back", lambda: f"{labels[k]}: data columns are not reported under their original coordinates")
        cl = ds["clp"]
        check([str(x) for x in cl.coords["clp_label"].values] == CLP_LABELS, f"{sub}.coords", lambda: f"clp labels {cl.coords['clp_label'].values}")
        clps.append(np.asarray(cl.transpose("global", "clp_label").values, dtype=float))
    scale = max(1.0, max(float(np.abs(c).max()) for c in clps))

    def relation(a, b):
        d = float(np.abs(a - b).max())
        if d <= EQ_TOL * scale:
            return True
        if d > NE_TOL * scale:
            return False
        raise Discard("clp distance inside the undecidable margin")

    # reconstruct the assignment by induction over the group order from "reports identical clps"
    observed = [list(axes[0])] + [[None] * len(axes[k]) for k in range(1, n)]
    for k in range(1, n):
        for c in range(len(axes[k])):
            partner = [observed[j][cc] for j in range(k) for cc in range(len(axes[j])) if relation(clps[k][c], clps[j][cc])]
            observed[k][c] = partner[0] if partner else axes[k][c]
    # ... "share clps iff assigned to the same aligned point", over all pairs of different datasets
    for k in range(n):
        for j in range(k):
            for c in range(len(axes[k])):
                for cc in range(len(axes[j])):
                    same = observed[k][c] == observed[j][cc]
                    eq = relation(clps[k][c], clps[j][cc])
                    check(
                        same == eq,
                        f"{sub}.share_iff.{method}",
                        lambda: f"{labels[k]}@{axes[k][c]} and {labels[j]}@{axes[j][cc]}: clps {'equal' if eq else 'differ'} "
                        f"but the points are assigned to {observed[k][c]} / {observed[j][cc]}; axes {axes} tol {tol}",
                    )
    bad, flags = ref.check_assignment(axes, tol, method, observed)
    if bad is not None:
        kind, msg = bad
        clause = {"first": f"{sub}.first_dataset", "target": f"{sub}.target.{method}", "merge": f"{sub}.merge.{method}"}[kind]
        check(False, clause, msg + f" | axes {axes} (assignment reconstructed from identical clps)")
    check(ok_possible, f"{sub}.error_missing.{method}", lambda: f"no AlignDatasetError although every admissible assignment merges two points of one dataset: {axes} tol {tol}")

    # the shared clps solve the stack of exactly the columns assigned to the aligned point
    rates = [float(res.optimized_parameters.get(f"r.{j+1}").value) for j in range(2)]
    points = sorted({t for obs in observed for t in obs})
    shared = single = 0
    for t in points:
        members = [(k, c) for k in range(n) for c in range(len(axes[k])) if observed[k][c] == t]
        shared += len(members) > 1
        single += len(members) == 1
        rows, ys = [], []
        for k, c in members:
            if case.get("index_dependent"):
                # the matrix of a column is the one of its own coordinate, wherever it was aligned to
                a = testmc.table_matrix("exp", rates, model_axis(k, case["msizes"][k]), gvals=[axes[k][c]])[0]
            else:
                a = testmc.table_matrix("exp", rates, model_axis(k, case["msizes"][k]))
            w = weights[k][:, c] if weights[k] is not None else np.ones(case["msizes"][k])
            rows.append(a * w[:, None])
            ys.append(raw[k][:, c] * w)
        x, *_ = np.linalg.lstsq(np.vstack(rows), np.concatenate(ys), rcond=None)
        for k, c in members:
            d = float(np.abs(clps[k][c] - x).max())
            check(
                d <= 1e-7 * scale,
                f"{sub}.clp_stacked_solution",
                lambda: f"{labels[k]}@{axes[k][c]}: clp {clps[k][c].tolist()} is not the solution {x.tolist()} of the stack of columns {members} (aligned point {t})",
            )
    moved = any(observed[k][c] != axes[k][c] for k in range(n) for c in range(len(axes[k])))
    tags += ["shared" if shared else "nothing_shared", "moved" if moved else "unmoved"]
    if flags["tie"]:
        tags.append("tie")
    if flags["open"]:
        tags.append("open_tolerance_decision")
    return {"nontrivial": bool(tol > 0 and shared and single), "tags": tags}


# ------------------------------------------------------------------------------------------


def selfcheck():
    ref.selfcheck()
    # grid bookkeeping
    assert len(SUBSETS5) == 30 and len(SUBSETS3) == 7
    c = grid_case(0)
    assert c["axes"] == [[0.0], [0.0]] and c["tol"] == 0.0 and c["method"] == "nearest"
    last = grid_case(N2 + N3 - 1)
    assert len(last["axes"]) == 3 and last["tol"] == 1.5 and last["method"] == "forward"


PROPERTY = Property(
    id="C09",
    level="exploration",
    rule=(
        "grid: exhaustive enumeration of (a) 2 datasets: first axis any subset (size 1-4) of {0,1,2,3,4}, second any such "
        "subset + offset in {0,+-0.2,+-0.5}, both dataset orders; (b) 3 datasets: first axis any non-empty subset of {0,1,2}, "
        "second and third any such subset + offset in {0,+-0.2,+-0.5}, all 6 dataset orders (3 explicit x ordered pairs); each "
        "with tolerance in {0,0.1,0.2,0.5,1,1.5} and method in {nearest,backward,forward}: 162 000 + 463 050 alignments "
        "(thorough: all; quick: every 19th inside each (order, method, tolerance) stratum, phase chosen by VERIF_SEED). "
        "Weights on some datasets, label permutation, data layout, model-axis sizes 1-3 are chosen by a hash of the case index "
        "(not exhaustive). random: Hypothesis, 2-4 datasets (mostly 4), axes of 1-8 points from scaled/shifted grids with "
        "offsets, random multiples of 2^-20 in [-10,10], and points placed at tolerance*(1+-1e-15..1e-3) from a target. optimize: Hypothesis, 2-4 datasets, "
        "axes of 1-4 points, seeded noisy data, link_clp true, one function evaluation. A case is non-trivial if tolerance > 0 and "
        "the alignment has at least one aligned point shared by several datasets and one that is not; distinct = distinct case digest."
    ),
    subs=[
        Sub("grid", prop=lambda case: prop_provider(case, "grid"), enumerate=lambda tier: GridCases(tier), exhaustive=True,
            doc="DataProviderLinked tables vs the alignment reference model on the bounded grid (exhaustive in thorough, 1/19 stratified sample in quick)"),
        Sub("random", prop=lambda case: prop_provider(case, "random"), strategy=lambda: random_cases(),
            budget={"quick": 2400, "thorough": 120000},
            doc="same oracle, 2-4 datasets with larger random axes"),
        Sub("optimize", prop=prop_optimize, strategy=lambda: optimize_cases(), budget={"quick": 800, "thorough": 40000},
            doc="optimize(): clps identical iff same aligned point, stacked least-squares solution, original coordinates"),
        Sub("optimize_continued", prop=lambda case: prop_optimize(case, continued=True), strategy=lambda: optimize_cases(),
            budget={"quick": 300, "thorough": 15000},
            doc="the same clauses on the Result of a second optimize() started from result.get_scheme() (continued fit keeps the linking options)"),
    ],
    assumptions=[
        "alignment reference model written from the statement; 'within tolerance' is inclusive (exact rational comparison of the given floats); "
        "a distance within 1e-9*max(1,|v|,|t|,tol) of the tolerance (but not exactly equal) may or may not count; candidates whose distances "
        "differ by less than that band may resolve either way; AlignDatasetError is admissible iff some admissible assignment merges two points "
        "of one dataset and required iff all do",
        "axes strictly increasing (docs: 'monotonic increasing coordinates (as one should)') and finite, tolerance >= 0, data free of NaN; distinct axis points of different datasets are resolvable by float subtraction (no two aligned points closer than one rounding error of target - v); neutral dataset labels dsA..dsD",
        "get_aligned_weight of a point none of whose datasets is weighted may be None or all ones",
        "optimize level: clps 'identical' = max abs difference <= 1e-10*scale, 'differ' = > 1e-6*scale (cases in between are discarded and counted); "
        "stacked solution compared with numpy lstsq at 1e-7*scale (matrices: 2 exponentials on 4-6 points, cond < 1e3)",
    ],
    selfcheck=selfcheck,
)
