"""C13 - fit statistics are consistent with each other and with the reported data."""

from __future__ import annotations

import warnings

import numpy as np
from hypothesis import strategies as st

from vlib.core import Discard
from vlib.core import Property
from vlib.core import Sub
from vlib.core import check
from vlib.core import expect_ok
from vlib.gen import schemes
from vlib.oracle import refobjective as ref
from vlib.props.c02 import conflicts
from vlib.props.c02 import features
from vlib.props.c03 import optimized_values

REL = 1e-9


def close(a, b, rel=REL, abs_=1e-300):
    return abs(a - b) <= rel * max(abs(a), abs(b)) + abs_


def result_of_reused_optimizer(case, k_frac):
    """One ``Optimizer`` object: a run, then a second run in which the model raises at some evaluation (contained), then
    ``create_result()``.  Whatever that Result reports (here: success, from the first run), it is a successful Result and its
    statistics must be consistent with its own datasets."""
    from glotaran.optimization.optimizer import Optimizer
    from vlib import testmc

    scheme = schemes.make_scheme(case, maximum_number_function_evaluations=case.get("max_nfev", 3),
                                 optimization_method=case.get("method", "TrustRegionReflection"), add_svd=case.get("add_svd", False))
    testmc.reset_fault(None)
    try:
        with expect_ok("reuse.optimizer"):
            opt = Optimizer(scheme, verbose=False, raise_exception=False)
        try:
            opt.optimize()
        except Exception as e:  # noqa: BLE001
            raise Discard(f"first run raised {type(e).__name__}") from None
        n = testmc.FAULT["count"]
        if opt._optimization_result is None or n < 2:  # noqa: SLF001  (only to tell a contained numerical breakdown from a fit)
            raise Discard("first run did not finish")
        k = 2 + int(k_frac * (n - 2))
        testmc.reset_fault({"kind": "raise_at", "k": k})
        with expect_ok("reuse.second_run_not_contained"):
            opt.optimize()
        testmc.reset_fault(None)
        with expect_ok("reuse.create_result"):
            return opt.create_result()
    finally:
        testmc.reset_fault(None)


def prop_reuse(c):
    return prop(c["scheme"], reuse=c["k_frac"])


def reuse_cases():
    @st.composite
    def cases(draw):
        case = draw(schemes.fit_cases(labels="neutral", allow_full=False, max_datasets=2))
        for m in case["megacomplexes"].values():
            m["fault"] = True
        return {"scheme": case, "k_frac": draw(st.floats(0, 1))}

    return cases()


def prop(case, reuse=None):
    from vlib import capture

    why = conflicts(case)
    if why:
        raise Discard(why)
    try:
        r0 = ref.reference(case, {f"{g}.{j+1}": float(v) for g, vs in case["parameters"].items() for j, v in enumerate(vs)})
    except ref.Ambiguous as a:
        raise Discard(f"ambiguous: {a}")
    except ref.IllConditioned as a:
        raise Discard("ill-conditioned: " + str(a).split(" ")[0])
    if r0["vector"].size - len(case["free"]) - sum(g["n_clp"] for g in r0["groups"].values()) <= 0:
        raise Discard("non-positive degrees of freedom")
    with warnings.catch_warnings():
        warnings.simplefilter("ignore")
        if reuse is None:
            with expect_ok("stats.optimize"):
                scheme, res = schemes.run_fit(case)
        else:
            res = result_of_reused_optimizer(case, reuse)
        if not res.success:
            raise Discard("optimisation not successful")
        vals = optimized_values(case, res)
        try:
            r = ref.reference(case, vals)
        except (ref.Ambiguous, ref.IllConditioned):
            raise Discard("ill-conditioned at the optimised parameters")
        # objective re-evaluated at the optimised parameters (independent optimizer instance)
        with expect_ok("stats.reevaluate"):
            cap = capture.open_objective(schemes.make_scheme(case))
            labels, x_opt, _, _ = res.optimized_parameters.get_label_value_and_bounds_arrays(exclude_non_vary=True)
            check(list(labels) == list(cap.labels), "stats.free_label_order", lambda: f"{labels} vs {cap.labels}")
            obj = cap(np.asarray(x_opt, dtype=float))
    n_res = r["vector"].size
    check(res.number_of_residuals == n_res, "stats.number_of_residuals", lambda: f"{res.number_of_residuals} vs {n_res} (data points + penalties)")
    check(res.number_of_free_parameters == len(case["free"]), "stats.number_of_free_parameters", lambda: f"{res.number_of_free_parameters} vs {len(case['free'])}")
    check(list(res.free_parameter_labels) == list(cap.labels), "stats.free_parameter_labels")
    n_clp = sum(g["n_clp"] for g in r["groups"].values())
    check(res.number_of_clps == n_clp, "stats.number_of_clps", lambda: f"reported {res.number_of_clps}, reference (after constraints and relations, per index) {n_clp}")
    check(res.degrees_of_freedom == res.number_of_residuals - res.number_of_free_parameters - res.number_of_clps, "stats.degrees_of_freedom")
    # chi-square from the reported datasets and penalties
    ss = 0.0
    for d in case["datasets"]:
        ds = res.data[d["label"]]
        v = ds["weighted_residual"] if "weighted_residual" in ds else ds["residual"]
        ss += float((v.values ** 2).sum())
        size = len(d["model_axis"]) * len(d["global_axis"])
        rm = float(np.sqrt((ds["residual"].values ** 2).sum() / size))
        check(close(float(ds.attrs["root_mean_square_error"]), rm), "stats.dataset_rmse", lambda: f"{d['label']}: {ds.attrs['root_mean_square_error']} vs {rm}")
        wrm = float(np.sqrt((v.values ** 2).sum() / size))
        check(close(float(ds.attrs["weighted_root_mean_square_error"]), wrm), "stats.dataset_weighted_rmse", lambda: f"{d['label']}: {ds.attrs['weighted_root_mean_square_error']} vs {wrm}")
    pens = [float(p) for grp in res.additional_penalty for p in np.asarray(grp, dtype=float).ravel()]
    n_pen = sum(len(g["penalties"]) for g in r["groups"].values())
    check(len(pens) == n_pen, "stats.penalty_count", lambda: f"{len(pens)} reported vs {n_pen}")
    chi = ss + sum(p * p for p in pens)
    check(close(res.chi_square, chi, 1e-9), "stats.chi_square_vs_datasets_and_penalties",
          lambda: f"chi_square={res.chi_square!r} but sum(residual^2)+sum(penalty^2)={chi!r} (rel {abs(res.chi_square-chi)/max(chi,1e-300):.2e}; penalties {pens})")
    check(close(res.cost, res.chi_square / 2, 1e-9), "stats.cost_half_chi_square", lambda: f"{res.cost} vs {res.chi_square/2}")
    cobj = 0.5 * float(obj @ obj)
    check(close(res.cost, cobj, 1e-9), "stats.cost_vs_objective", lambda: f"cost {res.cost!r} vs re-evaluated objective {cobj!r}")
    check(close(res.reduced_chi_square, res.chi_square / res.degrees_of_freedom), "stats.reduced_chi_square")
    check(close(res.root_mean_square_error, np.sqrt(res.chi_square / res.degrees_of_freedom)), "stats.rmse")
    # covariance
    J = np.asarray(res.jacobian, dtype=float)
    cov = np.asarray(res.covariance_matrix, dtype=float)
    nfree = len(case["free"])
    check(J.shape == (n_res, nfree) and cov.shape == (nfree, nfree), "stats.jacobian_covariance_shape", lambda: f"{J.shape} {cov.shape}")
    tags = []
    if nfree:
        cs = max(np.abs(cov).max(), 1e-300)
        check(np.abs(cov - cov.T).max() <= 1e-10 * cs, "stats.covariance_symmetric")
        ev = np.linalg.eigvalsh((cov + cov.T) / 2)
        check(ev.min() >= -1e-9 * max(ev.max(), 1e-300), "stats.covariance_psd", lambda: f"eig {ev}")
        sv = np.linalg.svd(J, compute_uv=False)
        A = J.T @ J
        eps = np.finfo(float).eps
        if sv.size and sv.min() ** 2 > 1e3 * eps and sv.max() / sv.min() < 1e6:
            e = np.abs(cov @ A - np.eye(nfree)).max()
            tol = 1e3 * eps * (sv.max() / sv.min()) ** 2 + 1e-10
            check(e <= tol, "stats.covariance_inverse", lambda: f"|cov J^T J - I| = {e:.2e} > {tol:.2e}")
            tags.append("full_rank_jacobian")
        elif sv.size and (sv ** 2 < eps * 1e-3).any() and (sv ** 2 > 1e3 * eps).any() and all((s ** 2 > 1e3 * eps) or (s ** 2 < 1e-3 * eps) for s in sv) and sv.max() / sv[sv ** 2 > 1e3 * eps].min() < 1e6:
            # clearly rank deficient: Penrose conditions
            an = max(np.abs(A).max(), 1e-300)
            e1 = np.abs(A @ cov @ A - A).max() / an
            e2 = np.abs(cov @ A @ cov - cov).max() / cs
            cnz = sv.max() / sv[sv ** 2 > 1e3 * eps].min()
            ptol = 1e3 * eps * cnz ** 2 + 1e-9  # the pseudo-inverse of J^T J carries rounding of order eps * cond(J)^2
            check(e1 <= ptol and e2 <= ptol, "stats.covariance_pseudo_inverse", lambda: f"Penrose residuals {e1:.2e} {e2:.2e} > {ptol:.2e}")
            tags.append("rank_deficient_jacobian")
        else:
            tags.append("jacobian_conditioning_unclear_skipped")
        rmse = res.root_mean_square_error
        for i, lab in enumerate(res.free_parameter_labels):
            p = res.optimized_parameters.get(lab)
            err = rmse * np.sqrt(max(cov[i, i], 0.0))
            se = p.standard_error
            if p.non_negative:
                # mapped back from log space: value * (exp(err) - 1).  The implementation caps the error at |value| when
                # the log-space error is as large as |log(value)|; the cap is only admissible there (factor 2 margin).
                with np.errstate(over="ignore"):
                    mapped = close(se, p.value * (np.exp(err) - 1.0), 1e-9)
                capped = close(se, abs(p.value), 1e-9) and err >= 0.5 * abs(np.log(p.value))
                ok = mapped or capped
                tags.append("non_negative_standard_error" + ("_capped" if (capped and not mapped) else ""))
            else:
                ok = close(se, err, 1e-9)
            check(ok, "stats.standard_error", lambda: f"{lab}: {se} vs rmse*sqrt(cov_ii)={err}")
    # a Result is a value: another optimisation run afterwards in the same process must not change it
    if reuse is not None:
        tags.append("reused_optimizer_after_contained_failure")
    elif case.get("penalties") or case.get("relations"):
        import copy

        before = (copy.deepcopy(res.additional_penalty), res.chi_square, res.cost,
                  {l: res.data[l].residual.values.copy() for l in res.data}, {l: res.data[l].clp.values.copy() for l in res.data})
        other = copy.deepcopy(case)
        for d in other["datasets"]:
            d["data_seed"] += 7
        with warnings.catch_warnings():
            warnings.simplefilter("ignore")
            try:
                schemes.run_fit(other)
            except Discard:
                pass
            except Exception:  # noqa: BLE001  (the second run is only there to disturb shared state)
                pass
        same_pen = len(before[0]) == len(res.additional_penalty) and all(
            np.array_equal(np.asarray(a, dtype=float), np.asarray(b, dtype=float)) for a, b in zip(before[0], res.additional_penalty))
        check(same_pen, "stats.earlier_result_changed_by_later_optimisation", lambda: f"additional_penalty {before[0]} -> {res.additional_penalty}")
        check(res.chi_square == before[1] and res.cost == before[2], "stats.earlier_result_changed_by_later_optimisation", lambda: "chi_square / cost changed")
        for l in res.data:
            check(np.array_equal(res.data[l].residual.values, before[3][l]) and np.array_equal(res.data[l].clp.values, before[4][l], equal_nan=True),
                  "stats.earlier_result_changed_by_later_optimisation", lambda: f"dataset {l} changed")
        tags.append("persistence_checked")
    f = features(case)
    multi = len(case["datasets"]) >= 2
    linked = any(x.startswith("linked") for x in f)
    score = sum([("penalty" in f), ("constraint" in f or "constraint_interval" in f or "relation" in f), ("dataset_weight" in f or "model_weight" in f), multi, linked, ("full_model" in f)])
    return {"nontrivial": score >= 2, "tags": f + tags + [case["method"]]}


PROPERTY = Property(
    id="C13",
    level="exploration",
    rule=(
        "optimize() (2-6 evaluations, all three methods) over the C02 scheme space with noisy data, optionally with a free parameter the "
        "model does not use and non-negative rates; every reported statistic is recomputed from the reported datasets / penalties / "
        "Jacobian and from the reference (number of residuals, reduced clp count) and the objective is re-evaluated at the optimised "
        "parameters by an independent optimizer. Non-trivial = result with >= 2 of {penalty, constraint/relation, weights, >= 2 datasets, "
        "linked group, full model}."
    ),
    subs=[
        Sub("stats", prop=prop, strategy=lambda: schemes.fit_cases(labels="neutral"), budget={"quick": 700, "thorough": 50000}),
        Sub("reused_optimizer", prop=prop_reuse, strategy=reuse_cases, budget={"quick": 200, "thorough": 10000},
            doc="one Optimizer object: good run, contained failing run, create_result(): the Result must still be consistent with itself"),
    ],
    assumptions=[
        "reference objective trusted for counts; identities between reported numbers to 1e-9 relative",
        "covariance compared with inv(J^T J) only when the Jacobian is clearly full rank (cond < 1e6), Penrose conditions when clearly rank deficient",
    ],
)
