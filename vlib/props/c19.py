"""C19 - plugin registry: first registration wins, every plugin stays reachable.

Oracle: an abstract registry model written from the property statement (``RegistryModel``):

* a short name is bound on the first registration under it and re-bound only by ``set_plugin``;
* every registration stores the plugin under its full name (``module.Class`` for class plugins,
  ``module.Class_<format>`` for instantiated io plugins) - always;
* registering a plugin of a *different class* under a taken short name warns with
  ``PluginOverwriteWarning`` and does not replace; repeating the identical registration does not
  warn (same class reached through another format is left open: no assertion either way);
* ``'.'`` in a short name => ``ValueError``; ``set_plugin`` needs a registered *full* name;
* unknown lookups => ``ValueError`` whose text names the known short names;
* ``load_*`` / ``save_*`` call the plugin the registry resolves for the given / inferred format.

Only these statement-level facts are asserted.  The exact key set of the registry dict (e.g. the
bare ``module.Class`` keys the io registries get on a conflict) is observed, never asserted.

Variants: a fresh dict driven through ``base_registry`` functions (class plugins, instantiated
plugins) and the three real registries inside ``glotaran.testing.plugin_system`` context managers
(copy of the real registry, so a built-in short name takes part; or a new empty registry).
The real registries are compared with a pristine snapshot after every case (a leak is a harness
error, not a verdict).
"""

from __future__ import annotations

import shutil
import tempfile
import warnings
from pathlib import Path
from types import SimpleNamespace

import xarray as xr
from hypothesis import strategies as st
from hypothesis.stateful import RuleBasedStateMachine
from hypothesis.stateful import initialize
from hypothesis.stateful import precondition
from hypothesis.stateful import rule

import glotaran.plugin_system.base_registry as br
from glotaran.io.interface import DataIoInterface
from glotaran.io.interface import ProjectIoInterface
from glotaran.model import Megacomplex
from glotaran.plugin_system import data_io_registration as dreg
from glotaran.plugin_system import megacomplex_registration as mreg
from glotaran.plugin_system import project_io_registration as preg
from glotaran.plugin_system.base_registry import PluginOverwriteWarning
from glotaran.testing.plugin_system import monkeypatch_plugin_registry_data_io
from glotaran.testing.plugin_system import monkeypatch_plugin_registry_megacomplex
from glotaran.testing.plugin_system import monkeypatch_plugin_registry_project_io
from vlib.core import Property
from vlib.core import Sub
from vlib.core import Violation
from vlib.core import check
from vlib.core import digest
from vlib.core import expect_ok

PR = getattr(br, "__PluginRegistry")

# ------------------------------------------------------------------------------------------
# harness plugin classes (4 per kind; distinct full names, all containing '.')

CALLS: list = []  # (plugin instance, method name, file argument, payload)


class _RecData(DataIoInterface):
    def load_dataset(self, file_name, **kwargs):
        out = xr.Dataset({"data": ("x", [1.0])})
        CALLS.append((self, "load_dataset", file_name, out))
        return out

    def save_dataset(self, dataset, file_name, **kwargs):
        CALLS.append((self, "save_dataset", file_name, dataset))


class _RecProject(ProjectIoInterface):
    def _load(self, what, file_name):
        out = SimpleNamespace(loaded=what)
        CALLS.append((self, what, file_name, out))
        return out

    def load_model(self, file_name, **kwargs):
        return self._load("load_model", file_name)

    def load_parameters(self, file_name, **kwargs):
        return self._load("load_parameters", file_name)

    def load_scheme(self, file_name, **kwargs):
        return self._load("load_scheme", file_name)

    def load_result(self, result_path, **kwargs):
        return self._load("load_result", result_path)

    def save_model(self, model, file_name, **kwargs):
        CALLS.append((self, "save_model", file_name, model))

    def save_parameters(self, parameters, file_name, **kwargs):
        CALLS.append((self, "save_parameters", file_name, parameters))

    def save_scheme(self, scheme, file_name, **kwargs):
        CALLS.append((self, "save_scheme", file_name, scheme))

    def save_result(self, result, result_path, **kwargs):
        CALLS.append((self, "save_result", result_path, result))
        return [result_path]


class DataP0(_RecData):
    pass


class DataP1(_RecData):
    pass


class DataP2(_RecData):
    pass


class DataP3(_RecData):
    pass


class ProjP0(_RecProject):
    pass


class ProjP1(_RecProject):
    pass


class ProjP2(_RecProject):
    pass


class ProjP3(_RecProject):
    pass


class McP0(Megacomplex):
    pass


class McP1(Megacomplex):
    pass


class McP2(Megacomplex):
    pass


class McP3(Megacomplex):
    pass


class PlainP0:
    pass


class PlainP1:
    pass


class PlainP2:
    pass


class PlainP3:
    pass


def _fq(cls) -> str:
    """Full name of a class, computed by the harness (not by the code under test)."""
    return f"{cls.__module__}.{cls.__name__}"


# variant -> (flavor, classes, built-in short name used when the real registry is copied)
VARIANTS = {
    "dict_class": ("class", [PlainP0, PlainP1, PlainP2, PlainP3], None),
    "dict_inst": ("inst", [DataP0, DataP1, DataP2, DataP3], None),
    "megacomplex": ("class", [McP0, McP1, McP2, McP3], "decay"),
    "data_io": ("inst", [DataP0, DataP1, DataP2, DataP3], "nc"),
    "project_io": ("inst", [ProjP0, ProjP1, ProjP2, ProjP3], "csv"),
}
SHORTS = ["va", "vb", "v.c"]
NEVER = "vz"  # never registered
UNKNOWN_FULL = "verif.unknown.Nope_va"
DATA_FUNCS = ["load_dataset", "save_dataset"]
PROJECT_FUNCS = list(preg.PROJECT_IO_METHODS)

_PRISTINE: dict = {}


def _pristine():
    if not _PRISTINE:
        for name in ("megacomplex", "data_io", "project_io"):
            reg = getattr(PR, name)
            _PRISTINE[name] = (reg, dict(reg))
    return _PRISTINE


def assert_no_leak():
    for name, (obj, content) in _pristine().items():
        cur = getattr(PR, name)
        if cur is not obj or set(cur) != set(content) or any(cur[k] is not content[k] for k in content):
            raise RuntimeError(f"harness error: real registry {name!r} was not restored")


# ------------------------------------------------------------------------------------------
# the abstract model (from the statement)


class RegistryModel:
    """ident = ("h", class index, format or None)  |  ("pre", registry key)."""

    def __init__(self, flavor: str, class_names: list[str], pre: dict | None = None):
        self.flavor = flavor
        self.class_names = class_names
        self.short: dict = {}
        self.full: dict = {}
        self.open_full: set = set()  # full names a *failed* registration may or may not have left behind (atomicity is not stated)
        self.pre_class: dict = {}
        for key, cls_name in (pre or {}).items():
            ident = ("pre", key)
            self.pre_class[key] = cls_name
            if "." in key:
                self.full[key] = ident
            else:
                self.short[key] = ident

    def snapshot(self):
        return dict(self.short), dict(self.full), set(self.open_full)

    def restore(self, snap):
        self.short, self.full, self.open_full = dict(snap[0]), dict(snap[1]), set(snap[2])

    def ident(self, cls: int, name: str):
        return ("h", cls, name if self.flavor == "inst" else None)

    def full_name(self, cls: int, name: str | None) -> str:
        base = self.class_names[cls]
        return f"{base}_{name}" if self.flavor == "inst" else base

    def class_of(self, ident) -> str:
        return self.class_names[ident[1]] if ident[0] == "h" else self.pre_class[ident[1]]

    def register(self, cls: int, names: list[str]) -> dict:
        """Apply a registration; return what the statement lets us expect of the call."""
        exp = {"error": False, "warn_min": 0, "warn_max": 0}
        if any("." in n for n in names):
            # the call fails; the statement does not say whether the valid names before the invalid one take effect:
            # nothing that was bound before may change, what the call itself would have added is left open
            exp["error"] = True
            for name in names:
                if "." in name:
                    break
                fn = self.full_name(cls, name)
                if fn not in self.full:
                    self.open_full.add(fn)
            return exp
        for name in names:
            if "." in name:
                exp["error"] = True
                return exp
            ident = self.ident(cls, name)
            if name in self.short:
                bound = self.short[name]
                if self.class_of(bound) != self.class_names[cls]:
                    exp["warn_min"] += 1
                    exp["warn_max"] += 1
                elif bound != ident:
                    exp["warn_max"] += 1  # same class through another format: left open
            else:
                self.short[name] = ident
            self.full[self.full_name(cls, name)] = ident
            self.open_full.discard(self.full_name(cls, name))
        return exp

    def set_plugin(self, short: str, target: str) -> str | None:
        if "." in short:
            return "dot"
        if target not in self.full:
            return "unknown_target"
        self.short[short] = self.full[target]
        return None

    def resolve(self, name: str):
        if name in self.short:
            return self.short[name]
        return self.full.get(name)


def selfcheck():
    names = ["h.A", "h.B", "h.C", "h.D"]
    m = RegistryModel("inst", names)
    assert m.register(0, ["va"]) == {"error": False, "warn_min": 0, "warn_max": 0}
    assert m.register(0, ["va"]) == {"error": False, "warn_min": 0, "warn_max": 0}
    assert m.register(1, ["va"]) == {"error": False, "warn_min": 1, "warn_max": 1}
    assert m.short == {"va": ("h", 0, "va")}
    assert m.full == {"h.A_va": ("h", 0, "va"), "h.B_va": ("h", 1, "va")}
    assert m.set_plugin("va", "va") == "unknown_target" and m.set_plugin("v.c", "h.B_va") == "dot"
    assert m.set_plugin("va", "h.B_va") is None and m.short["va"] == ("h", 1, "va")
    assert m.register(0, ["va"]) == {"error": False, "warn_min": 1, "warn_max": 1}
    assert m.short["va"] == ("h", 1, "va")
    assert m.register(2, ["va", "vb"]) == {"error": False, "warn_min": 1, "warn_max": 1}
    assert m.short == {"va": ("h", 1, "va"), "vb": ("h", 2, "vb")}
    assert m.register(3, ["v.c"])["error"] is True
    assert m.set_plugin("vz", "h.C_vb") is None and m.resolve("vz") == ("h", 2, "vb")
    assert m.register(2, ["vz"]) == {"error": False, "warn_min": 0, "warn_max": 1}
    assert m.resolve("nope") is None
    c = RegistryModel("class", names, {"decay": "g.Decay", "g.Decay": "g.Decay"})
    assert c.register(0, ["decay"]) == {"error": False, "warn_min": 1, "warn_max": 1}
    assert c.short["decay"] == ("pre", "decay") and c.full["h.A"] == ("h", 0, None)
    assert c.set_plugin("decay", "h.A") is None and c.short["decay"] == ("h", 0, None)
    assert c.set_plugin("decay", "g.Decay") is None and c.short["decay"] == ("pre", "g.Decay")


# ------------------------------------------------------------------------------------------
# adapters: one interface over a fresh dict / the real registries


class Adapter:
    def __init__(self, variant: str, fresh: bool = False, builtin_name: str | None = None):
        self.variant = variant
        self.flavor, self.classes, builtin = VARIANTS[variant]
        builtin = builtin_name or builtin
        self.real = variant in ("megacomplex", "data_io", "project_io")
        self.fresh = fresh or not self.real
        self.builtin = None if self.fresh else builtin
        self.cm = None
        self.reg = None

    def open(self):
        _pristine()
        if not self.real:
            self.reg = {}
            return self
        cmf = {
            "megacomplex": monkeypatch_plugin_registry_megacomplex,
            "data_io": monkeypatch_plugin_registry_data_io,
            "project_io": monkeypatch_plugin_registry_project_io,
        }[self.variant]
        self.cm = cmf({}, create_new_registry=self.fresh)
        self.cm.__enter__()
        self.reg = getattr(PR, self.variant)
        if self.reg is _pristine()[self.variant][0]:
            self.close()
            raise RuntimeError("harness error: monkeypatch context did not replace the registry")
        return self

    def close(self):
        cm, self.cm = self.cm, None
        if cm is not None:
            cm.__exit__(None, None, None)
        assert_no_leak()

    # -- state branching (BFS): the registry object stays, its content is saved / restored
    def snapshot(self):
        return dict(self.reg)

    def restore(self, snap):
        self.reg.clear()
        self.reg.update(snap)

    def raw_ids(self):
        return {k: id(v) for k, v in self.reg.items()}

    def pre(self) -> dict:
        out = {}
        for k, v in self.reg.items():
            t = v if isinstance(v, type) else type(v)
            out[k] = _fq(t)
        return out

    # -- operations
    def register(self, cls: int, names: list[str]):
        c = self.classes[cls]
        v = self.variant
        if v == "dict_class":
            for n in names:
                br.add_plugin_to_registry(n, c, self.reg, "set_verif_plugin")
        elif v == "dict_inst":
            br.add_instantiated_plugin_to_registry(names if len(names) > 1 else names[0], c, self.reg, "set_verif_plugin")
        elif v == "megacomplex":
            for n in names:
                mreg.register_megacomplex(n, c)
        elif v == "data_io":
            dreg.register_data_io(names if len(names) > 1 else names[0])(c)
        else:
            preg.register_project_io(names if len(names) > 1 else names[0])(c)

    def set_plugin(self, short: str, target: str):
        v = self.variant
        if v in ("dict_class", "dict_inst"):
            br.set_plugin(short, target, self.reg)
        elif v == "megacomplex":
            mreg.set_megacomplex_plugin(short, target)
        elif v == "data_io":
            dreg.set_data_plugin(short, target)
        else:
            preg.set_project_plugin(short, target)

    def get(self, name: str):
        v = self.variant
        if v in ("dict_class", "dict_inst"):
            return br.get_plugin_from_registry(name, self.reg, f"Unknown {name!r}. Known: {br.registered_plugins(self.reg)}")
        if v == "megacomplex":
            return mreg.get_megacomplex(name)
        if v == "data_io":
            return dreg.get_data_io(name)
        return preg.get_project_io(name)

    def is_known(self, name: str) -> bool:
        v = self.variant
        if v in ("dict_class", "dict_inst"):
            return br.is_registered_plugin(name, self.reg)
        if v == "megacomplex":
            return mreg.is_known_megacomplex(name)
        if v == "data_io":
            return dreg.is_known_data_format(name)
        return preg.is_known_project_format(name)

    def known(self, full: bool) -> list[str]:
        v = self.variant
        if v in ("dict_class", "dict_inst"):
            return br.registered_plugins(self.reg, full_names=full)
        if v == "megacomplex":
            return mreg.known_megacomplex_names(full_names=full)
        if v == "data_io":
            return dreg.known_data_formats(full_names=full)
        return preg.known_project_formats(full_names=full)

    def same(self, obj, ident, pre_objs) -> bool:
        if ident[0] == "pre":
            return obj is pre_objs[ident[1]]
        c = self.classes[ident[1]]
        if self.flavor == "class":
            return obj is c
        return type(obj) is c and getattr(obj, "format", None) == ident[2]


# ------------------------------------------------------------------------------------------
# history runner: applies checked operations and the complete observation after each


class History:
    def __init__(self, variant: str, fresh: bool = False, builtin_name: str | None = None):
        self.ad = Adapter(variant, fresh, builtin_name).open()
        try:
            self.pre_objs = dict(self.ad.reg)
            self.model = RegistryModel(self.ad.flavor, [_fq(c) for c in self.ad.classes], self.ad.pre())
            self.ops: list = []
            self.stage = 0  # 1 conflict seen, 2 then set_plugin, 3 then another conflicting registration
            self.tags: set = set()
            self.tmp = None
            shorts = SHORTS + [NEVER] + ([self.ad.builtin] if self.ad.builtin else [])
            fulls = []
            for ci in range(4):
                fulls += [self.model.full_name(ci, n) for n in (["va", "vb"] if self.ad.flavor == "inst" else [None])]
            if self.ad.builtin:
                if self.ad.flavor == "inst":
                    fulls.append(self.model.full_name(0, self.ad.builtin))
                fulls += [k for k in self.pre_objs if "." in k and self.pre_objs[k] is self.pre_objs[self.ad.builtin]]
            fulls.append(UNKNOWN_FULL)
            self.query_names = shorts + fulls
        except BaseException:
            self.ad.close()
            raise

    def close(self):
        try:
            if self.tmp is not None:
                shutil.rmtree(self.tmp, ignore_errors=True)
                self.tmp = None
        finally:
            self.ad.close()

    def where(self):
        return f"variant={self.ad.variant} fresh={self.ad.fresh} history={self.ops}"

    # -- mutating operations
    def apply(self, op: dict, observe: bool = True):
        self.ops.append(op)
        kind = op["op"]
        if kind == "reg" and op.get("escalate"):
            self._register_escalated(op["cls"], list(op["names"]))
        elif kind == "reg":
            self._register(op["cls"], list(op["names"]))
        elif kind == "set":
            self._set(op["short"], op["target"])
        elif kind == "dispatch":
            self._dispatch(op["fn"], op["name"], op["mode"])
        elif kind == "get":
            self._lookup(op["name"])
        elif kind == "known":
            self._known()
        else:
            raise ValueError(kind)
        if observe:
            self.observe()

    def _register(self, cls, names):
        if names == ["<dots>"]:
            for bad in (".vc", "vc.", "v.c", "..", "v..c"):
                try:
                    self.ad.register(cls, [bad])
                except ValueError:
                    continue
                except Exception as e:  # noqa: BLE001
                    raise Violation("reg.call", f"{type(e).__name__}: {e} | {self.where()}") from e
                raise Violation("reg.dot_rejected", f"short name {bad!r} accepted | {self.where()}")
            self.tags.add("dot-rejected")
            return
        if len(names) > 1 and any("." in n for n in names):
            # failing multi-name registration: only when every valid name before the invalid one is already bound
            # (otherwise the outcome for that short name would be open as well)
            pre = names[: next(i for i, n in enumerate(names) if "." in n)]
            if any(n not in self.model.short for n in pre):
                self.tags.add("failing-multi-skipped")
                return
            self.tags.add("failing-multi-registration")
        exp = self.model.register(cls, names)
        raised = None
        with warnings.catch_warnings(record=True) as rec:
            warnings.simplefilter("always")
            try:
                self.ad.register(cls, names)
            except ValueError as e:
                raised = e
            except Exception as e:  # noqa: BLE001
                raise Violation("reg.call", f"{type(e).__name__}: {e} | {self.where()}") from e
        n_warn = sum(1 for w in rec if issubclass(w.category, PluginOverwriteWarning))
        if exp["error"]:
            check(raised is not None, "reg.dot_rejected", lambda: f"short name with '.' accepted | {self.where()}")
            self.tags.add("dot-rejected")
            return
        check(raised is None, "reg.call", lambda: f"ValueError: {raised} | {self.where()}")
        check(n_warn >= exp["warn_min"], "reg.conflict_warns",
              lambda: f"{n_warn} PluginOverwriteWarning, expected >= {exp['warn_min']} | {self.where()}")
        check(n_warn <= exp["warn_max"], "reg.repeat_silent",
              lambda: f"{n_warn} PluginOverwriteWarning, expected <= {exp['warn_max']} | {self.where()}")
        if exp["warn_min"]:
            self.tags.add("conflict")
            if self.stage == 0:
                self.stage = 1
            elif self.stage == 2:
                self.stage = 3
        elif len(names) == 1 and exp["warn_max"] == 0 and self.model.short.get(names[0]) == self.model.ident(cls, names[0]):
            self.tags.add("first-or-repeat")
        if len(names) > 1:
            self.tags.add("multi-format")

    def _register_escalated(self, cls, names):
        """A single-name registration while PluginOverwriteWarning is turned into an error (``-W error``): a conflicting
        registration is then refused by that exception - what was bound before stays; whether the refused plugin is
        reachable under its own full name is left open."""
        m = self.model
        if len(names) != 1 or "." in names[0]:
            return
        snap = m.snapshot()
        exp = m.register(cls, names)
        raised = None
        with warnings.catch_warnings():
            warnings.simplefilter("error", PluginOverwriteWarning)
            try:
                self.ad.register(cls, names)
            except PluginOverwriteWarning as w:
                raised = w
            except Exception as e:  # noqa: BLE001
                raise Violation("reg.call", f"{type(e).__name__}: {e} | {self.where()}") from e
        if raised is not None:
            check(exp["warn_max"] >= 1, "reg.repeat_silent", lambda: f"PluginOverwriteWarning where none is due | {self.where()}")
            m.restore(snap)
            fn = m.full_name(cls, names[0])
            if fn not in m.full:
                m.open_full.add(fn)
            self.tags.add("conflict-refused-by-escalated-warning")
        else:
            check(exp["warn_min"] == 0, "reg.conflict_warns", lambda: f"no PluginOverwriteWarning for a conflicting registration | {self.where()}")

    def _set(self, short, target):
        if target in self.model.open_full and target not in self.model.full:
            self.tags.add("set-to-open-name-skipped")
            return
        if short == "<dots>":
            # every placement of the dot in a short name is rejected
            for bad in (".vc", "vc.", "v.c", "..", "v..c"):
                try:
                    self.ad.set_plugin(bad, target)
                except ValueError:
                    continue
                except Exception as e:  # noqa: BLE001
                    raise Violation("set.call", f"{type(e).__name__}: {e} | {self.where()}") from e
                raise Violation("set.dot_rejected", f"set_plugin accepted the short name {bad!r} | {self.where()}")
            self.tags.add("set-dot-rejected")
            return
        known_full = sorted(self.model.full)
        err = self.model.set_plugin(short, target)
        raised = None
        try:
            self.ad.set_plugin(short, target)
        except ValueError as e:
            raised = e
        except Exception as e:  # noqa: BLE001
            raise Violation("set.call", f"{type(e).__name__}: {e} | {self.where()}") from e
        if err == "dot":
            check(raised is not None, "set.dot_rejected", lambda: f"set_plugin accepted a short name with '.' | {self.where()}")
            self.tags.add("set-dot-rejected")
        elif err == "unknown_target":
            check(raised is not None, "set.unknown_target_rejected",
                  lambda: f"set_plugin accepted {target!r}, which is not a registered full name | {self.where()}")
            missing = [k for k in known_full if k not in str(raised)]
            check(not missing, "set.error_lists_known", lambda: f"error text misses {missing}: {raised} | {self.where()}")
            self.tags.add("set-short-target-rejected" if "." not in target else "set-unknown-rejected")
        else:
            check(raised is None, "set.call", lambda: f"ValueError: {raised} | {self.where()}")
            self.tags.add("set-ok")
            if self.stage == 1:
                self.stage = 2

    # -- explicit lookups (rules of the machine; the observation does the same for every name)
    def _lookup(self, name):
        self._check_name(name)

    def _known(self):
        self._check_known()

    def _check_name(self, name):
        m = self.model
        if name in m.open_full and name not in m.full and name not in m.short:
            return None  # left open by a failed registration
        ident = m.short.get(name)
        is_short = ident is not None
        if ident is None:
            ident = m.full.get(name)
        try:
            known = self.ad.is_known(name)
        except Exception as e:  # noqa: BLE001
            raise Violation("known.call", f"{type(e).__name__}: {e} | {self.where()}") from e
        if known != (ident is not None):
            raise Violation("known.is_known", f"is_known({name!r}) = {known}, model: {ident} | {self.where()}")
        clause = "get.short_resolves" if is_short else "get.full_reachable"
        try:
            got = self.ad.get(name)
        except ValueError as e:
            if ident is not None:
                raise Violation(clause, f"get({name!r}) raised {e}; model resolves it to {ident} | {self.where()}") from e
            text = str(e)
            missing = [s for s in m.short if repr(s) not in text]
            if missing:
                raise Violation("get.error_lists_known", f"error text misses {missing}: {e} | {self.where()}") from e
            return None
        except Exception as e:  # noqa: BLE001
            raise Violation("get.call", f"{type(e).__name__}: {e} | {self.where()}") from e
        if ident is None:
            raise Violation("get.unknown_raises", f"get({name!r}) returned {got!r} for an unknown name | {self.where()}")
        if not self.ad.same(got, ident, self.pre_objs):
            raise Violation(clause, f"get({name!r}) -> {got!r} (format {getattr(got, 'format', None)!r}), model: {ident} | {self.where()}")
        return got

    def _check_known(self):
        m = self.model
        with expect_ok("known.call"):
            shorts = self.ad.known(False)
            fulls = self.ad.known(True)
        check(list(shorts) == sorted(m.short), "known.names",
              lambda: f"known names {shorts}, model {sorted(m.short)} | {self.where()}")
        missing = [k for k in list(m.short) + list(m.full) if k not in fulls]
        check(not missing, "known.full_names", lambda: f"known(full) misses {missing} | {self.where()}")

    def observe(self):
        before = self.ad.raw_ids()
        for name in self.query_names:
            self._check_name(name)
        self._check_known()
        check(self.ad.raw_ids() == before, "lookup.pure", lambda: f"lookups changed the registry | {self.where()}")

    # -- dispatch of the convenience functions
    def _dispatch(self, fn, name, mode):
        if self.ad.variant not in ("data_io", "project_io"):
            return
        mod = dreg if self.ad.variant == "data_io" else preg
        if name in self.model.open_full and name not in self.model.full and name not in self.model.short:
            return  # left open by a failed registration
        # (inference from the extension reads '.yml' as the format 'yaml': io_plugin_utils.infer_file_format)
        lookup = "yaml" if (mode == "inferred" and name == "yml") else name
        ident = self.model.resolve(lookup)
        if ident is not None and ident[0] == "pre":
            self.tags.add("dispatch-skipped-builtin")
            return  # would run a real built-in plugin on a dummy file
        if self.tmp is None:
            self.tmp = tempfile.mkdtemp(prefix="verif_c19_")
        if mode == "inferred":
            path = Path(self.tmp) / f"f.{name}"
            fmt = None
        elif mode == "explicit_noext":
            path = Path(self.tmp) / "f_without_extension"  # the given format must be used; nothing can be inferred
            fmt = name
        else:
            path = Path(self.tmp) / "f.dat"
            fmt = name
        path.write_bytes(b"")
        payload = xr.Dataset({"data": ("x", [2.0])}) if fn == "save_dataset" else SimpleNamespace(payload=fn)
        del CALLS[:]
        func = getattr(mod, fn)
        try:
            if fn.startswith("load"):
                out = func(path, format_name=fmt)
            else:
                out = func(payload, path, format_name=fmt, allow_overwrite=True)
        except ValueError as e:
            check(ident is None, "dispatch.call", lambda: f"{fn}({name!r}, {mode}) raised {e}; model resolves to {ident} | {self.where()}")
            missing = [s for s in self.model.short if repr(s) not in str(e)]
            check(not missing, "dispatch.error_lists_known", lambda: f"error text misses {missing}: {e} | {self.where()}")
            self.tags.add("dispatch-unknown")
            return
        except Exception as e:  # noqa: BLE001
            raise Violation("dispatch.call", f"{type(e).__name__}: {e} | {self.where()}") from e
        check(ident is not None, "dispatch.unknown_raises", lambda: f"{fn} with unknown format {name!r} did not raise | {self.where()}")
        check(len(CALLS) == 1, "dispatch.one_call", lambda: f"{len(CALLS)} plugin calls | {self.where()}")
        plugin, method, file_arg, obj = CALLS[0]
        check(self.ad.same(plugin, ident, self.pre_objs) and plugin is self.ad.get(lookup), "dispatch.plugin",
              lambda: f"{fn}({name!r}, {mode}) went to {type(plugin).__name__}/{plugin.format}, model {ident} | {self.where()}")
        check(method == fn, "dispatch.method", lambda: f"{method} called for {fn} | {self.where()}")
        check(file_arg == path.as_posix(), "dispatch.file", lambda: f"plugin got {file_arg!r} for {path} | {self.where()}")
        if fn.startswith("load"):
            check(out is obj, "dispatch.returns", lambda: f"{fn} did not return the plugin's object | {self.where()}")
        else:
            check(obj is payload, "dispatch.payload", lambda: f"{fn} passed another object to the plugin | {self.where()}")
        self.tags.add(f"dispatch-{mode}")


# ------------------------------------------------------------------------------------------
# exhaustive sub-check: all histories of mutating operations up to a depth, complete observation
# (get / is_known / known_names(full) of every name of the alphabet) after every prefix


def alphabet(variant: str, with_builtin: bool) -> list[dict]:
    flavor, classes, builtin = VARIANTS[variant]
    names = [_fq(c) for c in classes]
    m = RegistryModel(flavor, names)
    ops = []
    for ci in (0, 1):
        for s in (["va"], ["vb"]):
            ops.append({"op": "reg", "cls": ci, "names": s})
    ops.append({"op": "reg", "cls": 0, "names": ["<dots>"]})
    ops.append({"op": "reg", "cls": 1, "names": ["va"], "escalate": True})  # refused by the escalated warning when 'va' belongs to another plugin
    ops.append({"op": "reg", "cls": 1, "names": ["va", "v.c"]})  # fails after a valid name (only applied when 'va' is bound)
    ops.append({"op": "reg", "cls": 2, "names": ["va", "vb"]})
    ops.append({"op": "reg", "cls": 3, "names": ["vb", "va"]})
    if flavor == "inst":
        targets = [m.full_name(0, "va"), m.full_name(1, "va"), m.full_name(1, "vb"), m.full_name(2, "vb")]
    else:
        targets = [m.full_name(0, None), m.full_name(1, None), m.full_name(2, None)]
    targets += ["va", UNKNOWN_FULL]
    for s in ("va", "vb"):
        for t in targets:
            ops.append({"op": "set", "short": s, "target": t})
    ops.append({"op": "set", "short": "<dots>", "target": targets[0]})
    if with_builtin and builtin:
        ops.append({"op": "reg", "cls": 0, "names": [builtin]})
        ops.append({"op": "set", "short": builtin, "target": m.full_name(0, builtin)})
    return ops


PREFIX_LEN = 3
DEPTH = {"quick": 4, "thorough": 5}


def bfs_cases(tier: str) -> list:
    import itertools

    out = []
    for variant in VARIANTS:
        ops = alphabet(variant, True)
        for pre in itertools.product(range(len(ops)), repeat=PREFIX_LEN):
            # a prefix node of length i is observed in the case whose later prefix operations are all the first one
            first = next((i for i in range(PREFIX_LEN, 0, -1) if pre[i - 1] != 0), 0)
            out.append({"variant": variant, "prefix": [ops[i] for i in pre], "depth": DEPTH[tier], "observe_from": max(first, 0)})
    return out


def prop_bfs(case):
    """All extensions of ``prefix`` up to ``depth`` operations (every node fully observed)."""
    variant = case["variant"]
    ops = alphabet(variant, True)
    h = History(variant, fresh=False)
    nodes = 0
    stages = set()
    try:
        observe_from = case.get("observe_from", 0)
        if observe_from == 0:
            h.observe()
        for i, op in enumerate(case["prefix"], start=1):
            h.apply(op, observe=i >= observe_from or i == len(case["prefix"]))
            nodes += 1
        stages.add(h.stage)

        def rec(d):
            nonlocal nodes
            if d <= 0:
                return
            snap, msnap, stage = h.ad.snapshot(), h.model.snapshot(), h.stage
            for op in ops:
                h.apply(op)
                nodes += 1
                stages.add(h.stage)
                rec(d - 1)
                h.ops.pop()
                h.ad.restore(snap)
                h.model.restore(msnap)
                h.stage = stage

        rec(case["depth"] - len(case["prefix"]))
        tags = sorted(h.tags) + [variant, f"histories_per_case={nodes}"]
        if 3 in stages:
            tags.append("conflict>set_plugin>conflict")
        return {"nontrivial": 3 in stages, "tags": tags}
    finally:
        h.close()


# dispatch: all histories up to length 2, then every convenience function x every name x explicit / inferred


def dispatch_cases(tier: str) -> list:
    import itertools

    out = []
    for variant in ("data_io", "project_io"):
        ops = alphabet(variant, False)
        for n in (0, 1, 2) if tier == "quick" else (0, 1, 2, 3):
            for pre in itertools.product(range(len(ops)), repeat=n):
                out.append({"variant": variant, "prefix": [ops[i] for i in pre]})
    return out


def builtin_names(variant: str) -> list[str]:
    reg = _pristine()[variant][0]
    return sorted(k for k in reg if "." not in k and not k.endswith("_str"))


def dispatch_builtin_cases(tier: str) -> list:
    """Every built-in format name taken over by a harness plugin (conflicting registration, then set_*_plugin), then every
    convenience function with that name given explicitly / inferred from the extension."""
    out = []
    for variant in ("data_io", "project_io"):
        for b in builtin_names(variant):
            for extra in (None, {"op": "reg", "cls": 1, "names": [b]}, {"op": "set", "short": "va", "target": "<full:0>"}):
                out.append({"variant": variant, "builtin": b, "extra": extra})
    return out


def prop_dispatch(case):
    variant = case["variant"]
    b = case.get("builtin")
    h = History(variant, fresh=b is None, builtin_name=b)
    try:
        if b is not None:
            full = h.model.full_name(0, b)
            prefix = [{"op": "reg", "cls": 0, "names": [b]}, {"op": "set", "short": b, "target": full}]
            if case["extra"]:
                prefix.append({k: (full if v == "<full:0>" else v) for k, v in case["extra"].items()})
            case = dict(case, prefix=prefix)
        for op in case["prefix"]:
            h.apply(op)
        funcs = DATA_FUNCS if variant == "data_io" else PROJECT_FUNCS
        names = [n for n in h.query_names if n != "v.c"] if b is None else [b]
        n_calls = 0
        for fn in funcs:
            for name in names:
                h._dispatch(fn, name, "explicit")
                h._dispatch(fn, name, "explicit_noext")
                n_calls += 2
                if "." not in name:
                    h._dispatch(fn, name, "inferred")
                    n_calls += 1
        h.observe()
        repointed = any(op["op"] == "set" for op in case["prefix"]) and "set-ok" in h.tags
        return {"nontrivial": bool(repointed or "conflict" in h.tags), "tags": sorted(h.tags) + [variant, f"calls_per_case={n_calls}"]}
    finally:
        h.close()


# ------------------------------------------------------------------------------------------
# Hypothesis state machine (wider alphabet, long histories)

_M_SHORTS = ["va", "vb", "vd"]


def _names_strategy(builtin):
    pool = _M_SHORTS + ([builtin] if builtin else [])
    return st.one_of(
        st.lists(st.sampled_from(pool), min_size=1, max_size=3, unique=True),
        st.just(["v.c"]),
    )


class RegistryMachine(RuleBasedStateMachine):
    stats: dict = {"runs": 0, "nontrivial": set(), "tags": __import__("collections").Counter(), "samples": [], "last_fail": None, "steps": 0}

    def __init__(self):
        super().__init__()
        self.log: list = []
        self.h: History | None = None

    def _fail(self):
        type(self).stats["last_fail"] = {"steps": list(self.log)}

    @initialize(variant=st.sampled_from(sorted(VARIANTS)), fresh=st.booleans())
    def init(self, variant, fresh):
        self.log.append({"op": "init", "variant": variant, "fresh": fresh})
        self.h = History(variant, fresh)
        try:
            self.h.observe()
        except Violation:
            self._fail()
            raise

    def _step(self, op):
        self.log.append(op)
        try:
            self.h.apply(op)
        except Violation:
            self._fail()
            raise

    def _all_fulls(self):
        h = self.h
        out = []
        pool = _M_SHORTS + ([h.ad.builtin] if h.ad.builtin else [])
        for ci in range(4):
            out += [h.model.full_name(ci, n) for n in (pool if h.ad.flavor == "inst" else [None])]
        out += [k for k in h.pre_objs if "." in k][:3]
        return out

    @precondition(lambda self: self.h is not None)
    @rule(data=st.data(), cls=st.integers(0, 3))
    def register(self, data, cls):
        names = data.draw(_names_strategy(self.h.ad.builtin))
        if len(names) == 1 and "." not in names[0] and data.draw(st.integers(0, 3)) == 0:
            self._step({"op": "reg", "cls": cls, "names": names, "escalate": True})
        else:
            self._step({"op": "reg", "cls": cls, "names": names})

    @precondition(lambda self: self.h is not None)
    @rule(data=st.data())
    def set_plugin(self, data):
        h = self.h
        shorts = _M_SHORTS + ["v.c"] + ([h.ad.builtin] if h.ad.builtin else [])
        short = data.draw(st.sampled_from(shorts))
        registered = sorted(h.model.full)
        cands = [st.sampled_from(self._all_fulls()), st.sampled_from(_M_SHORTS + [UNKNOWN_FULL])]
        if registered:
            cands.insert(0, st.sampled_from(registered))
            cands.insert(0, st.sampled_from(registered))
        target = data.draw(st.one_of(*cands))
        self._step({"op": "set", "short": short, "target": target})

    @precondition(lambda self: self.h is not None)
    @rule(data=st.data())
    def get(self, data):
        name = data.draw(st.sampled_from(_M_SHORTS + [NEVER, "v.c"] + self._all_fulls()))
        self._step({"op": "get", "name": name})

    @precondition(lambda self: self.h is not None)
    @rule()
    def known_names(self):
        self._step({"op": "known"})

    @precondition(lambda self: self.h is not None and self.h.ad.variant in ("data_io", "project_io"))
    @rule(data=st.data())
    def dispatch(self, data):
        h = self.h
        funcs = DATA_FUNCS if h.ad.variant == "data_io" else PROJECT_FUNCS
        fn = data.draw(st.sampled_from(funcs))
        mode = data.draw(st.sampled_from(["explicit", "explicit_noext", "inferred"]))
        pool = _M_SHORTS + [NEVER] + ([h.ad.builtin] if h.ad.builtin else [])
        if mode != "inferred":
            pool = pool + self._all_fulls()
        name = data.draw(st.sampled_from(pool))
        self._step({"op": "dispatch", "fn": fn, "name": name, "mode": mode})

    def teardown(self):
        s = type(self).stats
        if self.h is not None:
            try:
                s["runs"] += 1
                s["steps"] += len(self.log)
                tags = set(self.h.tags) | {self.h.ad.variant + ("-fresh" if self.h.ad.fresh else "")}
                if self.h.stage == 3:
                    s["nontrivial"].add(digest(self.log))
                    tags.add("conflict>set_plugin>conflict")
                    if len(s["samples"]) < 2:
                        s["samples"].append({"steps": list(self.log)})
                for t in tags:
                    s["tags"][t] += 1
            finally:
                self.h.close()
                self.h = None


def replay_steps(case):
    steps = case["steps"]
    if not steps:
        return
    first = steps[0]
    h = History(first["variant"], first.get("fresh", False))
    try:
        h.observe()
        for op in steps[1:]:
            h.apply(op)
    finally:
        h.close()


PROPERTY = Property(
    id="C19",
    level="exploration",
    rule=(
        "Histories of register / set_plugin operations over 3 short names (one containing '.'), 4 harness plugin "
        "classes per registry kind (the same class repeatedly, different classes, classes registering two formats) "
        "[+ one built-in short name for the real registries], with get / is_known / known_names(full) of every "
        "name of the alphabet checked against the abstract model after every prefix. bfs: every sequence of the "
        "mutating operations up to the stated depth (exhaustive; a case = all extensions of a length-3 prefix). "
        "machine: Hypothesis rule-based machine with a wider alphabet. A history is non-trivial if it contains "
        "conflicting registration -> successful set_plugin -> another conflicting registration."
    ),
    subs=[
        Sub("bfs", prop=prop_bfs, enumerate=bfs_cases, exhaustive=True,
            doc="all sequences of mutating operations up to depth 4 (quick) / 5 (thorough) for a fresh dict (class and "
                "instantiated plugins) and the megacomplex / data_io / project_io registries inside monkeypatch_plugin_registry_*"),
        Sub("dispatch", prop=prop_dispatch, enumerate=dispatch_cases, exhaustive=True,
            doc="all histories up to length 2 (quick) / 3 (thorough); every load_*/save_* x every name x explicit / inferred format hits recording plugins"),
        Sub("dispatch_builtin", prop=prop_dispatch, enumerate=dispatch_builtin_cases, exhaustive=True,
            doc="every built-in format name re-pointed to a harness plugin, then dispatched by every convenience function"),
        Sub("machine", machine=lambda: RegistryMachine, replay_steps=replay_steps,
            budget={"quick": 600, "thorough": 50000}, steps={"quick": 40, "thorough": 40}),
    ],
    assumptions=[
        "plugin identity is compared at the level the statement speaks of: class (megacomplex) / class and format (io instances)",
        "registering the same class under a short name it already holds through another format: warning left open",
        "the exact key set of the registry dict (bare module.Class keys of io registries) is observed, not asserted",
        "real registries are patched only through glotaran.testing.plugin_system and compared with a pristine snapshot after every case",
    ],
    selfcheck=selfcheck,
)
