"""C20 - model validation is sound and complete for references.

Generator: ``vlib.gen.c20_models.models()`` - a grammar over JSON model specifications covering every
built-in item type and nesting pattern, valid and evaluable by construction, with matching parameters.

Oracle: an **independent table of reference positions** (``REFS`` below, written from the type
annotations / docstrings of the documented item classes - ``ModelItemType[X]`` is a reference to an
item of the model section that holds ``X``, ``ParameterType`` a reference to a parameter label - and
*not* by calling the library's attribute discovery) enumerates every place where a generated model
names a model item or a parameter.  Mutations: each reference renamed in turn to an undefined label
(a fresh label / a label that is only defined in *another* section / a near miss of the original),
the definition of each referenced item deleted in turn, each referenced parameter removed from the parameter set in turn, unique megacomplexes duplicated
(same label twice, and a sibling of the same type under another label), exclusive ones combined.

Clauses (``<sub>.<what>``):

* ``*.internal_error``     validate()/valid()/Scheme.validate() raised on the (mutated) model
* ``*.unreported[...]``    the mutated model is reported valid, or the report does not name the label
* ``hist.unreported_after[op]``   on one live model object: after in-place edit ``op`` a label dangles, the next validation call
  reports valid / does not name it (stale or incomplete answer); ``hist.reports_issue_after[op]``: every reference resolves
  again after ``op`` and an issue is still reported; ``hist.internal_error``
* ``valid.reports_issue``  the unmutated model (all references resolve) is reported invalid
* ``valid.fill_lookup`` / ``valid.evaluate_lookup``  lookup error while filling / evaluating a validated model
* ``valid.generated_parameters``  ``validate(model.generate_parameters())`` reports a missing parameter
"""

from __future__ import annotations

import copy
import warnings

from vlib.core import Discard
from vlib.core import Property
from vlib.core import Sub
from vlib.core import Violation
from vlib.core import check
from vlib.gen import c20_models as G

VALID_TEXT = "Your model is valid."

# ------------------------------------------------------------------------------------------
# The independent reference table.
#
# section -> item type (``None`` for untyped items) -> [(attribute, kind, structure, target section)]
#   kind       "item"  : the annotation is ModelItemType[X]; the label must be defined in model section `target`
#              "param" : the annotation is ParameterType; the label must exist in the parameter set
#   structure  "scalar" | "list" | "dict" | "kdict" (K-matrix: dict keyed by (to, from); JSON: [to, from, label] triples)
#
# Grounding of every entry (file: annotation):
_DATASET = [
    # model/dataset_model.py  DatasetModel.megacomplex: list[ModelItemType[Megacomplex]]
    ("megacomplex", "item", "list", "megacomplex"),
    # DatasetModel.global_megacomplex: list[ModelItemType[Megacomplex]] | None  (alias="megacomplex": items live in model.megacomplex)
    ("global_megacomplex", "item", "list", "megacomplex"),
    # DatasetModel.megacomplex_scale / global_megacomplex_scale: list[ParameterType] | None ; scale: ParameterType | None
    ("megacomplex_scale", "param", "list", None),
    ("global_megacomplex_scale", "param", "list", None),
    ("scale", "param", "scalar", None),
    # decay_megacomplex.py / decay_parallel_megacomplex.py / pfid_megacomplex.py  *DatasetModel.irf: ModelItemType[Irf] | None
    ("irf", "item", "scalar", "irf"),
    # decay_megacomplex.py DecayDatasetModel.initial_concentration: ModelItemType[InitialConcentration] | None
    ("initial_concentration", "item", "scalar", "initial_concentration"),
]
# DatasetModel.group: str = "default" names an entry of Model.dataset_groups; it is resolved by
# Model.get_dataset_groups() ("Raises ModelError: Raised if a dataset group is unknown"); the group
# "default" always exists (model.py:_load_dataset_groups).  Kept apart from the table above because the
# annotation is a plain ``str`` (own sub-check, own clause: finding D23).
_DATASET_GROUP = ("group", "item", "scalar", "dataset_groups")

_IRF_COMMON = [
    # decay/irf.py IrfMultiGaussian: scale: list[ParameterType] | None, shift: list[ParameterType] | None,
    # backsweep_period: ParameterType | None
    ("scale", "param", "list", None),
    ("shift", "param", "list", None),
    ("backsweep_period", "param", "scalar", None),
]
_IRF_SPECTRAL = [
    # IrfSpectralMultiGaussian: dispersion_center: ParameterType, center_dispersion_coefficients: list[ParameterType],
    # width_dispersion_coefficients: list[ParameterType]
    ("dispersion_center", "param", "scalar", None),
    ("center_dispersion_coefficients", "param", "list", None),
    ("width_dispersion_coefficients", "param", "list", None),
]
_OSC = [("frequencies", "param", "list", None), ("rates", "param", "list", None)]
_GAUSS_SHAPE = [
    # spectral/shape.py SpectralShapeGaussian: amplitude: ParameterType | None, location: ParameterType, width: ParameterType
    ("amplitude", "param", "scalar", None),
    ("location", "param", "scalar", None),
    ("width", "param", "scalar", None),
]

REFS: dict = {
    "dataset": {None: _DATASET},
    "megacomplex": {
        "decay": [("k_matrix", "item", "list", "k_matrix")],  # DecayMegacomplex.k_matrix: list[ModelItemType[KMatrix]]
        "decay-sequential": [("rates", "param", "list", None)],  # DecayParallelMegacomplex.rates: list[ParameterType] (inherited)
        "decay-parallel": [("rates", "param", "list", None)],
        "damped-oscillation": _OSC,  # DampedOscillationMegacomplex.frequencies / rates: list[ParameterType]
        "pfid": _OSC,  # PFIDMegacomplex.frequencies / rates: list[ParameterType]
        "coherent-artifact": [("width", "param", "scalar", None)],  # CoherentArtifactMegacomplex.width: ParameterType | None
        "spectral": [("shape", "item", "dict", "shape")],  # SpectralMegacomplex.shape: dict[str, ModelItemType[SpectralShape]]
        "baseline": [],
        "clp-guide": [],  # target: str is a clp label, not a model item
    },
    "k_matrix": {None: [("matrix", "param", "kdict", None)]},  # KMatrix.matrix: dict[tuple[str, str], ParameterType]
    "initial_concentration": {None: [("parameters", "param", "list", None)]},  # InitialConcentration.parameters: list[ParameterType]
    "irf": {
        "gaussian": [("center", "param", "scalar", None), ("width", "param", "scalar", None)] + _IRF_COMMON,
        "multi-gaussian": [("center", "param", "list", None), ("width", "param", "list", None)] + _IRF_COMMON,
        "spectral-gaussian": [("center", "param", "scalar", None), ("width", "param", "scalar", None)] + _IRF_COMMON + _IRF_SPECTRAL,
        "spectral-multi-gaussian": [("center", "param", "list", None), ("width", "param", "list", None)] + _IRF_COMMON + _IRF_SPECTRAL,
    },
    "shape": {
        "gaussian": _GAUSS_SHAPE,
        "skewed-gaussian": _GAUSS_SHAPE + [("skewness", "param", "scalar", None)],  # SpectralShapeSkewedGaussian.skewness: ParameterType
        "one": [],
        "zero": [],
    },
    "clp_relations": {None: [("parameter", "param", "scalar", None)]},  # ClpRelation.parameter: ParameterType
    "clp_penalties": {"equal_area": [("parameter", "param", "scalar", None)]},  # EqualAreaPenalty.parameter: ParameterType
    "clp_constraints": {"zero": [], "only": []},  # target: str is a clp label
    "weights": {None: []},  # Weight.datasets: list[str] - plain strings; datasets that do not exist are documented nowhere as an error
    "dataset_groups": {None: []},
}
# nesting depth of the *holder* of a reference (dataset / global items 1; what a dataset names 2; what a megacomplex names 3)
DEPTH = {"dataset": 1, "clp_relations": 1, "clp_penalties": 1, "megacomplex": 2, "irf": 2, "initial_concentration": 2,
         "k_matrix": 3, "shape": 3}
UNIQUE_TYPES = {"baseline", "coherent-artifact"}  # @megacomplex(unique=True)
EXCLUSIVE_TYPES = {"clp-guide"}  # @megacomplex(exclusive=True)


def positions(spec: dict, with_group: bool = False) -> list[dict]:
    """Every place where ``spec`` names a model item or a parameter (driven by REFS only)."""
    out = []
    for section, items in spec.items():
        table = REFS[section]
        it = items.items() if isinstance(items, dict) else enumerate(items)
        for key, item in it:
            entries = table[item["type"]] if None not in table else table[None]
            if section == "dataset" and with_group:
                entries = entries + [_DATASET_GROUP]
            for attr, kind, structure, target in entries:
                v = item.get(attr)
                if v is None:
                    continue
                base = (section, key, attr)
                if structure == "scalar":
                    refs = [(base, v)]
                elif structure == "list":
                    refs = [(base + (i,), lab) for i, lab in enumerate(v)]
                elif structure == "dict":
                    refs = [(base + (k,), lab) for k, lab in v.items()]
                else:
                    refs = [(base + (i, 2), e[2]) for i, e in enumerate(v)]
                for path, lab in refs:
                    out.append({"path": path, "label": lab, "kind": kind, "target": target, "structure": structure,
                                "where": f"{section}.{attr}", "depth": DEPTH[section]})
    return out


def set_path(spec: dict, path, value) -> dict:
    s = copy.deepcopy(spec)
    node = s
    for p in path[:-1]:
        node = node[p]
    node[path[-1]] = value
    return s


def defined_labels(spec: dict, section: str) -> set:
    d = set(spec.get(section, {})) if isinstance(spec.get(section, {}), dict) else set()
    if section == "dataset_groups":
        d.add("default")  # always exists
    return d


def fresh_label(spec: dict, params: dict, pos: dict, variant: int) -> tuple[str, str]:
    """A label that is *not* defined where ``pos`` looks it up.  Returns (label, variant name)."""
    if pos["kind"] == "item":
        taken = defined_labels(spec, pos["target"])
        elsewhere = sorted(
            {lab for sec, items in spec.items() if isinstance(items, dict) and sec != pos["target"] for lab in items}
            | set(params)
        )
    else:
        taken = set(params)
        elsewhere = sorted({lab for sec, items in spec.items() if isinstance(items, dict) for lab in items})
    if variant == 1:
        cand = [lab for lab in elsewhere if lab not in taken]
        if cand:
            return cand[len(pos["path"]) % len(cand)], "defined_elsewhere"
    if variant == 2:
        old = pos["label"]
        for lab in (old + "0", "0" + old, old + "_", old[:-1], old.upper()):
            if lab and lab != old and lab not in taken:
                return lab, "near_miss"
    n = 0
    while f"zz_undefined{n or ''}" in taken:
        n += 1
    return f"zz_undefined{n or ''}", "fresh"


# ------------------------------------------------------------------------------------------
# calls into the code under test


def _validate_all(model, params, clause: str, what: str):
    """validate() / validate(parameters) / valid(parameters) / Scheme.validate() must never raise."""
    from glotaran.project import Scheme
    from vlib.core import innermost_repo_frame

    try:
        rep0 = str(model.validate())
        rep = str(model.validate(params))
        ok = model.valid(params)
        srep = str(Scheme(model, params, {}).validate())
    except Exception as e:  # noqa: BLE001
        raise Violation(clause, f"{what}: {type(e).__name__}: {str(e)[:200]} @ {innermost_repo_frame(e)}") from e
    return rep0, rep, ok, srep


def _as_given(case, spec):
    """The specification in the container types the case asks for: megacomplex sequences of datasets as tuples instead of lists
    (what a python script writes; the yml loader always gives lists)."""
    if not case.get("mc_tuple"):
        return spec
    spec = copy.deepcopy(spec)
    for d in spec.get("dataset", {}).values():
        for key in ("megacomplex", "global_megacomplex"):
            if isinstance(d.get(key), list):
                d[key] = tuple(d[key])
    return spec


def _model_and_params(case, spec=None, removed=()):
    with warnings.catch_warnings():
        warnings.simplefilter("ignore")
        given = _as_given(case, case["spec"] if spec is None else spec)
        from glotaran.model import Model
        from glotaran.plugin_system.megacomplex_registration import get_megacomplex

        py = G.to_python_spec(given)
        if case.get("shared_definitions"):
            # definitions that are equal are handed over as ONE object (a YAML anchor / alias, dict.fromkeys, a shared default):
            # every label still gets its own item
            for section, items in py.items():
                if isinstance(items, dict):
                    seen = []
                    for label, item in list(items.items()):
                        for other in seen:
                            if isinstance(item, dict) and item == other:
                                items[label] = other
                                break
                        else:
                            seen.append(item)
        before = copy.deepcopy(py)
        types = []
        for m in py["megacomplex"].values():
            t = get_megacomplex(m["type"])
            if t not in types:
                types.append(t)
        model = Model.create_class_from_megacomplexes(types)(**py)
        check(py == before, "spec.mutated_by_model_construction", lambda: "the caller's specification was changed while the model was built")
        given = py
        for section, items in given.items():
            if isinstance(items, dict) and hasattr(model, section) and isinstance(getattr(model, section), dict):
                for label in items:
                    it = getattr(model, section).get(label)
                    if it is not None and hasattr(it, "label"):
                        check(it.label == label, "spec.item_label_differs_from_its_key", lambda: f"{section}[{label!r}].label == {it.label!r}")
        params = G.build_parameters(case["params"], case["free"], removed=removed)
    return model, params


def _require_valid_base(case):
    """The unmutated model has to validate, else a mutation verdict means nothing (counted as discard here;
    the `valid` sub-check is where an invalid base model is a violation)."""
    model, params = _model_and_params(case)
    try:
        ok = model.valid(params)
    except Exception:  # noqa: BLE001
        ok = False
    if not ok:
        raise Discard("base model not valid (see sub-check valid)")


class _Failures:
    """Collects the failing mutations of one case; raises the first (message lists the others)."""

    def __init__(self):
        self.items: list[tuple[str, str]] = []

    def add(self, clause, message):
        self.items.append((clause, message))

    def guard(self, fn):
        try:
            fn()
        except Violation as v:
            self.add(v.clause, v.message)

    def raise_if_any(self):
        if self.items:
            clause, msg = self.items[0]
            others = sorted({c for c, _ in self.items[1:] if c != clause})
            raise Violation(clause, msg + (f"  [also failing in this case: {others}]" if others else ""))


def _check_named(reports, ok, label, clause, what):
    rep0, rep, srep = reports
    quoted = f"'{label}'"
    check(ok is False, clause, lambda: f"{what}: valid(parameters) is True")
    for name, r in (("validate(parameters)", rep), ("Scheme.validate()", srep)) + ((("validate()", rep0),) if rep0 is not None else ()):
        check(r != VALID_TEXT and quoted in r, clause, lambda: f"{what}: {name} does not name {quoted}: {r[:300]!r}")


def _run_rename(case, pos, variant, sub, clause_kind):
    spec = case["spec"]
    new, vname = fresh_label(spec, case["params"], pos, variant)
    mutated = set_path(spec, pos["path"], new)
    model, params = _model_and_params(case, mutated)
    what = f"{'/'.join(map(str, pos['path']))}: {pos['label']!r} -> {new!r} ({vname})"
    rep0, rep, ok, srep = _validate_all(model, params, f"{sub}.internal_error", what)
    # a missing model item is reported with and without parameters, a missing parameter only with them
    _check_named((rep0 if pos["kind"] == "item" else None, rep, srep), ok, new, f"{sub}.unreported[{clause_kind}]", what)
    return vname


def _run_remove_definition(case, section, label, users, sub, clause_kind):
    """The definition of a referenced item deleted: every reference to it dangles."""
    mutated = copy.deepcopy(case["spec"])
    del mutated[section][label]
    model, params = _model_and_params(case, mutated)
    what = f"definition {section}/{label} removed (referenced from {users})"
    rep0, rep, ok, srep = _validate_all(model, params, f"{sub}.internal_error", what)
    _check_named((rep0, rep, srep), ok, label, f"{sub}.unreported[{clause_kind}]", what)


def _referenced_definitions(poss, target):
    """label -> sorted 'where' of the references to items of model section ``target``."""
    out: dict = {}
    for p in poss:
        if p["kind"] == "item" and p["target"] == target:
            out.setdefault(p["label"], set()).add(p["where"])
    return {k: sorted(v) for k, v in out.items()}


def _tags(case, poss, extra=()):
    tags = sorted({f"pos:{p['where']}" for p in poss}) + list(extra) + (["megacomplex_sequences_as_tuples"] if case.get("mc_tuple") else [])
    nontrivial = any(p["depth"] >= 2 or p["structure"] != "scalar" for p in poss)
    return {"nontrivial": bool(nontrivial), "tags": tags}


# ------------------------------------------------------------------------------------------
# sub-checks


def prop_item_refs(case):
    """Every model-item reference except dataset -> megacomplex / global_megacomplex / group, renamed in turn."""
    _require_valid_base(case)
    poss = [p for p in positions(case["spec"]) if p["kind"] == "item" and p["where"] not in ("dataset.megacomplex", "dataset.global_megacomplex")]
    if not poss:
        raise Discard("no nested item reference")
    fails = _Failures()
    variants = set()
    for i, p in enumerate(poss):
        fails.guard(lambda: variants.add(_run_rename(case, p, (case["mut_seed"] + i) % 3, "item", p["where"])))
    for target in ("irf", "initial_concentration", "k_matrix", "shape"):
        for lab, users in _referenced_definitions(poss, target).items():
            fails.guard(lambda: _run_remove_definition(case, target, lab, users, "item", users[0]))
            variants.add("definition_removed")
    fails.raise_if_any()
    return _tags(case, poss, [f"variant:{v}" for v in sorted(variants)])


def prop_dataset_megacomplex(case):
    """dataset -> megacomplex / global_megacomplex renamed in turn (these lists also feed the unique/exclusive validators)."""
    _require_valid_base(case)
    poss = [p for p in positions(case["spec"]) if p["where"] in ("dataset.megacomplex", "dataset.global_megacomplex")]
    fails = _Failures()
    variants = set()
    for i, p in enumerate(poss):
        fails.guard(lambda: variants.add(_run_rename(case, p, (case["mut_seed"] + i) % 3, "dsmc", p["where"])))
    mcs = case["spec"]["megacomplex"]
    for lab, users in _referenced_definitions(poss, "megacomplex").items():
        # the model class is made from the megacomplex types: only remove a definition whose type stays present
        if sum(1 for m in mcs.values() if m["type"] == mcs[lab]["type"]) < 2:
            continue
        fails.guard(lambda: _run_remove_definition(case, "megacomplex", lab, users, "dsmc", users[0]))
        variants.add("definition_removed")
    fails.raise_if_any()
    return _tags(case, poss, [f"variant:{v}" for v in sorted(variants)])


def prop_dataset_group(case):
    """dataset.group set to an undefined dataset group (every dataset in turn; also datasets that relied on the default)."""
    from glotaran.model import ModelError

    _require_valid_base(case)
    spec = case["spec"]
    fails = _Failures()
    variants = set()
    n_default = 0
    for i, dl in enumerate(spec["dataset"]):
        old = spec["dataset"][dl].get("group", "default")
        n_default += old == "default"
        pos = {"path": ("dataset", dl, "group"), "label": old, "kind": "item", "target": "dataset_groups",
               "structure": "scalar", "where": "dataset.group", "depth": 1}
        new, vname = fresh_label(spec, case["params"], pos, (case["mut_seed"] + i) % 3)
        variants.add(vname)
        mutated = set_path(spec, pos["path"], new)
        model, params = _model_and_params(case, mutated)
        what = f"dataset/{dl}/group: {old!r} -> {new!r} ({vname})"

        def run():
            rep0, rep, ok, srep = _validate_all(model, params, "group.internal_error", what)
            consequence = ""
            if ok:
                try:
                    model.get_dataset_groups()
                    consequence = "; get_dataset_groups() accepts it"
                except ModelError as e:
                    consequence = f"; the validated model then fails with {e}"
            _check_named((rep0, rep, srep), ok, new, "group.unreported[dataset.group]", what + consequence)

        fails.guard(run)
    used_groups = {ds["group"]: dl for dl, ds in spec["dataset"].items() if ds.get("group", "default") != "default"}
    for g, dl in used_groups.items():
        fails.guard(lambda: _run_remove_definition(case, "dataset_groups", g, [f"dataset/{dl}/group"], "group", "dataset.group"))
        variants.add("definition_removed")
    fails.raise_if_any()
    return {"nontrivial": True, "tags": [f"variant:{v}" for v in sorted(variants)] + (["dataset_on_implicit_default"] if n_default else [])}


def prop_param_refs(case):
    """Every parameter reference renamed in turn; every referenced parameter removed from the parameter set in turn."""
    _require_valid_base(case)
    spec = case["spec"]
    poss = [p for p in positions(spec) if p["kind"] == "param"]
    if not poss:
        raise Discard("model references no parameter")
    fails = _Failures()
    variants = set()
    for i, p in enumerate(poss):
        fails.guard(lambda: variants.add(_run_rename(case, p, (case["mut_seed"] + i) % 3, "param", p["where"])))
    labels = list(dict.fromkeys(p["label"] for p in poss))
    model = None
    for lab in labels:
        where = sorted({p["where"] for p in poss if p["label"] == lab})
        model, params = _model_and_params(case, removed=(lab,))
        what = f"parameter {lab!r} removed (referenced at {where})"

        def run():
            rep0, rep, ok, srep = _validate_all(model, params, "param.internal_error", what)
            check(rep0 == VALID_TEXT, "param.reports_issue_without_parameters", lambda: f"{what}: validate() = {rep0[:200]!r}")
            _check_named((None, rep, srep), ok, lab, "param.removed_unreported[" + where[0] + "]", what)

        fails.guard(run)
    fails.raise_if_any()
    shared = len(labels) < len(poss)
    out = _tags(case, poss, [f"variant:{v}" for v in sorted(variants)] + (["shared_parameter"] if shared else []))
    return out


def _unique_exclusive_mutations(spec: dict):
    """(mutated spec, involved labels, word the report has to contain, description)."""
    out = []
    mcs = spec["megacomplex"]
    for dl, ds in spec["dataset"].items():
        for attr in ("megacomplex", "global_megacomplex"):
            cur = ds.get(attr)
            if cur is None and attr == "megacomplex":
                continue
            cur = list(cur or [])
            # --- unique megacomplexes used twice
            uniq_defined = [m for m, it in mcs.items() if it["type"] in UNIQUE_TYPES]
            for typ, template in (("baseline", {"type": "baseline", "dimension": "time"}),
                                  ("coherent-artifact", {"type": "coherent-artifact", "order": 1})):
                have = [m for m in uniq_defined if mcs[m]["type"] == typ]
                s = copy.deepcopy(spec)
                if have:
                    u = have[0]
                else:
                    u = "zz_unique"
                    s["megacomplex"][u] = dict(template)
                # (a) the same label twice
                sa = copy.deepcopy(s)
                sa["dataset"][dl][attr] = cur + [u] * (2 - min(cur.count(u), 1))
                out.append((sa, [u], "unique", f"dataset/{dl}/{attr}: unique {typ} {u!r} listed twice"))
                # (b) two different megacomplexes of the same unique type
                sb = copy.deepcopy(s)
                sib = "zz_sibling"
                sb["megacomplex"][sib] = copy.deepcopy(sb["megacomplex"][u])
                sb["dataset"][dl][attr] = cur + ([u] if u not in cur else []) + [sib]
                out.append((sb, [u, sib], "unique", f"dataset/{dl}/{attr}: unique {typ} {u!r} and sibling {sib!r} of the same type"))
            # --- exclusive megacomplexes combined with others
            excl = [m for m, it in mcs.items() if it["type"] in EXCLUSIVE_TYPES]
            s = copy.deepcopy(spec)
            if excl:
                e = excl[0]
            else:
                e = "zz_exclusive"
                s["megacomplex"][e] = {"type": "clp-guide", "dimension": "time", "target": "s1"}
            others = [m for m in s["megacomplex"] if m != e]
            new = list(cur)
            if e not in new:
                new.append(e)
            if len(new) < 2:
                if not others:
                    continue
                new.append(others[0])
            s["dataset"][dl][attr] = new
            out.append((s, [e], "exclusive", f"dataset/{dl}/{attr}: exclusive {e!r} combined in {new}"))
    return out


def prop_unique_exclusive(case):
    _require_valid_base(case)
    muts = _unique_exclusive_mutations(case["spec"])
    fails = _Failures()
    tags = set()
    for mutated, labels, word, what in muts:
        model, params = _model_and_params(case, mutated)

        def run():
            rep0, rep, ok, srep = _validate_all(model, params, "uniq.internal_error", what)
            clause = f"uniq.unreported[{word}]"
            check(ok is False, clause, lambda: f"{what}: valid(parameters) is True")
            for name, r in (("validate()", rep0), ("validate(parameters)", rep), ("Scheme.validate()", srep)):
                check(
                    r != VALID_TEXT and word in r.lower() and any(f"'{lab}'" in r for lab in labels),
                    clause,
                    lambda: f"{what}: {name} reports no {word} violation naming one of {labels}: {r[:300]!r}",
                )

        fails.guard(run)
        tags.add(f"{word}:{'global' if '/global_megacomplex' in what else 'model'}")
        if "sibling" in what:
            tags.add("unique:sibling_type")
    fails.raise_if_any()
    return {"nontrivial": True, "tags": sorted(tags)}


def _lookup_error(e: BaseException, labels: set) -> str | None:
    """Is ``e`` (or what caused it) a failed lookup of a model-item / parameter reference?"""
    from glotaran.model import ModelError
    from glotaran.parameter.parameters import ParameterNotFoundException

    seen = 0
    cur: BaseException | None = e
    while cur is not None and seen < 6:
        if isinstance(cur, ParameterNotFoundException):
            return f"ParameterNotFoundException: {cur}"
        if isinstance(cur, KeyError) and cur.args and cur.args[0] in labels:
            return f"KeyError: {cur.args[0]!r}"
        if isinstance(cur, AttributeError) and "'str' object has no attribute" in str(cur):
            return f"AttributeError: {cur}"
        if isinstance(cur, ModelError) and "Unknown dataset group" in str(cur):
            return str(cur)
        cur = cur.__cause__ or cur.__context__
        seen += 1
    return None


def prop_valid(case):
    """The unmutated model: valid; can be filled and evaluated once; generated parameters validate."""
    from glotaran.model import fill_item
    from glotaran.optimization.optimize import optimize
    from glotaran.project import Scheme
    from vlib.core import innermost_repo_frame

    spec = case["spec"]
    model, params = _model_and_params(case)
    rep0, rep, ok, srep = _validate_all(model, params, "valid.internal_error", "unmutated model")
    for name, r in (("validate()", rep0), ("validate(parameters)", rep), ("Scheme.validate()", srep)):
        check(r == VALID_TEXT, "valid.reports_issue", lambda: f"{name} of a model whose references all resolve: {r[:400]!r}")
    check(ok is True, "valid.reports_issue", "valid(parameters) is False although validate(parameters) reports nothing")

    poss = positions(spec, with_group=True)
    labels = {p["label"] for p in poss} | set(case["params"])
    # fill every dataset model
    for dl in spec["dataset"]:
        try:
            filled = fill_item(model.dataset[dl], model, params)
        except Exception as e:  # noqa: BLE001
            hit = _lookup_error(e, labels)
            if hit:
                raise Violation("valid.fill_lookup", f"fill_item(dataset {dl!r}): {hit} @ {innermost_repo_frame(e)}") from e
            raise Discard(f"fill_item raised {type(e).__name__} @ {innermost_repo_frame(e)}") from e
        check(all(not isinstance(m, str) for m in filled.megacomplex), "valid.fill_lookup", f"dataset {dl!r}: megacomplex left unfilled")
    # one objective evaluation (+ result creation) on own seeded data
    with warnings.catch_warnings():
        warnings.simplefilter("ignore")
        data = G.build_data(case)
        try:
            scheme = Scheme(model, params, data, maximum_number_function_evaluations=1, add_svd=False)
            optimize(scheme, verbose=False, raise_exception=True)
        except Exception as e:  # noqa: BLE001
            hit = _lookup_error(e, labels)
            if hit:
                raise Violation("valid.evaluate_lookup", f"optimize(): {hit} @ {innermost_repo_frame(e)}") from e
            raise Discard(f"evaluation raised {type(e).__name__} @ {innermost_repo_frame(e)}") from e
    # generated parameters
    try:
        gen = model.generate_parameters()
        grep = str(model.validate(gen))
    except Exception as e:  # noqa: BLE001
        raise Violation("valid.internal_error", f"generate_parameters()/validate: {type(e).__name__}: {str(e)[:200]} @ {innermost_repo_frame(e)}") from e
    check("Missing parameter" not in grep, "valid.generated_parameters", lambda: grep[:400])
    mine = {p["label"] for p in poss if p["kind"] == "param"}
    missing = sorted(lab for lab in mine if not gen.has(lab))
    check(not missing, "valid.generated_parameters", lambda: f"generate_parameters() lacks referenced labels {missing}")
    # diagnostic for the table itself (never a verdict): positions the library knows and the table does not
    extra = sorted(set(gen.labels) - mine)
    out = _tags(case, poss, [f"mc:{m['type']}" for m in spec["megacomplex"].values()] + [f"irf:{i['type']}" for i in spec.get("irf", {}).values()]
                + [f"shape:{i['type']}" for i in spec.get("shape", {}).values()] + [f"data:{k}" for k in case["data"].values()])
    out["tags"] = sorted(set(out["tags"])) + (["TABLE_INCOMPLETE:" + ",".join(extra)] if extra else [])
    return out


# ------------------------------------------------------------------------------------------
# histories: ONE model object and ONE Parameters object, edited in place between validations
#
# "Validating a model reports ..." is a statement about the model as it is at the time of the call.  Model
# items are plain mutable attrs objects and the sections of a model plain dicts / lists, so the same model
# object can be validated, edited (a reference misspelled or repaired, a definition deleted or put back, a
# parameter removed from / returned to the same Parameters object, a unique megacomplex listed twice) and
# validated again - through any of the validation entry points, with or without parameters.  The oracle keeps
# a JSON mirror of the edits and recomputes, from REFS alone, what dangles *now*.

DEF_SECTIONS = ["irf", "initial_concentration", "k_matrix", "shape", "megacomplex", "dataset_groups"]
EDIT_OPS = {"rename", "repair", "del_def", "restore_def", "del_param", "restore_param", "dup_unique", "undup"}


def expected_issues(spec: dict, params) -> tuple[list, list, list]:
    """(dangling item references, dangling parameter references, unique violations) of ``spec`` - from REFS only."""
    poss = positions(spec, with_group=True)
    items = [p for p in poss if p["kind"] == "item" and p["label"] not in defined_labels(spec, p["target"])]
    pars = [p for p in poss if p["kind"] == "param" and p["label"] not in params]
    uniq = []
    mcs = spec["megacomplex"]
    for dl, ds in spec["dataset"].items():
        for attr in ("megacomplex", "global_megacomplex"):
            defined = [lab for lab in ds.get(attr) or [] if lab in mcs]  # undefined labels are dangling references, not typed
            for typ in sorted(UNIQUE_TYPES):
                same = [lab for lab in defined if mcs[lab]["type"] == typ]
                if len(same) > 1:
                    uniq.append({"where": f"dataset/{dl}/{attr}", "labels": same, "type": typ})
    return items, pars, uniq


def _get_path(spec, path, default=None):
    """The value at ``path``; ``default`` when the path does not exist (its holder's definition is deleted at present)."""
    node = spec
    for p in path:
        try:
            node = node[p]
        except (KeyError, IndexError):
            return default
    return node


class _Live:
    """The live glotaran objects of one history and the JSON mirror the oracle reads."""

    def __init__(self, case):
        from glotaran.parameter import Parameter
        from glotaran.parameter import Parameters
        from glotaran.project import Scheme

        with warnings.catch_warnings():
            warnings.simplefilter("ignore")
            self.model = G.build_model(case["spec"])
        # Parameters has no public add / remove; it serves the dictionary it was constructed with.  Every edit of
        # that dictionary is confirmed through the public ``Parameters.has`` before the mirror follows it.
        self.pdict = {
            lab: Parameter(label=lab, value=float(v), vary=lab in case["free"], non_negative=False)
            for lab, v in case["params"].items()
        }
        self.params = Parameters(self.pdict)
        self.scheme = Scheme(self.model, self.params, {})  # a second handle onto the same two objects
        self.spec = copy.deepcopy(case["spec"])
        for ds in self.spec["dataset"].values():
            ds.setdefault("group", "default")  # DatasetModel.group: str = "default"
        self.mparams = dict(case["params"])
        self.orig: dict = {}  # path -> label before the first rename
        self.stash_defs: list = []  # (section, label, live item, mirror entry)
        self.stash_params: list = []  # (label, Parameter, value)
        self.dups: list = []  # (dataset label, attribute)
        self.trail: list[str] = []
        self.notes: set = set()

    # ---- one in-place edit of a reference position, live object and mirror alike
    def set_ref(self, path, value):
        section, key, attr = path[:3]
        item = getattr(self.model, section)[key]
        if len(path) == 3:
            setattr(item, attr, value)
        elif len(path) == 4:
            getattr(item, attr)[path[3]] = value
        else:  # K-matrix: JSON triple [to, from, label] <-> dict keyed by (to, from)
            to, frm, _ = self.spec[section][key][attr][path[3]]
            getattr(item, attr)[(to, frm)] = value
        _get_path(self.spec, path[:-1])[path[-1]] = value

    def apply(self, step) -> str:
        """Returns the name of the edit that took place (``noop`` when the operation has no candidate)."""
        op, i, spec = step["op"], step["i"], self.spec
        if op == "rename":
            cands = positions(spec, with_group=True)
            if not cands:
                return "noop"
            p = cands[i % len(cands)]
            path = tuple(p["path"])
            new, vname = fresh_label(spec, self.mparams, p, step["variant"])
            self.orig.setdefault(path, p["label"])
            self.set_ref(path, new)
            self.trail.append(f"rename {'/'.join(map(str, path))}: {p['label']!r} -> {new!r} ({vname})")
            return op
        if op == "repair":
            cands = [path for path in self.orig if _get_path(spec, path) not in (None, self.orig[path])]
            if not cands:
                return "noop"
            path = cands[i % len(cands)]
            old = self.orig.pop(path)
            self.trail.append(f"repair {'/'.join(map(str, path))}: {_get_path(spec, path)!r} -> {old!r}")
            self.set_ref(path, old)
            return op
        if op == "del_def":
            cands = [(s, lab) for s in DEF_SECTIONS for lab in spec.get(s, {}) if not (s == "dataset_groups" and lab == "default")]
            if not cands:
                return "noop"
            s, lab = cands[i % len(cands)]
            self.stash_defs.append((s, lab, getattr(self.model, s).pop(lab), spec[s].pop(lab)))
            self.trail.append(f"del_def {s}/{lab}")
            return op
        if op == "restore_def":
            if not self.stash_defs:
                return "noop"
            s, lab, obj, entry = self.stash_defs.pop(i % len(self.stash_defs))
            getattr(self.model, s)[lab] = obj
            spec[s][lab] = entry
            self.trail.append(f"restore_def {s}/{lab}")
            return op
        if op == "del_param":
            cands = list(self.mparams)
            if not cands:
                return "noop"
            lab = cands[i % len(cands)]
            par = self.pdict.pop(lab)
            if self.params.has(lab):  # the Parameters object does not follow its dictionary: outside what can be edited
                self.pdict[lab] = par
                self.notes.add("parameters_not_live")
                return "noop"
            self.stash_params.append((lab, par, self.mparams.pop(lab)))
            self.trail.append(f"del_param {lab!r}")
            return op
        if op == "restore_param":
            if not self.stash_params:
                return "noop"
            lab, par, value = self.stash_params[i % len(self.stash_params)]
            self.pdict[lab] = par
            if not self.params.has(lab):
                del self.pdict[lab]
                self.notes.add("parameters_not_live")
                return "noop"
            self.stash_params.pop(i % len(self.stash_params))
            self.mparams[lab] = value
            self.trail.append(f"restore_param {lab!r}")
            return op
        if op == "dup_unique":
            mcs = spec["megacomplex"]
            cands = [
                (dl, attr, lab)
                for dl, ds in spec["dataset"].items()
                for attr in ("megacomplex", "global_megacomplex")
                for lab in dict.fromkeys(ds.get(attr) or [])
                if lab in mcs and mcs[lab]["type"] in UNIQUE_TYPES
            ]
            if not cands:
                return "noop"
            dl, attr, lab = cands[i % len(cands)]
            getattr(self.model.dataset[dl], attr).append(lab)
            spec["dataset"][dl][attr].append(lab)
            self.dups.append((dl, attr))
            self.trail.append(f"dup_unique dataset/{dl}/{attr} += {lab!r}")
            return op
        if op == "undup":
            if not self.dups:
                return "noop"
            dl, attr = self.dups.pop(i % len(self.dups))
            getattr(self.model.dataset[dl], attr).pop()
            spec["dataset"][dl][attr].pop()
            self.orig.pop(("dataset", dl, attr, len(spec["dataset"][dl][attr])), None)
            self.trail.append(f"undup dataset/{dl}/{attr}")
            return op
        return "noop"

    def probe(self, name: str):
        """(reported valid?, report text or None) of one validation entry point on the live objects."""
        m, p = self.model, self.params
        if name == "validate":
            text = str(m.validate(p))
        elif name == "validate0":
            text = str(m.validate())
        elif name == "scheme_validate":
            text = str(self.scheme.validate())
        elif name == "valid":
            return m.valid(p), None
        elif name == "valid0":
            return m.valid(), None
        elif name == "scheme_valid":
            return self.scheme.valid(), None
        elif name in ("issues", "issues0"):
            issues = m.get_issues(parameters=p if name == "issues" else None)
            return len(issues) == 0, "\n".join(i.to_string() for i in issues)
        else:
            raise ValueError(name)
        return text == VALID_TEXT, text


def _check_probe(live: _Live, name: str, last: str, at: str):
    from vlib.core import innermost_repo_frame

    with_params = not name.endswith("0")
    items, pars, uniq = expected_issues(live.spec, live.mparams)
    dangling = items + (pars if with_params else [])
    hist = f"{at}, {name}; edits so far: {' | '.join(live.trail[-5:]) or '-'}"
    try:
        ok, text = live.probe(name)
    except Exception as e:  # noqa: BLE001
        raise Violation("hist.internal_error", f"{type(e).__name__}: {str(e)[:200]} @ {innermost_repo_frame(e)} [{hist}]") from e
    if not dangling and not uniq:
        check(ok is True, f"hist.reports_issue_after[{last}]",
              lambda: f"every reference of the model resolves now, reported: {('invalid' if text is None else text[:300])!r} [{hist}]")
        return True
    want = sorted({p["label"] for p in dangling}) + [u["where"] + " unique" for u in uniq]
    clause = f"hist.unreported_after[{last}]"
    check(ok is False, clause, lambda: f"reported valid although {want} dangle now [{hist}]")
    if text is not None:
        for p in dangling:
            check(f"'{p['label']}'" in text, clause,
                  lambda: f"report does not name '{p['label']}' ({p['where']}) which dangles now: {text[:300]!r} [{hist}]")
        for u in uniq:
            check("unique" in text.lower() and any(f"'{lab}'" in text for lab in u["labels"]), clause,
                  lambda: f"report has no unique violation naming one of {u['labels']} ({u['where']}): {text[:300]!r} [{hist}]")
    return False


def prop_history(case):
    """validate - edit in place - validate again ... on one model object and one Parameters object."""
    _require_valid_base(case)
    live = _Live(case)
    last, n_edits, flips, state = "none", 0, set(), True
    tags = set()
    for name in case["first_probes"]:
        _check_probe(live, name, last, "before the first edit")
    for k, step in enumerate(case["steps"]):
        done = live.apply(step)
        if done in EDIT_OPS:
            last = done
            n_edits += 1
            tags.add(f"op:{done}")
        for name in step["probes"]:
            now = _check_probe(live, name, last, f"step {k} ({done})")
            tags.add(f"probe:{name}")
            if name.endswith("0"):
                continue  # the verdict without parameters is another one; flips are counted on the full verdict
            if now != state:
                flips.add("flip:to_valid" if now else "flip:to_invalid")
                state = now
    return {"nontrivial": n_edits >= 2 and bool(flips), "tags": sorted(tags | flips | live.notes)}


# ------------------------------------------------------------------------------------------
# extra engine (thorough tier only): atheris through hypothesis.fuzz_one_input on the same grammar


def fuzz_custom(tier: str, seed: int):
    import json
    import os
    import random
    import subprocess
    import sys
    import tempfile
    from collections import Counter

    from vlib.core import ShardResult

    res = ShardResult()
    if tier != "thorough":
        res.extra["skipped"] = "atheris engine runs in the thorough tier only"
        return res
    scale = float(os.environ.get("VERIF_SCALE", "1"))
    nproc, runs = 12, max(50, int(600 * scale))
    with tempfile.TemporaryDirectory(prefix="c20_fuzz_") as tmp:
        procs = []
        for k in range(nproc):
            corpus = os.path.join(tmp, f"corpus{k}")
            os.mkdir(corpus)
            rnd = random.Random(seed * 1000 + k)
            for i in range(48):
                with open(os.path.join(corpus, f"seed{i:02d}"), "wb") as f:
                    f.write(rnd.randbytes(2048))
            out = os.path.join(tmp, f"out{k}.json")
            cmd = [sys.executable, "-m", "vlib.oracle.c20_fuzz", "--runs", str(runs), "--seed", str(seed % 2**31 + k),
                   "--out", out, "--corpus", corpus]
            procs.append((out, subprocess.Popen(cmd, stdout=subprocess.DEVNULL, stderr=subprocess.DEVNULL, cwd=tmp)))
        for out, pr in procs:
            pr.wait()
            if not os.path.exists(out):
                res.errors.append({"sub": "fuzz", "traceback": f"fuzz process wrote no result (exit {pr.returncode})", "case": None})
                continue
            r = json.load(open(out))
            res.evaluations += r["evaluations"]
            res.discards.update(r["discards"])
            res.tags.update(r["tags"])
            res.nontrivial |= set(r.get("nontrivial", []))
            res.failure_counts.update(Counter(r["failure_counts"]))
            for f in r["failures"]:
                f["sub"] = "fuzz"  # replay: prop_fuzz_replay runs all mutation sub-checks on the case
                res.failures.append(f)
            res.errors.extend(r["errors"][:1])
            res.wall += r["wall"]
    res.extra["engine"] = f"atheris {nproc} processes x {runs} runs, instrumented glotaran.model + glotaran.builtin.megacomplexes"
    return res


def prop_fuzz_replay(case):
    """Replay entry for cases found by the fuzz engine: all mutation sub-checks on one case."""
    out = None
    for fn in (prop_item_refs, prop_dataset_megacomplex, prop_dataset_group, prop_param_refs, prop_unique_exclusive):
        try:
            out = fn(case)
        except Discard:
            pass
    return out



# ------------------------------------------------------------------------------------------
# fresh processes whose first act is a refused evaluation


def _fresh_cases(seed: int, n: int) -> list:
    import hypothesis
    from hypothesis import HealthCheck
    from hypothesis import Phase
    from hypothesis import given
    from hypothesis import settings

    out = []

    @hypothesis.seed(seed)
    @settings(max_examples=n + 4, database=None, deadline=None, phases=[Phase.generate], suppress_health_check=list(HealthCheck))
    @given(G.models())
    def collect(c):
        out.append(c)

    collect()
    return out[:n]


def child_fresh(seed: int, n: int, pick: int, outfile: str):
    """Runs in a brand-new interpreter.  The first thing this process does with a model is an evaluation that is refused: one
    referenced parameter is missing and the datasets are filled without validating first (what optimize / simulate do).  Then the
    parameter and item mutation sub-checks run on the generated cases: validation answers for the model it is given, whatever
    happened in the process before."""
    import json

    from glotaran.model.item import fill_item

    cases = _fresh_cases(seed, n)
    out = {"refused": 0, "evaluations": 0, "failures": [], "discards": 0, "labels_tried": []}
    with warnings.catch_warnings():
        warnings.simplefilter("ignore")
        for c0 in cases[:2]:
            labels = list(dict.fromkeys(p["label"] for p in positions(c0["spec"]) if p["kind"] == "param"))
            if not labels:
                continue
            lab = labels[pick % len(labels)]
            out["labels_tried"].append(lab)
            model, params = _model_and_params(c0, removed=(lab,))
            for ds in model.dataset:
                try:
                    fill_item(model.dataset[ds], model, params)
                except Exception:  # noqa: BLE001
                    out["refused"] += 1
        for i, c in enumerate(cases):
            for fn in (prop_param_refs, prop_item_refs):
                try:
                    fn(c)
                    out["evaluations"] += 1
                except Discard:
                    out["discards"] += 1
                except Violation as v:
                    out["evaluations"] += 1
                    out["failures"].append({"clause": "fresh." + v.clause, "message": v.message[:600], "i": i})
    with open(outfile, "w") as f:
        json.dump(out, f)


def _spawn_fresh(seed: int, n: int, pick: int, outfile: str):
    import subprocess
    import sys
    from pathlib import Path

    root = str(Path(__file__).resolve().parent.parent.parent)
    code = f"import sys; sys.path[:0] = {[root, root + '/.deps']!r}; from vlib.props import c20; c20.child_fresh({seed}, {n}, {pick}, {outfile!r})"
    return subprocess.Popen([sys.executable, "-c", code], cwd=root, stdout=subprocess.PIPE, stderr=subprocess.PIPE)


def fresh_custom(tier: str, seed: int):
    import json
    import os
    import tempfile

    from vlib.core import ShardResult
    from vlib.core import digest

    res = ShardResult()
    nproc, n = (16, 6) if tier == "quick" else (96, 12)
    with tempfile.TemporaryDirectory(prefix="c20_fresh_") as tmp:
        running = []
        jobs = [(seed * 1000 + k, n, k) for k in range(nproc)]
        done = 0
        while jobs or running:
            while jobs and len(running) < 16:
                s_, n_, k_ = jobs.pop(0)
                out = os.path.join(tmp, f"o{k_}.json")
                running.append((s_, n_, k_, out, _spawn_fresh(s_, n_, k_, out)))
            s_, n_, k_, out, pr = running.pop(0)
            so, se = pr.communicate(timeout=3600)
            if pr.returncode != 0 or not os.path.exists(out):
                res.errors.append({"sub": "fresh_process", "traceback": se.decode()[-2000:], "case": None})
                continue
            r = json.load(open(out))
            done += 1
            res.evaluations += r["evaluations"]
            if r["discards"]:
                res.discards["base model not valid / no reference"] += r["discards"]
            res.tags["processes"] += 1
            if r["refused"]:
                res.tags["processes_starting_with_a_refused_evaluation"] += 1
                res.nontrivial.add(digest([s_, k_]))
            for f in r["failures"]:
                res.failure_counts[f["clause"]] += 1
                res.failures.append({"sub": "fresh_process", "clause": f["clause"], "message": f["message"], "case": {"seed": s_, "n": n_, "pick": k_}})
            if len(res.samples) < 2:
                res.samples.append({"process_seed": s_, "cases": n_, "first_refused_parameter": r["labels_tried"][:1], "refused_fills": r["refused"]})
    return res


def prop_fresh_replay(case):
    import json
    import os
    import tempfile

    with tempfile.TemporaryDirectory(prefix="c20_fresh_") as tmp:
        out = os.path.join(tmp, "o.json")
        pr = _spawn_fresh(case["seed"], case["n"], case["pick"], out)
        so, se = pr.communicate(timeout=3600)
        if pr.returncode != 0:
            raise RuntimeError(se.decode()[-1000:])
        r = json.load(open(out))
    for f in r["failures"]:
        raise Violation(f["clause"], f["message"])
    return {"nontrivial": bool(r["refused"]), "tags": []}

# ------------------------------------------------------------------------------------------
# oracle self-check: the position enumerator on a hand-counted specification


def selfcheck():
    spec = {
        "megacomplex": {
            "m1": {"type": "decay", "k_matrix": ["k1", "k2"]},
            "m2": {"type": "spectral", "shape": {"s1": "sh1", "s2": "sh2"}},
            "m3": {"type": "coherent-artifact", "order": 2, "width": "aw"},
            "m4": {"type": "damped-oscillation", "labels": ["o"], "frequencies": ["f"], "rates": ["r"]},
            "m5": {"type": "baseline", "dimension": "time"},
        },
        "k_matrix": {"k1": {"matrix": [["s2", "s1", "p1"], ["s2", "s2", "p2"]]}, "k2": {"matrix": [["s3", "s3", "p3"]]}},
        "initial_concentration": {"j": {"compartments": ["s1", "s2", "s3"], "parameters": ["j1", "j0", "j0"]}},
        "irf": {"i": {"type": "spectral-multi-gaussian", "center": ["c"], "width": ["w1", "w2"], "shift": ["h1", "h2", "h3"],
                      "backsweep_period": "bp", "dispersion_center": "dc", "center_dispersion_coefficients": ["d1"]}},
        "shape": {"sh1": {"type": "skewed-gaussian", "amplitude": "a", "location": "l", "width": "w", "skewness": "k"}, "sh2": {"type": "one"}},
        "clp_relations": [{"source": "s1", "target": "s2", "parameter": "rel"}],
        "clp_penalties": [{"type": "equal_area", "source": "s1", "source_intervals": [[0, 1]], "target": "s2",
                           "target_intervals": [[0, 1]], "parameter": "pen", "weight": 1}],
        "clp_constraints": [{"type": "zero", "target": "s1", "interval": [0, 1]}],
        "weights": [{"datasets": ["d"], "value": 1}],
        "dataset_groups": {"g": {}},
        "dataset": {"d": {"megacomplex": ["m1", "m3", "m4", "m5"], "global_megacomplex": ["m2"], "megacomplex_scale": ["x1", "x2", "x3", "x4"],
                          "scale": "sc", "irf": "i", "initial_concentration": "j", "group": "g"}},
    }
    poss = positions(spec, with_group=True)
    items = sorted((p["where"], p["label"]) for p in poss if p["kind"] == "item")
    # by hand: dataset.megacomplex x4, global_megacomplex x1, irf, initial_concentration, group, k_matrix x2, shape x2
    assert len(items) == 12, items
    assert ("megacomplex.shape", "sh2") in items and ("dataset.group", "g") in items
    pars = [p["label"] for p in poss if p["kind"] == "param"]
    # by hand: scales 4+1, artifact width 1, osc 2, k-matrix 3, ic 3, irf 1+2+3+1+1+1 = 9, shape 4, rel 1, pen 1
    assert len(pars) == 29, (len(pars), pars)
    assert set(pars) == {"x1", "x2", "x3", "x4", "sc", "aw", "f", "r", "p1", "p2", "p3", "j1", "j0", "c", "w1", "w2", "h1", "h2", "h3",
                         "bp", "dc", "d1", "a", "l", "w", "k", "rel", "pen"}
    p = next(p for p in poss if p["label"] == "p3")
    assert set_path(spec, p["path"], "Q")["k_matrix"]["k2"]["matrix"][0] == ["s3", "s3", "Q"] and spec["k_matrix"]["k2"]["matrix"][0][2] == "p3"
    assert fresh_label(spec, {"x1": 1}, p, 0)[0] == "zz_undefined"
    lab, v = fresh_label(spec, {"x1": 1}, next(q for q in poss if q["where"] == "dataset.irf"), 1)
    assert v == "defined_elsewhere" and lab not in spec["irf"]
    assert len(_unique_exclusive_mutations(spec)) == 2 * (2 * 2 + 1)
    # the history oracle on the same specification, by hand
    allp = set(pars)
    assert expected_issues(spec, allp) == ([], [], [])
    s2 = copy.deepcopy(spec)
    del s2["irf"]["i"]  # dataset d -> irf 'i' dangles; the 9 irf parameters are no longer referenced
    it, pa, un = expected_issues(s2, allp - {"c", "sc"})
    assert [(p["where"], p["label"]) for p in it] == [("dataset.irf", "i")] and [p["label"] for p in pa] == ["sc"] and un == []
    s2["dataset"]["d"]["megacomplex"] += ["m5", "nope"]
    s2["dataset"]["d"]["group"] = "default"
    it, pa, un = expected_issues(s2, allp)
    assert sorted(p["label"] for p in it) == ["i", "nope"] and pa == [] and un == [{"where": "dataset/d/megacomplex", "labels": ["m5", "m5"], "type": "baseline"}]
    assert G.to_python_spec(spec)["k_matrix"]["k1"]["matrix"] == {("s2", "s1"): "p1", ("s2", "s2"): "p2"}


PROPERTY = Property(
    id="C20",
    level="exploration",
    rule=(
        "Hypothesis model grammar (vlib/gen/c20_models.py): 1-3 datasets of kind time / full-model / spectral / clp-guide over all "
        "built-in megacomplex types (decay with 1-2 K-matrices, decay-sequential, decay-parallel, damped-oscillation, pfid, "
        "coherent-artifact, baseline, spectral with gaussian/skewed-gaussian/one/zero shapes, clp-guide), the four IRF types with "
        "scale/shift/backsweep/dispersion lists, initial concentrations, dataset / megacomplex / global megacomplex scales, dataset "
        "groups, relations, equal-area penalties, constraints, weights; labels from confusable pools shared between sections. "
        "Per generated model every reference position of the independent table REFS is mutated in turn (rename to an undefined label: "
        "fresh / defined only in another section / near miss; remove each referenced parameter; duplicate unique and combine exclusive "
        "megacomplexes in megacomplex and global_megacomplex). A case is non-trivial if a mutated reference sits at nesting depth >= 2 "
        "or inside a list/dict-valued attribute; distinct = distinct case digest. "
        "Histories (sub-check hist): a generated model plus 2-12 steps interpreted on ONE model object and ONE Parameters object "
        "(rename / repair a reference position, delete / restore a definition, remove / return a parameter, duplicate / un-duplicate a "
        "unique megacomplex, no-op), each step followed by 1-3 generated validation calls (validate, valid, get_issues, with and "
        "without parameters, Scheme.validate / valid of a scheme made before the first edit); the oracle recomputes the dangling set "
        "from a JSON mirror of the edits; non-trivial = >= 2 edits and the expected verdict flipped at least once."
    ),
    subs=[
        # fewer shards in the quick tier: every process that evaluates pays ~10 s of numba JIT once
        Sub("valid", prop=prop_valid, strategy=lambda: G.models().map(lambda c: {**c, "shared_definitions": c["mut_seed"] % 2 == 0}), budget={"quick": 300, "thorough": 24000},
            shards={"quick": 6, "thorough": 16},
            doc="unmutated model: valid, fill_item of every dataset, one optimize() evaluation, generate_parameters()"),
        Sub("item", prop=prop_item_refs, strategy=lambda: G.models(), budget={"quick": 320, "thorough": 24000},
            doc="nested model-item references (irf, initial_concentration, k_matrix, shape) renamed in turn"),
        Sub("dsmc", prop=prop_dataset_megacomplex, strategy=lambda: G.models().map(lambda c: {**c, "mc_tuple": c["mut_seed"] % 3 == 0}), budget={"quick": 320, "thorough": 24000},
            doc="dataset -> megacomplex / global_megacomplex renamed in turn"),
        Sub("group", prop=prop_dataset_group, strategy=lambda: G.models(), budget={"quick": 320, "thorough": 24000},
            doc="dataset.group renamed to an undefined dataset group"),
        Sub("param", prop=prop_param_refs, strategy=lambda: G.models(), budget={"quick": 240, "thorough": 20000},
            doc="every parameter reference renamed in turn, every referenced parameter removed in turn"),
        Sub("uniq", prop=prop_unique_exclusive, strategy=lambda: G.models().map(lambda c: {**c, "mc_tuple": c["mut_seed"] % 2 == 0}), budget={"quick": 240, "thorough": 20000},
            doc="unique megacomplexes duplicated (same label / sibling of the same type), exclusive ones combined"),
        Sub("hist", prop=prop_history, strategy=lambda: G.histories(), budget={"quick": 400, "thorough": 40000},
            doc="one model object + one Parameters object: validate, edit in place (misspell / repair a reference, delete / restore a "
                "definition, remove / return a parameter, duplicate a unique megacomplex), validate again through any entry point"),
        Sub("fresh_process", prop=prop_fresh_replay, custom=fresh_custom,
            doc="brand-new interpreters whose first act is a refused evaluation (a referenced parameter missing, datasets filled without "
                "validating first); then the parameter / item mutation sub-checks: validation does not depend on what the process did before"),
        Sub("fuzz", prop=prop_fuzz_replay, custom=fuzz_custom,
            doc="thorough tier only: atheris (coverage-guided) via hypothesis.fuzz_one_input on the grammar, all mutation sub-checks"),
    ],
    assumptions=[
        "the reference table REFS (type annotations of the documented item classes) is the specification of what is a reference",
        "a report 'names' a label when it contains the label in single quotes; unique/exclusive reports contain that word and a label",
        "weights[].datasets, clp targets/sources and compartments are plain strings (not references) per their annotations",
        "hist: every validation call answers for the model and parameters as they are at the time of the call (items and sections are "
        "mutable objects); a Parameters object serves the dictionary it was constructed with - each edit of it is confirmed through "
        "Parameters.has() before it counts, else the step is a no-op",
        "evaluation errors other than KeyError on a model/parameter label, ParameterNotFoundException, AttributeError on str, "
        "ModelError 'Unknown dataset group' are outside C20 and counted as discards",
    ],
    selfcheck=selfcheck,
)
