"""C17 - models, schemes, datasets and results survive persistence unchanged.

Oracles are round trips decided by *own* comparators (never by the equality methods of the code under
test, except ``xarray.Dataset.equals`` of the third-party library which the statement names):

* ``model``   Hypothesis over the model-spec grammar of ``vlib.gen.c17_models``: ``save_model`` ->
  ``load_model`` gives the same ``as_dict()`` up to tuple<->list and dict order; a scheme built from
  the model round-trips through ``save_scheme``/``load_scheme`` with relative paths; the objective of
  the reloaded model (cost, residuals, additional penalties of ``optimize`` with one function
  evaluation on seeded data) equals the one of the original model to 1e-12.
* ``result``  small optimisations x every ``SavingOptions`` combination x absolute/relative target x
  file/folder path: ``load_result`` gives equal parameters / histories / statistics / datasets, every
  path stored in ``result.yml`` / ``scheme.yml`` is relative and inside the folder, the same after the
  folder was moved and the cwd changed.
* ``history`` Hypothesis over histories of results and result folders (JSON step lists, addressing relative to what
  exists): save any result handle (fresh / continued run ``optimize(previous.get_scheme())`` whose initial parameters
  carry standard errors / loaded from a folder) to a new folder or over an earlier save, load a folder (new handle),
  continue a run, move / remove folders, change the cwd.  Every save is decided at once (references relative to and
  inside the folder, ``load_result`` equals the saved result), every load later on, and every surviving folder once
  more after it was loaded and archived to a new folder and everything was moved into an otherwise empty tree.
* ``netcdf``  ``save_dataset``/``load_dataset`` bit-equal.
* ``ascii``   time-/wavelength-explicit files: values and secondary axis to 1e-10 rel., explicit axis to
  1e-12 rel. (text round trip), both axes in the right orientation.
"""

from __future__ import annotations

import contextlib
import dataclasses
import io
import math
import os
import shutil
import tempfile
import warnings
from pathlib import Path

import numpy as np
from hypothesis import strategies as st

from vlib.core import Discard
from vlib.core import Property
from vlib.core import Sub
from vlib.core import Violation
from vlib.core import check
from vlib.core import expect_ok
from vlib.core import innermost_repo_frame
from vlib.gen import c17_models as G

# Text round trip of a full-precision ``repr`` through pandas' default C float parser: the parser keeps 17 digits
# *including leading zeros*, so a fixed-notation repr in [1e-4, 1) ("0.0007726439553245901") is truncated with an
# absolute error < 1e-16, i.e. up to 1e-12 relative (measured 1.17e-13); elsewhere a few ulp.
RTOL_TEXT = 1e-12
# ... which is a defect of its own (D16b in C16: read_csv without float_precision="round_trip"); the strict
# text-round-trip tolerance of the brief is checked under separate ``*.float_precision`` clauses.
RTOL_TEXT_STRICT = 1e-13
RTOL_OBJ = 1e-12  # objective of the reloaded model
RTOL_ASCII = 1e-10  # "%.10e"


# ------------------------------------------------------------------------------------------------
# helpers


@contextlib.contextmanager
def sandbox():
    """Per-case temp dir as cwd; cwd restored and the dir removed afterwards; warnings silenced."""
    old = os.getcwd()
    td = tempfile.mkdtemp(prefix="c17_")
    try:
        os.chdir(td)
        with warnings.catch_warnings():
            warnings.simplefilter("ignore")
            yield Path(td)
    finally:
        os.chdir(old)
        shutil.rmtree(td, ignore_errors=True)


def _is_num(x):
    return isinstance(x, (int, float, np.integer, np.floating)) and not isinstance(x, (bool, np.bool_))


def first_diff(a, b, path="$"):
    """First difference between two specification trees, or None.

    tuple == list (YAML has no tuples), dict order is irrelevant, numbers compare by value
    (``1 == 1.0``), bool / None / str compare by type and value.
    """
    if isinstance(a, dict) or isinstance(b, dict):
        if not (isinstance(a, dict) and isinstance(b, dict)):
            return f"{path}: {type(a).__name__} {a!r} vs {type(b).__name__} {b!r}"
        ka, kb = set(a), set(b)
        if ka != kb:
            return f"{path}: keys only before {sorted(map(repr, ka - kb))}, only after {sorted(map(repr, kb - ka))}"
        for k in a:
            d = first_diff(a[k], b[k], f"{path}.{k!r}")
            if d:
                return d
        return None
    if isinstance(a, (list, tuple)) or isinstance(b, (list, tuple)):
        if not (isinstance(a, (list, tuple)) and isinstance(b, (list, tuple))):
            return f"{path}: {type(a).__name__} {a!r} vs {type(b).__name__} {b!r}"
        if len(a) != len(b):
            return f"{path}: length {len(a)} vs {len(b)}: {a!r} vs {b!r}"
        for i, (x, y) in enumerate(zip(a, b)):
            d = first_diff(x, y, f"{path}[{i}]")
            if d:
                return d
        return None
    if _is_num(a) and _is_num(b):
        if a == b or (isinstance(a, float) and isinstance(b, float) and math.isnan(a) and math.isnan(b)):
            return None
        return f"{path}: {a!r} vs {b!r}"
    if type(a) is not type(b) or a != b:
        return f"{path}: {type(a).__name__} {a!r} vs {type(b).__name__} {b!r}"
    return None


def close(a, b, rtol):
    """Scale-aware scalar comparison; nan == nan, inf exact, None == None."""
    if a is None or b is None:
        return a is None and b is None
    a, b = float(a), float(b)
    if math.isnan(a) or math.isnan(b):
        return math.isnan(a) and math.isnan(b)
    if math.isinf(a) or math.isinf(b):
        return a == b
    return abs(a - b) <= rtol * max(abs(a), abs(b))


def arrays_close(a, b, rtol):
    a, b = np.asarray(a, dtype=float), np.asarray(b, dtype=float)
    if a.shape != b.shape:
        return False
    with np.errstate(invalid="ignore"):
        return bool(np.all((np.abs(a - b) <= rtol * np.maximum(np.abs(a), np.abs(b))) | (np.isnan(a) & np.isnan(b)) | (a == b)))


def _first_array_diff(a, b, rtol, columns):
    if a.shape != b.shape:
        return f"shape {a.shape} vs {b.shape}"
    for idx in np.ndindex(a.shape):
        if not close(a[idx], b[idx], rtol):
            return f"record {idx[0]}, {columns[idx[-1]] if a.ndim == 2 else idx}: {a[idx]!r} vs {b[idx]!r}"
    return "?"


def parameters_diff(p0, p1, rtol=RTOL_TEXT):
    l0, l1 = list(p0.labels), list(p1.labels)
    if l0 != l1:
        return f"labels {l0} vs {l1}"
    for lbl in l0:
        a, b = p0.get(lbl), p1.get(lbl)
        for attr in ("value", "minimum", "maximum", "standard_error"):
            if not close(getattr(a, attr), getattr(b, attr), rtol):
                return f"{lbl}.{attr}: {getattr(a, attr)!r} vs {getattr(b, attr)!r}"
        for attr in ("vary", "non_negative"):
            if bool(getattr(a, attr)) != bool(getattr(b, attr)):
                return f"{lbl}.{attr}: {getattr(a, attr)!r} vs {getattr(b, attr)!r}"
        if (a.expression or None) != (b.expression or None):
            return f"{lbl}.expression: {a.expression!r} vs {b.expression!r}"
    return None


def dataset_diff(a, b, bitwise=False):
    """a: expected, b: loaded.  None or a message.  ``equals`` + same dtypes (+ bit patterns)."""
    va, vb = sorted(map(str, a.variables)), sorted(map(str, b.variables))
    if va != vb:
        return f"variables {va} vs {vb}"
    for v in a.variables:
        if a[v].dims != b[v].dims:
            return f"{v}: dims {a[v].dims} vs {b[v].dims}"
        if a[v].dtype != b[v].dtype and not (a[v].dtype.kind in "US" and b[v].dtype.kind in "US"):
            return f"{v}: dtype {a[v].dtype} vs {b[v].dtype}"
        if a[v].dtype.kind in "US" and a[v].dtype != b[v].dtype:
            return f"{v}: dtype {a[v].dtype} vs {b[v].dtype}"
        if bitwise and a[v].dtype.kind == "f":
            if np.ascontiguousarray(a[v].values).tobytes() != np.ascontiguousarray(b[v].values).tobytes():
                return f"{v}: bit patterns differ"
    if not a.equals(b):
        return "xarray.Dataset.equals is False"
    return None


def yml_paths(yml_file):
    """All file references of a result.yml / scheme.yml (parsed with ruamel directly, not with glotaran)."""
    from ruamel.yaml import YAML

    spec = YAML(typ="safe").load(Path(yml_file).read_text())
    out = []
    for key in ("scheme", "model", "parameters", "initial_parameters", "optimized_parameters", "parameter_history", "optimization_history", "data"):
        if key not in spec:
            continue
        v = spec[key]
        if isinstance(v, dict):
            out += [(f"{key}.{k}", p) for k, p in v.items()]
        elif isinstance(v, list):
            out += [(f"{key}[{i}]", p) for i, p in enumerate(v)]
        else:
            out.append((key, v))
    return out


def check_paths(yml_file, folder, clause):
    folder = Path(folder).resolve()
    refs = yml_paths(yml_file)
    check(len(refs) >= 3, clause, lambda: f"{yml_file}: no file references found: {refs}")
    for key, p in refs:
        check(isinstance(p, str), clause, lambda: f"{Path(yml_file).name}:{key} is not a path string: {p!r}")
        check(not Path(p).is_absolute() and not p.startswith("~"), clause, lambda: f"{Path(yml_file).name}:{key} = {p!r} is absolute")
        target = (folder / p).resolve()
        check(folder in target.parents, clause, lambda: f"{Path(yml_file).name}:{key} = {p!r} points outside the folder")
        check(target.is_file(), clause, lambda: f"{Path(yml_file).name}:{key} = {p!r} does not exist in the folder (files: {sorted(os.listdir(folder))})")


def scalar_fields(obj):
    """Persisted plain fields of a dataclass: not excluded from the dict and not file-loadable."""
    return [f.name for f in dataclasses.fields(obj) if "exclude_from_dict" not in f.metadata and "file_loader" not in f.metadata]


# ------------------------------------------------------------------------------------------------
# sub-check 1: model (and scheme) yml round trip, identical objective


@st.composite
def model_cases(draw):
    case = draw(G.model_cases())
    case["scheme_options"] = {
        "clp_link_tolerance": draw(st.sampled_from([0.0, 0.5, 1e-05])),
        "clp_link_method": draw(st.sampled_from(["nearest", "backward", "forward"])),
        "maximum_number_function_evaluations": draw(st.sampled_from([None, 1, 25])),
        "add_svd": draw(st.booleans()),
        "ftol": draw(st.sampled_from([1e-8, 1e-10, 0.001])),
        "gtol": draw(st.sampled_from([1e-8, 1e-12])),
        "xtol": draw(st.sampled_from([1e-8, 1e-05])),
        "optimization_method": draw(st.sampled_from(["TrustRegionReflection", "Dogbox", "Levenberg-Marquardt"])),
    }
    return case


def _objective(model, params, data):
    from glotaran.optimization.optimize import optimize
    from glotaran.project import Scheme

    scheme = Scheme(model, params, data, maximum_number_function_evaluations=1, add_svd=False)
    res = optimize(scheme, verbose=False, raise_exception=True)
    resid = {lbl: np.asarray(ds.residual.transpose(*sorted(map(str, ds.residual.dims))).values) for lbl, ds in res.data.items()}
    pen = [np.asarray(p, dtype=float).ravel() for p in (res.additional_penalty or [])]
    return float(res.cost), resid, pen


def prop_model(case):
    from glotaran.io import load_model
    from glotaran.io import load_scheme
    from glotaran.io import save_dataset
    from glotaran.io import save_model
    from glotaran.io import save_parameters
    from glotaran.io import save_scheme
    from glotaran.project import Scheme

    spec, plist, data, info = G.build(case)
    with sandbox() as td:
        model = G.make_model(spec)
        params = G.make_parameters(plist)
        if not model.valid(params):
            raise Discard("generated model invalid")
        d0 = model.as_dict()
        relative = case["seed"] % 2 == 0
        mpath = Path("model.yml") if relative else td / "model.yml"
        with expect_ok("model.save"):
            save_model(model, mpath)
        with expect_ok("model.load"):
            loaded = load_model(mpath)
        check(first_diff(d0, model.as_dict()) is None, "model.save_mutates", lambda: first_diff(d0, model.as_dict()))
        d1 = loaded.as_dict()
        diff = first_diff(d0, d1)
        check(diff is None, "model.spec_equal", lambda: f"as_dict() differs after save_model/load_model at {diff}")

        # --- scheme round trip (model, parameters and data saved next to it) ---------------------------
        opts = case["scheme_options"]
        with expect_ok("model.scheme_prepare"):
            save_parameters(params, td / "parameters.csv")
            (td / "data").mkdir()
            for lbl, ds in data.items():
                save_dataset(ds, td / "data" / f"{lbl}.nc")
        failed_save = False
        if case["seed"] % 3 == 0:
            # a write that fails inside the io plugin (an attribute netCDF cannot store) writes nothing: the dataset still lives
            # in the file it was saved to, and that is what the scheme file must reference
            lbl0 = sorted(data)[0]
            data[lbl0].attrs["unstorable"] = {"nested": object()}
            try:
                save_dataset(data[lbl0], td / "data" / "elsewhere.nc")
            except Exception:  # noqa: BLE001
                failed_save = not (td / "data" / "elsewhere.nc").exists()
            del data[lbl0].attrs["unstorable"]
        scheme = Scheme(model, params, data, **opts)
        spath = Path("scheme.yml") if relative else td / "scheme.yml"
        with expect_ok("model.scheme_save"):
            save_scheme(scheme, spath)
        check_paths(td / "scheme.yml", td, "model.scheme_paths")
        os.chdir(tempfile.gettempdir())
        with expect_ok("model.scheme_load"):
            s2 = load_scheme(td / "scheme.yml")
        os.chdir(td)
        for name in scalar_fields(scheme):
            d = first_diff(getattr(scheme, name), getattr(s2, name), name)
            check(d is None, "model.scheme_options", lambda: f"scheme field differs after save_scheme/load_scheme: {d}")
        d = first_diff(d0, s2.model.as_dict())
        check(d is None, "model.scheme_model", lambda: f"model of the loaded scheme differs at {d}")
        d = parameters_diff(params, s2.parameters)
        check(d is None, "model.scheme_parameters", lambda: f"parameters of the loaded scheme differ: {d}")
        d = parameters_diff(params, s2.parameters, RTOL_TEXT_STRICT)
        check(d is None, "model.scheme_float_precision", lambda: f"parameters of the loaded scheme differ by more than 1e-13: {d}")
        check(sorted(s2.data) == sorted(data), "model.scheme_data", lambda: f"dataset labels {sorted(s2.data)} vs {sorted(data)}")
        for lbl in data:
            d = dataset_diff(data[lbl], s2.data[lbl], bitwise=True)
            check(d is None, "model.scheme_data", lambda: f"dataset {lbl} of the loaded scheme: {d}")

        # --- identical objective ---------------------------------------------------------------------
        try:
            c0, r0, p0 = _objective(model, params, data)
        except Exception as e:  # noqa: BLE001  (not a C17 matter: the original must be evaluable)
            raise Discard(f"original model not evaluable: {type(e).__name__} {str(e)[:60]} @ {innermost_repo_frame(e)}") from e
        if not np.isfinite(c0):
            raise Discard("original objective not finite")
        try:
            with expect_ok("model.reloaded_evaluable"):
                c1, r1, p1 = _objective(loaded, params, data)
        except Violation as v:
            if "interval_item.py:applies" in v.message:
                raise Violation("model.reloaded_interval_applies", v.message) from v
            raise
        check(close(c0, c1, RTOL_OBJ), "model.objective_equal", lambda: f"cost {c0!r} (original) vs {c1!r} (reloaded)")
        for lbl in r0:
            sc = np.abs(r0[lbl]).max()
            check(
                r0[lbl].shape == r1[lbl].shape and np.abs(r0[lbl] - r1[lbl]).max() <= RTOL_OBJ * sc,
                "model.objective_equal",
                lambda: f"residual of {lbl} differs by {np.abs(r0[lbl] - r1[lbl]).max():.3e} (scale {sc:.3e})",
            )
        check(len(p0) == len(p1) and all(arrays_close(a, b, RTOL_OBJ) for a, b in zip(p0, p1)), "model.objective_equal", lambda: f"additional penalty {p0} vs {p1}")

    tags = [
        f"labels-{case['label_scheme']}",
        f"irf-{(case['irf'] or {}).get('type')}",
        f"groups-{max(1, info['groups'])}",
        "full-model" if info["full"] else "clp-model",
        "tuple-interval" if info["tuple_interval"] else ("interval-list" if info["any_interval"] else "no-interval"),
    ]
    for k in ("clp_constraints", "clp_relations", "clp_penalties", "weights"):
        if k in spec:
            tags.append(k)
    if failed_save:
        tags.append("after_failed_save_dataset")
    for mc in spec["megacomplex"].values():
        tags.append("mc-" + mc["type"])
    # non-trivial: tuple-keyed K-matrix (always) + interval + unset optional (always: e.g. scale / irf fields)
    return {"nontrivial": bool(info["any_interval"]), "tags": tags}


# ------------------------------------------------------------------------------------------------
# sub-check 2: result round trip

DATA_FILTERS = [None, ["fitted_data", "residual"], ["data", "fitted_data"], ["clp"]]
RESULT_KINDS = [
    {"kind": "table", "n_datasets": 1, "weights": "none", "nnls": False, "link": False, "verbose": True},
    {"kind": "decay", "n_datasets": 2, "weights": "model", "nnls": False, "link": True, "verbose": True},
    {"kind": "table", "n_datasets": 2, "weights": "dataset", "nnls": True, "link": False, "verbose": False},
    {"kind": "decay", "n_datasets": 1, "weights": "dataset", "nnls": False, "link": False, "verbose": False},
    {"kind": "table", "n_datasets": 2, "weights": "model", "nnls": False, "link": True, "verbose": True},
    {"kind": "decay", "n_datasets": 2, "weights": "none", "nnls": True, "link": False, "verbose": True},
]


def result_cases(tier):
    out = []
    i = 0
    reps = 1 if tier == "quick" else 12
    for rep in range(reps):
        for df in range(len(DATA_FILTERS)):
            for pf in ("csv", "tsv"):
                for report in (True, False):
                    for target in ("abs", "rel"):
                        for path_kind in ("file", "folder"):
                            kinds = [RESULT_KINDS[(i + rep) % len(RESULT_KINDS)]] if tier == "quick" else [RESULT_KINDS[(i + rep) % len(RESULT_KINDS)], RESULT_KINDS[(i + rep + 3) % len(RESULT_KINDS)]]
                            for k in kinds:
                                out.append(
                                    {
                                        **k,
                                        "seed": 1000 * rep + i,
                                        "nfev": 1 + (i + rep) % 4,
                                        "options": {"data_filter": DATA_FILTERS[df], "data_format": "nc", "parameter_format": pf, "report": report},
                                        "target": target,
                                        "path_kind": path_kind,
                                        "presaved": (i // 3 + rep) % 3 == 0,
                                        # the initial parameters carry standard errors (as when they were read from the
                                        # optimized_parameters file of an earlier run)
                                        "init_stderr": (i + i // 8 + rep) % 3 == 0,
                                        # the scheme was itself loaded from a project folder elsewhere (which is gone when the result is loaded)
                                        "scheme_from_file": (i + i // 4 + rep) % 4 == 1,
                                    }
                                )
                            i += 1
    return out


def set_standard_errors(params, seed):
    """Give every free parameter a standard error (own rng stream: the data of the case do not change)."""
    rng = np.random.default_rng([int(seed), 17])
    for p in params.all():
        if p.vary and p.expression is None:
            p.standard_error = float(abs(p.value) * rng.uniform(0.01, 0.3) + 1e-3)


def build_result_scheme(case):
    import xarray as xr

    from glotaran.project import Scheme
    from vlib import testmc

    rng = np.random.default_rng(case["seed"])
    labels = ["d1", "ds_2"][: case["n_datasets"]]
    groups = {"default": {"residual_function": "non_negative_least_squares" if case["nnls"] else "variable_projection", "link_clp": bool(case["link"])}}
    g_axis = np.array([1.0, 2.5, 3.0, 4.75])
    data = {}
    if case["kind"] == "table":
        spec = {
            "dataset_groups": groups,
            "megacomplex": {"m": {"type": "verif-table", "labels": ["a", "b"], "rates": ["r.1", "r.2"], "shape": "exp"}},
            "dataset": {lbl: {"megacomplex": ["m"]} for lbl in labels},
        }
        if case["weights"] == "model":
            spec["weights"] = [{"datasets": labels[:1], "global_interval": (2, 4), "value": 0.5}]
        model, params = testmc.make_model(spec, {"r": [0.4 + 0.1 * rng.uniform(), 1.3]})
        dims = ("model", "global")
        rates = [0.45, 1.2]
    else:
        spec = {
            "dataset_groups": groups,
            "megacomplex": {"dec": {"type": "decay", "k_matrix": ["km1"]}},
            "k_matrix": {"km1": {"matrix": {("s2", "s1"): "k.1", ("s2", "s2"): "k.2"}}},
            "initial_concentration": {"ic": {"compartments": ["s1", "s2"], "parameters": ["ic.1", "ic.2"]}},
            "irf": {"irf1": {"type": "gaussian", "center": "irf.center", "width": "irf.width"}},
            "clp_constraints": [{"type": "zero", "target": "s1", "interval": [(4, 5)]}],
            "dataset": {lbl: {"megacomplex": ["dec"], "initial_concentration": "ic", "irf": "irf1"} for lbl in labels},
        }
        if case["weights"] == "model":
            spec["weights"] = [{"datasets": labels[:1], "global_interval": (2, 4), "model_interval": (0, 1), "value": 0.5}]
        model = G.make_model(spec)
        params = G.make_parameters(
            [
                {"label": "k.1", "value": 0.5 + 0.1 * rng.uniform()},
                # a slow component (ns lifetime on a ps axis): full-precision fixed-notation repr with leading zeros
                {"label": "k.2", "value": 0.0002 + 0.0007 * rng.uniform(), "minimum": 0.0, "maximum": 5.0},
                {"label": "ic.1", "value": 1.0, "vary": False},
                {"label": "ic.2", "value": 0.0, "vary": False},
                {"label": "irf.center", "value": 0.3},
                {"label": "irf.width", "value": 0.1, "non_negative": True},
            ]
        )
        dims = ("time", "spectral")
        rates = [0.55, 0.2]
    if case.get("init_stderr"):
        set_standard_errors(params, case["seed"])
    for j, lbl in enumerate(labels):
        nt = 14 + 3 * j
        t = np.linspace(-0.5, 4.5, nt)
        y = np.exp(-np.outer(np.clip(t, 0, None), rates)) @ rng.uniform(0.2, 1, (2, g_axis.size)) + 0.02 * rng.standard_normal((nt, g_axis.size))
        ds = xr.DataArray(y, coords=[(dims[0], t), (dims[1], g_axis.copy())]).to_dataset(name="data")
        if case["weights"] == "dataset":
            ds["weight"] = (dims, 0.5 + rng.uniform(0, 1, y.shape))
        data[lbl] = ds
    return Scheme(model, params, data, maximum_number_function_evaluations=case["nfev"], clp_link_tolerance=0.25 if case["link"] else 0.0)


def compare_result(orig, expect_data, loaded, suffix="", prefix="result"):
    """orig: result that was saved; expect_data: {label: dataset expected on disk}; loaded: load_result(...)."""
    _compare_result(orig, expect_data, loaded, suffix, RTOL_TEXT, False, prefix)
    _compare_result(orig, expect_data, loaded, suffix, RTOL_TEXT_STRICT, True, prefix)


def _compare_result(orig, expect_data, loaded, suffix, rtol, strict, prefix):
    def cl(name):
        return prefix + "." + ("float_precision" if strict else name) + suffix

    for name in ("initial_parameters", "optimized_parameters"):
        d = parameters_diff(getattr(orig, name), getattr(loaded, name), rtol)
        check(d is None, cl("parameters"), lambda: f"{name}: {d}")
    h0, h1 = orig.parameter_history, loaded.parameter_history
    check(
        list(map(str, h0.parameter_labels)) == list(map(str, h1.parameter_labels)) and h0.number_of_records == h1.number_of_records,
        cl("parameter_history"),
        lambda: f"parameter_history: labels {list(h0.parameter_labels)} x {h0.number_of_records} records vs {list(h1.parameter_labels)} x {h1.number_of_records}",
    )
    a0, a1 = np.array(h0.parameters, dtype=float), np.array(h1.parameters, dtype=float)
    check(arrays_close(a0, a1, rtol), cl("parameter_history"), lambda: "parameter_history: " + _first_array_diff(a0, a1, rtol, list(map(str, h0.parameter_labels))))
    o0, o1 = orig.optimization_history.data, loaded.optimization_history.data
    check(
        list(o0.columns) == list(o1.columns) and o0.index.name == o1.index.name and list(o0.index) == list(o1.index) and arrays_close(o0.values, o1.values, rtol),
        cl("optimization_history"),
        lambda: f"{o0!r}\nvs\n{o1!r}",
    )
    for name in scalar_fields(orig):
        a, b = getattr(orig, name), getattr(loaded, name)
        if _is_num(a) and _is_num(b) and (isinstance(a, (float, np.floating)) or isinstance(b, (float, np.floating))):
            ok, d = close(a, b, 0.0), f"{name}: {a!r} vs {b!r}"
        else:
            d = first_diff(a, b, name)
            ok = d is None
        check(ok, prefix + ".statistics" + suffix, lambda: f"persisted field differs after load_result: {d}")
    for name in scalar_fields(orig.scheme):
        d = first_diff(getattr(orig.scheme, name), getattr(loaded.scheme, name), name)
        check(d is None, prefix + ".scheme_options" + suffix, lambda: f"scheme field differs after load_result: {d}")
    d = first_diff(orig.scheme.model.as_dict(), loaded.scheme.model.as_dict())
    check(d is None, prefix + ".scheme_model" + suffix, lambda: f"model differs at {d}")
    d = parameters_diff(orig.scheme.parameters, loaded.scheme.parameters, rtol)
    check(d is None, cl("parameters"), lambda: f"scheme.parameters: {d}")
    if strict:
        return
    check(sorted(loaded.data) == sorted(expect_data), prefix + ".datasets" + suffix, lambda: f"labels {sorted(loaded.data)} vs {sorted(expect_data)}")
    for lbl, exp in expect_data.items():
        d = dataset_diff(exp, loaded.data[lbl], bitwise=True)
        check(d is None, prefix + ".datasets" + suffix, lambda: f"dataset {lbl}: {d}")


def prop_result(case):
    from glotaran.io import SavingOptions
    from glotaran.io import load_result
    from glotaran.io import save_result
    from glotaran.optimization.optimize import optimize

    from vlib import env

    scheme = build_result_scheme(case)
    hostile = env.hostile_for(case)
    with sandbox() as td, env.hostile_environment(hostile):
        if case.get("scheme_from_file"):
            from glotaran.io import load_scheme
            from glotaran.io import save_dataset
            from glotaran.io import save_model
            from glotaran.io import save_parameters
            from glotaran.io import save_scheme

            proj = td / "project_elsewhere"
            proj.mkdir()
            with expect_ok("result.scheme_from_file_prepare"):
                save_model(scheme.model, proj / "m.yml")
                save_parameters(scheme.parameters, proj / "p.csv")
                for lbl, ds in scheme.data.items():
                    save_dataset(ds, proj / f"{lbl}.nc")
                save_scheme(scheme, proj / "s.yml")
                scheme = load_scheme(proj / "s.yml")
        try:
            with contextlib.redirect_stdout(io.StringIO()):
                result = optimize(scheme, verbose=case["verbose"], raise_exception=True)
        except Exception as e:  # noqa: BLE001
            raise Discard(f"optimisation failed: {type(e).__name__}") from e
        options = SavingOptions(**case["options"])
        if case["presaved"]:
            # the result was saved before (full, elsewhere): the save under test must not refer to those files
            with expect_ok("result.save"):
                save_result(result, td / "earlier" / "result.yml")
        rel_folder = Path("out") / "run_1"
        folder = rel_folder if case["target"] == "rel" else td / rel_folder
        target = folder / "result.yml" if case["path_kind"] == "file" else folder
        kwargs = {} if case["path_kind"] == "file" else {"format_name": "yml"}
        vars_before = {lbl: sorted(map(str, ds.data_vars)) for lbl, ds in result.data.items()}
        with expect_ok("result.save"):
            paths = save_result(result, target, saving_options=options, **kwargs)
        vars_after = {lbl: sorted(map(str, ds.data_vars)) for lbl, ds in result.data.items()}
        check(vars_before == vars_after, "result.saving_changed_the_result_in_memory",
              lambda: f"data variables of the caller's Result before / after save_result(data_filter={options.data_filter}): "
                      f"{ {k: len(v) for k, v in vars_before.items()} } / { {k: len(v) for k, v in vars_after.items()} }")
        abs_folder = td / rel_folder
        for p in paths:
            check((Path(p) if Path(p).is_absolute() else td / p).is_file(), "result.save_paths", lambda: f"save_result reports {p!r} which does not exist")
        check((abs_folder / "result.md").is_file() == options.report, "result.report", lambda: f"report={options.report} but result.md exists: {(abs_folder / 'result.md').is_file()}")
        flt = options.data_filter
        expect_data = {lbl: (ds if flt is None else ds[flt]) for lbl, ds in result.data.items()}

        # every file reference relative to and inside the result folder
        pclause = "result.paths" if flt is None else "result.paths_filtered"
        check_paths(abs_folder / "result.yml", abs_folder, pclause)
        check_paths(abs_folder / "scheme.yml", abs_folder, pclause)

        with expect_ok("result.load"):
            loaded = load_result(target, **kwargs)
        compare_result(result, expect_data, loaded)

        # move the folder, change the cwd, load again
        new_parent = td / "moved" / "deeper"
        new_parent.mkdir(parents=True)
        shutil.move(str(abs_folder), str(new_parent / "renamed"))
        if case["presaved"]:
            shutil.rmtree(td / "earlier")
        if case.get("scheme_from_file"):
            shutil.rmtree(td / "project_elsewhere")
        other = td / "elsewhere"
        other.mkdir()
        os.chdir(other)
        new_folder = new_parent / "renamed"
        new_target = new_folder / "result.yml" if case["path_kind"] == "file" else new_folder
        if case["target"] == "rel":
            new_target = Path(os.path.relpath(new_target, other))
        with expect_ok("result.load_moved"):
            moved = load_result(new_target, **kwargs)
        compare_result(result, expect_data, moved, suffix="_moved")
        n_hist = len(result.optimization_history.data)
    tags = [case["kind"], f"datasets-{case['n_datasets']}", f"weights-{case['weights']}", f"filter-{'none' if flt is None else '+'.join(flt)}",
            f"params-{case['options']['parameter_format']}", f"report-{case['options']['report']}", f"target-{case['target']}-{case['path_kind']}",
            "presaved" if case["presaved"] else "fresh", "init-stderr" if case.get("init_stderr") else "init-no-stderr", "scheme-loaded-from-file" if case.get("scheme_from_file") else "scheme-in-memory", *(["changed_print_and_display_options"] if hostile else []), "history-empty" if n_hist == 0 else "history-nonempty"]
    return {"nontrivial": case["n_datasets"] >= 2 and case["weights"] != "none", "tags": tags}


# ------------------------------------------------------------------------------------------------
# sub-check 2b: histories of results and result folders
#
# The statement is about *every* result and every target folder, so also about a result that was itself loaded from
# a folder (and is saved to another one), a result of a continued run (``optimize(previous.get_scheme())``: the initial
# parameters carry standard errors), a result that is saved several times (to several folders, or over an earlier
# save), and folders that are moved / whose sibling folders are removed between the calls.  Every save is decided at
# once (references relative to and inside the folder, loads to an equal result) and every folder that is still alive
# at the end of the history is decided once more after it was moved into an otherwise empty tree.

HIST_FILTERS = [None, None, ["fitted_data", "residual"], ["data", "fitted_data"]]
HIST_MAX_STEPS = 9
# Finding D18e (unrepaired in /repo at the time of writing; proposed_fixes/D18e.diff + D18e-witness-*.json): a *loaded*
# result that is saved with another parameter_format than the one it was loaded from gets a result.yml whose
# ``initial_parameters`` entry still names the file of the old format (``result.initial_parameters.source_path`` is
# never updated; the folder plugin writes ``result.scheme.parameters``, another object after loading).  Until that is
# repaired the generator keeps the format for such saves ("keep_format"); the interpreter understands both, so the
# witness (keep_format: false) replays.  Set to True after the repair (quiet with the proposed fix applied).
HIST_REFORMAT_RELOADED = True
ORIGIN_SUFFIX = {"fresh": "", "continued": "_continued", "reloaded": "_reloaded"}


@st.composite
def history_cases(draw):
    base = dict(draw(st.sampled_from(RESULT_KINDS)))
    base.update(seed=draw(st.integers(0, 10**6)), nfev=draw(st.integers(1, 3)), init_stderr=draw(st.booleans()))
    # addressing is relative to what exists when the step runs (every step of every history applies):
    # "h" counts handles back from the newest one, "slot" indexes the live folders (modulo their number)
    slot, handle = st.integers(0, 3), st.integers(0, 5)
    save = st.fixed_dictionaries(
        {
            "op": st.just("save"),
            "h": handle,
            "slot": slot,
            "overwrite": st.sampled_from([False, False, False, True]),
            "keep_format": st.booleans() if HIST_REFORMAT_RELOADED else st.just(True),
            "options": st.fixed_dictionaries(
                {"data_filter": st.sampled_from(HIST_FILTERS), "data_format": st.just("nc"), "parameter_format": st.sampled_from(["csv", "csv", "tsv"]), "report": st.booleans()}
            ),
            "target": st.sampled_from(["abs", "rel"]),
            "path_kind": st.sampled_from(["file", "folder"]),
        }
    )
    load = st.fixed_dictionaries({"op": st.just("load"), "slot": slot, "target": st.sampled_from(["abs", "rel"])})
    cont = st.fixed_dictionaries({"op": st.just("continue"), "h": handle, "nfev": st.integers(1, 3)})
    move = st.fixed_dictionaries({"op": st.just("move"), "slot": slot, "depth": st.integers(0, 2)})
    remove = st.fixed_dictionaries({"op": st.just("remove"), "slot": slot})
    chdir = st.fixed_dictionaries({"op": st.just("chdir"), "where": st.integers(0, 2)})
    steps = draw(st.lists(st.one_of(save, save, save, save, load, load, load, cont, cont, move, move, remove, chdir), min_size=5, max_size=HIST_MAX_STEPS))
    return {"base": base, "steps": steps}


def _inside(path, folder):
    path, folder = Path(path).resolve(), Path(folder).resolve()
    return path == folder or folder in path.parents


def prop_history(case):
    from dataclasses import replace

    from glotaran.io import SavingOptions
    from glotaran.io import load_result
    from glotaran.io import save_result
    from glotaran.optimization.optimize import optimize

    base = case["base"]
    scheme = build_result_scheme(base)
    tags = set()
    with sandbox() as td:
        td = td.resolve()
        os.chdir(td)

        def run(sch):
            with contextlib.redirect_stdout(io.StringIO()):
                return optimize(sch, verbose=base["verbose"], raise_exception=True)

        try:
            first = run(scheme)
        except Exception as e:  # noqa: BLE001
            raise Discard(f"optimisation failed: {type(e).__name__}") from e
        handles = [{"result": first, "origin": "fresh"}]
        slots = {}  # slot id -> {"path": absolute folder, "result": the result saved there, "data": expected datasets, "kind", "sfx"}
        counter = 0

        def as_target(folder, target, path_kind):
            folder = Path(os.path.relpath(folder, os.getcwd())) if target == "rel" else Path(folder)
            return (folder / "result.yml", {}) if path_kind == "file" else (folder, {"format_name": "yml"})

        def leave(folder):
            if _inside(os.getcwd(), folder):
                os.chdir(td)

        def decide(slot, when, target="abs"):
            """The folder of the slot is self contained and loads to the result that was saved there."""
            s = slots[slot]
            sfx = s["sfx"] + when
            check_paths(s["path"] / "result.yml", s["path"], "history.paths" + sfx)
            check_paths(s["path"] / "scheme.yml", s["path"], "history.paths" + sfx)
            tgt, kwargs = as_target(s["path"], target, s["kind"])
            with expect_ok("history.load" + sfx):
                loaded = load_result(tgt, **kwargs)
            compare_result(s["result"], s["data"], loaded, suffix=sfx, prefix="history")
            return loaded

        def pick_handle(step):
            return handles[-1 - step["h"] % len(handles)]

        def pick_slot(step):
            if "slot_id" in step:
                return step["slot_id"]
            live = sorted(slots)
            return live[step["slot"] % len(live)] if live else None

        def run_step(step):
            nonlocal counter
            op = step["op"]
            if op == "save":
                h = pick_handle(step)
                result = h["result"]
                opts = dict(step["options"])
                if step.get("keep_format", False) and h["origin"] == "reloaded":
                    opts["parameter_format"] = h["pformat"]
                flt = opts["data_filter"]
                if flt is not None and not all(set(flt) <= set(map(str, ds.data_vars)) for ds in result.data.values()):
                    flt = opts["data_filter"] = None  # a loaded (filtered) result does not have these variables
                overwrite = bool(step["overwrite"] and slots)
                counter += 1
                if overwrite:
                    slot = pick_slot(step)
                    folder = slots[slot]["path"]
                else:
                    slot = counter
                    folder = td / f"w{counter}" / "res"
                target, kwargs = as_target(folder, step["target"], step["path_kind"])
                if overwrite:
                    kwargs = {**kwargs, "allow_overwrite": True}
                sfx = ORIGIN_SUFFIX[h["origin"]]
                with expect_ok("history.save" + sfx):
                    paths = save_result(result, target, saving_options=SavingOptions(**opts), **kwargs)
                for p in paths:
                    check((Path(p) if Path(p).is_absolute() else Path(os.getcwd()) / p).is_file(), "history.save_paths", lambda: f"save_result reports {p!r} which does not exist")
                slots[slot] = {
                    "path": folder,
                    "result": result,
                    "data": {lbl: (ds if flt is None else ds[flt]) for lbl, ds in result.data.items()},
                    "kind": step["path_kind"],
                    "sfx": sfx,
                    "pformat": opts["parameter_format"],
                }
                decide(slot, "", step["target"])
                tags.update({f"save-{h['origin']}", "overwrite" if overwrite else "new-folder", f"params-{opts['parameter_format']}", f"filter-{'none' if flt is None else '+'.join(flt)}"})
            elif op == "load":
                if not slots:
                    return
                slot = pick_slot(step)
                loaded = decide(slot, "_later", step["target"])
                handles.append({"result": loaded, "origin": "reloaded", "pformat": slots[slot]["pformat"]})
                tags.add("load")
            elif op == "continue":
                h = pick_handle(step)
                try:
                    nxt = run(replace(h["result"].get_scheme(), maximum_number_function_evaluations=step["nfev"]))
                except Exception:  # noqa: BLE001  (whether a run can be continued is not a C17 matter)
                    tags.add("continue-failed")
                    return
                handles.append({"result": nxt, "origin": "continued"})
                has_err = any(np.isfinite(p.standard_error) for p in nxt.initial_parameters.all())
                tags.add(f"continue-{h['origin']}" + ("-stderr" if has_err else ""))
            elif op == "move":
                if not slots:
                    return
                s = slots[pick_slot(step)]
                leave(s["path"])
                counter += 1
                new = td.joinpath(f"m{counter}", *["a b", "c"][: step["depth"]], f"res_{counter}")
                new.parent.mkdir(parents=True)
                shutil.move(str(s["path"]), str(new))
                s["path"] = new
                tags.add("move")
            elif op == "remove":
                if not slots:
                    return
                s = slots.pop(pick_slot(step))
                leave(s["path"])
                shutil.rmtree(s["path"])
                tags.add("remove")
            elif op == "chdir":
                where = [td, td / "cwd1", td / "cwd1" / "deep"][step["where"]]
                where.mkdir(parents=True, exist_ok=True)
                os.chdir(where)
                tags.add("chdir")

        for step in case["steps"]:
            run_step(step)

        # closing rule: what is in a surviving folder can be loaded and archived to a new folder (at most two, for the cost)
        for slot in sorted(slots)[:2]:
            run_step({"op": "load", "slot_id": slot, "target": "abs"})
            run_step({"op": "save", "h": 0, "overwrite": False, "keep_format": True, "target": "abs", "path_kind": "file",
                      "options": {"data_filter": None, "data_format": "nc", "parameter_format": slots[slot]["pformat"], "report": False}})

        # every folder that is still alive: moved into an otherwise empty tree, everything else removed
        os.chdir(td)
        final = td / "final"
        final.mkdir()
        for slot, s in slots.items():
            shutil.move(str(s["path"]), str(final / f"s{slot}"))
            s["path"] = final / f"s{slot}"
        for entry in td.iterdir():
            if entry != final:
                shutil.rmtree(entry)
        os.chdir(final)
        for slot in sorted(slots):
            decide(slot, "_moved", "rel")
        n_live = len(slots)
    tags.add(f"live-{n_live}")
    return {"nontrivial": bool(tags & {"save-continued", "save-reloaded"}), "tags": sorted(tags)}


# ------------------------------------------------------------------------------------------------
# sub-check 3: datasets

SPECIALS = [0.0, -0.0, float("nan"), float("inf"), -float("inf"), 5e-324, 2.2250738585072014e-308, 1.7976931348623157e308, -1.7976931348623157e308, 1.0000000000000002, 0.1]


@st.composite
def axis_values(draw, n, kinds=("linspace", "random", "ints", "descending", "tiny", "huge", "repeated", "negative", "milli")):
    kind = draw(st.sampled_from(kinds))
    seed = draw(st.integers(0, 2**32 - 1))
    return {"kind": kind, "seed": seed, "n": n}


def build_axis(a):
    rng = np.random.default_rng(a["seed"])
    n, kind = a["n"], a["kind"]
    if kind == "linspace":
        v = np.linspace(rng.uniform(-5, 5), rng.uniform(6, 800), n)
    elif kind == "random":
        v = np.sort(rng.uniform(-100, 1000, n))
    elif kind == "ints":
        v = np.sort(rng.choice(np.arange(-50, 2000), n, replace=False)).astype(float)
    elif kind == "descending":
        v = np.sort(rng.uniform(0, 1000, n))[::-1].copy()
    elif kind == "tiny":
        v = np.sort(rng.uniform(1, 9, n)) * 1e-9
    elif kind == "huge":
        v = np.sort(rng.uniform(1, 9, n)) * 1e12
    elif kind == "negative":
        v = np.sort(rng.uniform(-1e4, -1e-3, n))
    elif kind == "milli":  # fixed-notation reprs with leading zeros
        v = np.sort(rng.uniform(1e-4, 1e-1, n))
    else:  # repeated values, unsorted
        v = rng.choice(rng.uniform(0, 10, max(1, n // 2)), n)
    return np.asarray(v, dtype=np.float64)


@st.composite
def netcdf_cases(draw):
    ndim = draw(st.sampled_from([1, 2, 2, 2, 3]))
    names = draw(st.sampled_from([["time", "spectral", "pixel"], ["spectral", "time", "x"], ["model", "global", "extra"], ["a b", "c-d", "e.f"]]))[:ndim]
    sizes = [draw(st.one_of(st.integers(1, 6), st.integers(1, 40))) for _ in range(ndim)]
    return {
        "names": names,
        "axes": [draw(axis_values(n)) for n in sizes],
        "seed": draw(st.integers(0, 2**32 - 1)),
        "specials": draw(st.integers(0, 6)),
        "log10_scale": draw(st.sampled_from([0, 0, -200, -12, 9, 250])),
        "extra_var": draw(st.booleans()),
        "coordless_dim": draw(st.booleans()),
        "as_dataarray": draw(st.booleans()),
        "fortran": draw(st.booleans()),
        "relative": draw(st.booleans()),
    }


def prop_netcdf(case):
    import xarray as xr

    from glotaran.io import load_dataset
    from glotaran.io import save_dataset

    rng = np.random.default_rng(case["seed"])
    axes = [build_axis(a) for a in case["axes"]]
    shape = tuple(a.size for a in axes)
    y = rng.standard_normal(shape) * 10.0 ** case["log10_scale"]
    for _ in range(case["specials"]):
        y.flat[rng.integers(0, y.size)] = SPECIALS[rng.integers(0, len(SPECIALS))]
    if case["fortran"]:
        y = np.asfortranarray(y)
    coords = {n: a for n, a in zip(case["names"], axes)}
    if case["coordless_dim"]:
        coords.pop(case["names"][-1])
    da = xr.DataArray(y, dims=case["names"], coords=coords, name="data")
    ds = da.to_dataset()
    if case["extra_var"]:
        ds["weight"] = (tuple(case["names"]), rng.uniform(0, 1, shape))
        ds["trace"] = ((case["names"][0],), rng.standard_normal(shape[0]))
        ds["scalar"] = ((), float(rng.standard_normal()))
    expected = ds.copy(deep=True)
    obj = da if (case["as_dataarray"] and not case["extra_var"]) else ds
    with sandbox() as td:
        path = Path("sub_dir") / "d.nc" if case["relative"] else td / "sub_dir" / "d.nc"
        (td / "sub_dir").mkdir()
        with expect_ok("netcdf.save"):
            save_dataset(obj, path)
        with expect_ok("netcdf.load"):
            loaded = load_dataset(path)
        check(expected.equals(ds), "netcdf.save_mutates", "save_dataset changed the values of the dataset it was given")
        d = dataset_diff(expected, loaded, bitwise=True)
        check(d is None, "netcdf.bit_equal", lambda: f"{d}")
        check(Path(loaded.attrs.get("source_path", "")) == Path(path), "netcdf.source_path", lambda: f"source_path {loaded.attrs.get('source_path')!r} vs {str(path)!r}")
    nonfinite = bool(np.any(~np.isfinite(y)))
    return {"nontrivial": len(set(shape)) > 1 or len(shape) != 2, "tags": [f"ndim-{len(shape)}", "nonfinite" if nonfinite else "finite", *(f"axis-{a['kind']}" for a in case["axes"]),
                                                                          "dataarray" if obj is da else "dataset"]}


@st.composite
def ascii_cases(draw):
    nt = draw(st.integers(1, 12))
    ns = draw(st.integers(1, 12))
    return {
        "format": draw(st.sampled_from(["time_explicit", "wavelength_explicit"])),
        "time": draw(axis_values(nt, kinds=("linspace", "random", "ints", "tiny", "huge", "negative", "milli"))),
        "spectral": draw(axis_values(ns, kinds=("linspace", "random", "ints", "descending", "huge"))),
        "seed": draw(st.integers(0, 2**32 - 1)),
        "log10_scale": draw(st.sampled_from([0, 0, -100, -7, 5, 100])),
        "dims_order": draw(st.sampled_from(["time,spectral", "time,spectral", "time,spectral", "spectral,time"])),
        "input": draw(st.sampled_from(["dataarray", "dataset"])),
        "prepare": draw(st.booleans()),
        "comment": draw(st.sampled_from(["", "measured 2024", "two words\nsecond line"])),
        # detector counts / single precision files: the values are the same numbers, the axes stay what they are
        "data_dtype": draw(st.sampled_from(["float64", "float64", "float64", "int64", "int32", "float32"])),
    }


def prop_ascii(case):
    import xarray as xr

    from glotaran.builtin.io.ascii.wavelength_time_explicit_file import DataFileType
    from glotaran.io import load_dataset
    from glotaran.io import save_dataset

    rng = np.random.default_rng(case["seed"])
    t, s = build_axis(case["time"]), build_axis(case["spectral"])
    y = rng.standard_normal((t.size, s.size)) * 10.0 ** case["log10_scale"]
    y.flat[rng.integers(0, y.size)] = 0.0
    dt = case.get("data_dtype", "float64")
    if dt in ("int64", "int32"):
        y = np.round(rng.standard_normal((t.size, s.size)) * 1000.0)
        stored = y.astype(dt)
    elif dt == "float32" and abs(case["log10_scale"]) < 30:
        stored = y.astype(np.float32)
        y = stored.astype(np.float64)
    else:
        dt, stored = "float64", y.copy()
    da = xr.DataArray(stored, coords=[("time", t.copy()), ("spectral", s.copy())])
    swapped = case["dims_order"] == "spectral,time"
    if swapped:
        da = da.transpose("spectral", "time")
    sfx = "_dims_swapped" if swapped else ""
    obj = da if case["input"] == "dataarray" else da.to_dataset(name="data")
    fmt = DataFileType[case["format"]]
    from vlib import env

    hostile = env.hostile_for(case)
    with sandbox() as td, env.hostile_environment(hostile):
        path = td / "d.ascii"
        kwargs = {"comment": case["comment"]} if case["comment"] else {}
        with expect_ok("ascii.save" + sfx):
            save_dataset(obj, path, format_name="ascii", file_format=fmt, **kwargs)
        with expect_ok("ascii.load" + sfx):
            loaded = load_dataset(path, prepare=case["prepare"])
        check("data" in loaded, "ascii.has_data" + sfx, lambda: f"variables {list(loaded.data_vars)}")
        got = loaded["data"]
        check(set(got.dims) == {"time", "spectral"}, "ascii.dims" + sfx, lambda: f"dims {got.dims}")
        got = got.transpose("time", "spectral")
        gt, gs = np.asarray(got.coords["time"].values), np.asarray(got.coords["spectral"].values)
        explicit, secondary = ("time", "spectral") if fmt is DataFileType.time_explicit else ("spectral", "time")
        vals = {"time": (t, gt), "spectral": (s, gs)}
        want, have = vals[explicit]
        check(have.dtype.kind == "f" and have.shape == want.shape and arrays_close(want, have, RTOL_TEXT), "ascii.explicit_axis" + sfx,
              lambda: f"{explicit} axis written {want.tolist()} read back {have.tolist()} (dtype {have.dtype})")
        check(arrays_close(want, have, RTOL_TEXT_STRICT), "ascii.float_precision" + sfx,
              lambda: f"{explicit} axis (written with full precision) {want.tolist()} read back {have.tolist()}")
        want, have = vals[secondary]
        check(have.dtype.kind == "f" and have.shape == want.shape and arrays_close(want, have, RTOL_ASCII), "ascii.secondary_axis" + sfx,
              lambda: f"{secondary} axis written {want.tolist()} read back {have.tolist()} (dtype {have.dtype})")
        check(got.shape == y.shape, "ascii.orientation" + sfx, lambda: f"shape (time, spectral) {got.shape} vs {y.shape}")
        check(arrays_close(y, got.values, RTOL_ASCII), "ascii.values" + sfx, lambda: f"max rel. deviation {np.nanmax(np.abs(got.values - y) / np.maximum(np.abs(y), 1e-300)):.3e}")
    return {"nontrivial": t.size != s.size, "tags": [case["format"], case["dims_order"], f"time-{case['time']['kind']}", f"spectral-{case['spectral']['kind']}", "prepare" if case["prepare"] else "raw", f"data_{dt}"] + (["changed_print_and_display_options"] if hostile else [])}


# ------------------------------------------------------------------------------------------------


def selfcheck():
    """The comparators on hand-made instances."""
    assert first_diff({"a": (1, 2), ("x", "y"): [1.0, None]}, {("x", "y"): (1, None), "a": [1, 2.0]}) is None
    assert first_diff({"a": None}, {"a": "None"}) is not None
    assert first_diff({"a": None}, {"a": "null"}) is not None
    assert first_diff({("s1", "s2"): "k"}, {"(s1, s2)": "k"}) is not None
    assert first_diff([1, 2], [[1, 2]]) is not None
    assert first_diff({"a": True}, {"a": 1}) is not None
    assert first_diff({"a": "1"}, {"a": 1}) is not None
    assert first_diff({"a": float("inf")}, {"a": float("inf")}) is None
    assert close(1.0, 1.0 + 5e-13, RTOL_TEXT) and not close(1.0, 1.0 + 1e-11, RTOL_TEXT)
    assert close(float("nan"), float("nan"), 0) and not close(float("inf"), 1e308, 1e-3) and close(None, None, 0) and not close(None, 1.0, 1)
    assert arrays_close([1.0, np.nan, np.inf, 0.0], [1.0 + 1e-14, np.nan, np.inf, -0.0], 1e-13)
    assert not arrays_close([1.0, 2.0], [1.0, 2.0 + 1e-9], 1e-10) and not arrays_close([1.0], [1.0, 1.0], 1)
    with sandbox() as td:
        (td / "f").mkdir()
        (td / "f" / "a.csv").write_text("x")
        (td / "b.csv").write_text("x")
        for body, ok in (("scheme: a.csv\nmodel: a.csv\ndata:\n  d: a.csv\n", True), ("scheme: ../b.csv\nmodel: a.csv\ndata:\n  d: a.csv\n", False),
                         (f"scheme: {td}/f/a.csv\nmodel: a.csv\ndata:\n  d: a.csv\n", False), ("scheme: a.csv\nmodel: a.csv\ndata:\n  d: missing.nc\n", False)):
            (td / "f" / "s.yml").write_text(body)
            try:
                check_paths(td / "f" / "s.yml", td / "f", "x")
                got = True
            except Violation:
                got = False
            assert got == ok, body


PROPERTY = Property(
    id="C17",
    level="exploration",
    rule=(
        "model: Hypothesis over a model-spec grammar of the built-in megacomplexes (decay with tuple-keyed K-matrices split over 1-2 k_matrix items, "
        "initial concentration, gaussian / multi-gaussian / spectral-gaussian IRF with optional scale, shift, backsweep, baseline, coherent artifact, damped "
        "oscillation, spectral shapes as global megacomplex, zero/only constraints and relations with tuple / list-of-tuple / list-of-list / infinite intervals, "
        "equal-area penalties, weights, 1-3 dataset groups, nested / flat / purely numeric parameter labels, four compartment-label pools) with seeded data; "
        "non-trivial = has an interval item (every model has a tuple-keyed K-matrix and unset optionals). result: enumeration of SavingOptions "
        "(4 data filters x csv/tsv x report) x absolute/relative x file/folder target over 6 kinds of small optimisations (verif-table / decay, 1-2 datasets, "
        "no / dataset / model weights, VP/NNLS, linked or not, empty or non-empty optimisation history, previously saved elsewhere or not, initial parameters with or without standard errors), loaded in place and after "
        "shutil.move + chdir; non-trivial = 2 datasets with weights. history: Hypothesis over step lists (5-9 steps of save to a new folder or over an earlier save with any "
        "SavingOptions / target form, load, continue the run of any handle with get_scheme(), move, remove, chdir; handles and folders addressed relative to what exists) "
        "on the 6 kinds of optimisations, closed by load + archive of up to two surviving folders and a move of all survivors into an otherwise empty tree; every save and "
        "load is decided by the result-folder oracle against the in-memory result that was saved; non-trivial = a loaded or a continued result was saved. netcdf: 1-3 dimensional float64 data with arbitrary finite coordinates and NaN/inf/-0/subnormal/"
        "extreme values; non-trivial = non-square. ascii: time-/wavelength-explicit, 1..12 x 1..12, both dimension orders of the input; non-trivial = non-square."
    ),
    subs=[
        Sub("model", prop=prop_model, strategy=model_cases, budget={"quick": 300, "thorough": 30000}),
        Sub("result", prop=prop_result, enumerate=result_cases, exhaustive=False),
        Sub("history", prop=prop_history, strategy=history_cases, budget={"quick": 96, "thorough": 6000}),
        Sub("netcdf", prop=prop_netcdf, strategy=netcdf_cases, budget={"quick": 300, "thorough": 30000}),
        Sub("ascii", prop=prop_ascii, strategy=ascii_cases, budget={"quick": 300, "thorough": 30000}),
    ],
    assumptions=[
        "ruamel.yaml (safe loader) is trusted to read the path entries of result.yml / scheme.yml; xarray.Dataset.equals and numpy byte comparison are trusted",
        "compartment / item labels are \\w+ words (the only ones the yml model format can express as '(to, from)' keys); the original model must be valid and evaluable (else discarded)",
        "tolerances: objective of the reloaded model 1e-12 relative (cost, residual max-norm, penalties); csv/tsv parameters, histories and the ASCII explicit axis 1e-12 relative "
        "(full repr written; pandas' default C float parser keeps 17 digits including leading zeros: |abs err| < 1e-16 for |x| in [1e-4, 1)); yml statistics exact; netCDF bit-equal; ASCII values and secondary axis 1e-10 relative ('%.10e')",
        "SavingOptions.data_format is 'nc' (its declared Literal); parameter_format csv and tsv",
        "history: whether a run can be continued from a handle is not a C17 matter (failed continue steps are skipped); a data filter naming variables that a loaded "
        "(filtered) result does not have is replaced by no filter; overwriting an earlier save passes allow_overwrite=True and leaves the report clause open (result.md of "
        "the earlier save may remain); a loaded result may be re-saved with another parameter format (D18e, fixed)",
    ],
    selfcheck=selfcheck,
)
