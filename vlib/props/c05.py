"""C05 - Gaussian IRF convolution is exact, for every index of a dispersed or shifted IRF.

Oracle (``vlib/oracle/c05_irf.py``): 60-digit mpmath evaluation of the closed form of the defining
convolution  int_0^inf exp(-k s) N(t-s; mu, sigma) ds  (validated against ``mpmath.quad`` of that
integral in the self-check), summed over the Gaussians with the IRF scales, divided by the sum of the
scales when normalised.  Effective centre/width of index i:  centre - shift_i + sum_j c_j d_i^j,
width + sum_j w_j d_i^j,  d_i = (lambda_i - lambda_c)/100  or  1e3/lambda_i - 1e3/lambda_c,
evaluated in mpmath from the exact values of the float parameters.

Observation points: ``megacomplex.calculate_matrix(filled_dataset_model, global_axis, time_axis)`` of
decay-parallel / decay-sequential / decay megacomplexes (columns = convolution columns @ A, the
A-matrix and the rate order are taken from the megacomplex - they are C04's subject), and the result
variables of a one-evaluation ``optimize()``.
"""

from __future__ import annotations

import math

import numpy as np
from hypothesis import strategies as st

from vlib.core import Discard
from vlib.core import Property
from vlib.core import Sub
from vlib.core import check
from vlib.core import expect_ok
from vlib.gen import c05_cases as gen
from vlib.oracle import c05_irf as orc

EPS = 2.0**-52
RTOL, ATOL_MAX, ATOL_ABS = 1e-11, 1e-13, 1e-300
SQRT2 = math.sqrt(2.0)

_MODEL_CLS = None


def model_cls():
    global _MODEL_CLS
    if _MODEL_CLS is None:
        from glotaran.builtin.megacomplexes.decay import DecayMegacomplex
        from glotaran.builtin.megacomplexes.decay import DecayParallelMegacomplex
        from glotaran.builtin.megacomplexes.decay import DecaySequentialMegacomplex
        from glotaran.model import Model

        _MODEL_CLS = Model.create_class_from_megacomplexes(
            [DecayMegacomplex, DecayParallelMegacomplex, DecaySequentialMegacomplex]
        )
    return _MODEL_CLS


# ------------------------------------------------------------------------------------------
# building glotaran objects from a case


def build(case, normalize, irf_override=None):
    """(model, parameters) for the case; every number goes through a labelled parameter."""
    from glotaran.parameter import Parameters

    mc, irf = case["mc"], irf_override or case["irf"]
    n = len(mc["rates"])
    comps = [f"s{j+1}" for j in range(n)]
    pars = {"k": [[str(j + 1), float(k), {"vary": j == 0, "non-negative": False}] for j, k in enumerate(mc["rates"])]}
    spec = {"dataset": {"d": {"megacomplex": ["mc1"], "irf": "irf1"}}}
    if mc["type"] in ("decay-parallel", "decay-sequential"):
        spec["megacomplex"] = {"mc1": {"type": mc["type"], "compartments": comps, "rates": [f"k.{j+1}" for j in range(n)]}}
    else:
        matrix = {(comps[0], comps[0]): "k.1"} if n == 1 else {(comps[1], comps[0]): "k.1", (comps[1], comps[1]): "k.2"}
        spec["megacomplex"] = {"mc1": {"type": "decay", "k_matrix": ["km"]}}
        spec["k_matrix"] = {"km": {"matrix": matrix}}
        spec["initial_concentration"] = {"j": {"compartments": comps, "parameters": [f"j.{j+1}" for j in range(n)]}}
        spec["dataset"]["d"]["initial_concentration"] = "j"
        pars["j"] = [[str(j + 1), 1.0 if j == 0 else 0.0, {"vary": False, "non-negative": False}] for j in range(n)]

    fixed = {"vary": False, "non-negative": False}
    ip = []

    def reg(name, values):
        labels = []
        for j, v in enumerate(values):
            ip.append([f"{name}{j+1}", float(v), dict(fixed)])
            labels.append(f"irf.{name}{j+1}")
        return labels

    scalar = irf["type"] in ("gaussian", "spectral-gaussian")
    c_l, w_l = reg("c", irf["center"]), reg("w", irf["width"])
    item = {"type": irf["type"], "center": c_l[0] if scalar else c_l, "width": w_l[0] if scalar else w_l, "normalize": bool(normalize)}
    if irf.get("scale") is not None:
        item["scale"] = reg("s", irf["scale"])
    if irf.get("shift") is not None:
        item["shift"] = reg("sh", irf["shift"])
    if irf["type"].startswith("spectral"):
        item["dispersion_center"] = reg("dc", [irf["dispersion_center"]])[0]
        item["center_dispersion_coefficients"] = reg("cd", irf.get("cdc") or [])
        item["width_dispersion_coefficients"] = reg("wd", irf.get("wdc") or [])
        item["model_dispersion_with_wavenumber"] = bool(irf.get("wavenumber"))
    spec["irf"] = {"irf1": item}
    pars["irf"] = ip
    return model_cls()(**spec), Parameters.from_dict(pars)


def fill(model, params):
    from glotaran.model import fill_item

    dm = fill_item(model.dataset["d"], model, params)
    return dm, dm.megacomplex[0]


def kinetics(dm, mc, case):
    """Rate order and A-matrix as the megacomplex defines them (C04's subject, trusted here)."""
    try:
        comps = mc.get_compartments(dm)
        rates = np.asarray(mc.get_k_matrix().rates(comps, mc.get_initial_concentration(dm)), dtype=float)
        A = np.asarray(mc.get_a_matrix(dm), dtype=float)
    except Exception as e:  # noqa: BLE001
        raise Discard(f"A-matrix unavailable ({type(e).__name__}): C04 domain") from e
    want = np.sort(np.asarray(case["mc"]["rates"], dtype=float))
    if rates.shape != want.shape or not np.allclose(np.sort(rates), want, rtol=1e-12, atol=0) or not np.all(np.isfinite(A)):
        raise Discard("rates/A-matrix of the kinetic scheme not as specified: C04 domain")
    return list(comps), rates, A


# ------------------------------------------------------------------------------------------
# reference


def effective(irf, axis):
    """Exact (mpmath) effective centres/widths per index and bounds on their float rounding.

    Returns mu[i][g], sg[i][g] (mpf) and dmu[i][g], dsg[i][g] (float): bound on the error any
    float64 evaluation of the documented expression commits (each operation rounds once, in any
    order), used to scale the tolerance by the conditioning of the instance.
    """
    orc._ctx()
    mpf = orc.mpf
    c, w, s = gen.broadcast(irf)
    mus, sgs, dmus, dsgs = [], [], [], []
    spectral = irf.get("dispersion_center") is not None
    for i, lam in enumerate(axis):
        terms_c, terms_w, dterm_c, dterm_w = [], [], [], []
        if spectral:
            lam_, lc = mpf(lam), mpf(irf["dispersion_center"])
            if irf.get("wavenumber"):
                d = 1000 / lam_ - 1000 / lc
                dd = EPS * float(abs(1000 / lam_) + abs(1000 / lc) + abs(d))
            else:
                d = (lam_ - lc) / 100
                dd = 2 * EPS * float(abs(d))
            ad = float(abs(d))
            for coeffs, terms, dterms in ((irf.get("cdc") or [], terms_c, dterm_c), (irf.get("wdc") or [], terms_w, dterm_w)):
                for j, cf in enumerate(coeffs):
                    p = j + 1
                    terms.append(mpf(cf) * d**p)
                    dterms.append(abs(cf) * (p * ad ** (p - 1) * dd + 3 * EPS * ad**p))
        sh = mpf(irf["shift"][i]) if irf.get("shift") is not None else mpf(0)
        mu_i, sg_i, dmu_i, dsg_i = [], [], [], []
        for g in range(len(c)):
            mu = mpf(c[g]) + sum(terms_c, mpf(0)) - sh
            sg = mpf(w[g]) + sum(terms_w, mpf(0))
            mag_c = abs(c[g]) + float(sum((abs(x) for x in terms_c), mpf(0))) + float(abs(sh))
            mag_w = abs(w[g]) + float(sum((abs(x) for x in terms_w), mpf(0)))
            nops_c = len(terms_c) + (1 if irf.get("shift") is not None else 0)
            mu_i.append(mu)
            sg_i.append(sg)
            dmu_i.append(sum(dterm_c) + nops_c * EPS * mag_c)
            dsg_i.append(sum(dterm_w) + len(terms_w) * EPS * mag_w)
        mus.append(mu_i)
        sgs.append(sg_i)
        dmus.append(dmu_i)
        dsgs.append(dsg_i)
    return mus, sgs, dmus, dsgs, s


def in_domain(times, rates, mu_i, sg_i):
    for g in range(len(mu_i)):
        sg = float(sg_i[g])
        if not (1e-3 * (1 - 1e-9) <= sg <= 10 * (1 + 1e-9)):
            return "effective width outside 1e-3..10"
        mu = float(mu_i[g])
        for t in times:
            u = (t - mu) / sg
            if not (gen.U_LO - 1e-6 <= u <= gen.U_HI + 1e-6):
                return "time outside [-100, 1000] widths of an effective centre"
    return None


def reference(times, rates, mu_i, sg_i, scales, dmu_i, dsg_i, extra_rel=0.0):
    """Un-normalised reference columns (n_t, n_r) as floats, their magnitude and the conditioning slack."""
    ref, dmu, dsg = orc.columns(times, rates, mu_i, sg_i, scales)
    nt, nr, ng = ref.shape
    val = np.zeros((nt, nr))
    slack = np.zeros((nt, nr))
    for g in range(ng):
        val += orc.to_float(ref[:, :, g])
        if dmu_i[g] or dsg_i[g] or extra_rel:
            em = dmu_i[g] + extra_rel * abs(float(mu_i[g]))
            es = dsg_i[g] + extra_rel * abs(float(sg_i[g]))
            slack += orc.to_float(dmu[:, :, g]) * em + orc.to_float(dsg[:, :, g]) * es
    return val, slack


def tolerance(mag, slack=None):
    tol = RTOL * mag + ATOL_MAX * mag.max(axis=0, keepdims=True) + ATOL_ABS
    if slack is not None:
        tol = tol + 4.0 * slack
    return tol


def worst(got, want, tol):
    r = np.abs(got - want) / tol
    r = np.where(np.isfinite(r), r, np.inf)
    j = np.unravel_index(np.argmax(r), r.shape)
    return r[j], j


def classify(times, rates, mu_i, sg_i, val):
    """Branch statistics of the kernel's documented switch  (t-mu)/(sigma sqrt2) - k sigma/sqrt2 = -1."""
    tags = set()
    t = np.asarray(times, dtype=float)
    both = near = False
    ks_big = False
    for g in range(len(mu_i)):
        mu, sg = float(mu_i[g]), float(sg_i[g])
        for r, k in enumerate(rates):
            th = (t - mu) / (sg * SQRT2) - k * sg / SQRT2
            live = val[:, r] > 1e-290
            lo, hi = (th < -1) & live, (th >= -1) & live
            both |= bool(lo.any() and hi.any())
            near |= bool((np.abs(th + 1) * SQRT2 < 1e-3).any())
            ks_big |= bool(k * sg > 10)
            if lo.any():
                tags.add("branch_erfcx")
            if hi.any():
                tags.add("branch_erf")
            if (~live).any():
                tags.add("underflow_points")
    if both:
        tags.add("both_branches")
    if near:
        tags.add("near_switch")
    if ks_big:
        tags.add("ksigma>10")
    return tags


def branch_of(time, rate, mu_i, sg_i):
    th = [(time - float(m)) / (float(s) * SQRT2) - rate * float(s) / SQRT2 for m, s in zip(mu_i, sg_i)]
    kinds = {"erfcx" if x < -1 else "erf" for x in th}
    return "mixed" if len(kinds) > 1 else kinds.pop()


def call_matrix(case, normalize, clause, irf_override=None):
    model, params = build(case, normalize, irf_override)
    dm, mc = fill(model, params)
    g = np.asarray(case["global_axis"], dtype=float)
    t = np.asarray(case["times"], dtype=float)
    # the representation in which the axes are handed over (the oracle works per point: rows are put back in case order)
    rep = case.get("axis_repr") or {}
    if rep.get("global_int") and all(float(v).is_integer() for v in g):
        g = g.astype(np.int64)
    perm = np.arange(t.size)
    if rep.get("time_order") == "descending":
        perm = perm[::-1]
    elif rep.get("time_order") == "shuffled":
        perm = np.random.default_rng([rep.get("seed", 0), t.size]).permutation(t.size)
    if g.size >= 3 and float(np.max(g)) > float(np.min(g)):
        # first a decoy: another global axis of the same length and end points with other interior points - whatever the code
        # remembers about an axis must identify it
        gf = np.asarray(case["global_axis"], dtype=float)
        u_ = (gf - gf[0]) / (gf[-1] - gf[0]) if gf[-1] != gf[0] else None
        if u_ is not None:
            decoy = gf[0] + (gf[-1] - gf[0]) * np.abs(u_) ** 1.7 * np.sign(u_)
            decoy[0], decoy[-1] = gf[0], gf[-1]
            try:
                with np.errstate(all="ignore"):
                    mc.calculate_matrix(dm, decoy, t[perm].copy())
            except Exception:  # noqa: BLE001
                pass
    with expect_ok(clause):
        labels, mat = mc.calculate_matrix(dm, g, t[perm].copy())
    mat = np.asarray(mat)
    if mat.ndim >= 2 and mat.shape[-2] == t.size:
        back = np.empty_like(mat)
        back[..., perm, :] = mat
        mat = back
    return dm, mc, list(labels), mat


AXIS_REPRS = st.fixed_dictionaries({"global_int": st.booleans(), "time_order": st.sampled_from(["ascending", "ascending", "descending", "shuffled"]),
                                    "seed": st.integers(0, 10**6)})


def with_axis_repr(strategy):
    return st.tuples(strategy(), AXIS_REPRS).map(lambda t: {**t[0], "axis_repr": t[1]})


def repr_tags(case):
    rep = case.get("axis_repr") or {}
    out = set()
    if rep.get("global_int") and all(float(v).is_integer() for v in case["global_axis"]):
        out.add("integer_global_axis")
    if rep.get("time_order", "ascending") != "ascending":
        out.add(f"time_axis_{rep['time_order']}")
    return out


def common_tags(case):
    irf = case["irf"]
    return repr_tags(case) | {
        case["mc"]["type"], irf["type"], f"gaussians_{max(len(irf['center']), len(irf['width']))}", f"pattern_{case.get('pattern')}",
        "scaled" if irf.get("scale") is not None else "unscaled", f"axis_{case.get('axis_family')}",
    }


# ------------------------------------------------------------------------------------------
# sub-check 1: index-independent kernel


def prop_kernel(case):
    irf = case["irf"]
    times, axis = case["times"], case["global_axis"]
    mus, sgs, dmus, dsgs, scales = effective(irf, axis[:1])
    dm, mc, labels, raw = call_matrix(case, False, "kernel.call")
    comps, rates, A = kinetics(dm, mc, case)
    why = in_domain(times, rates, mus[0], sgs[0])
    if why:
        raise Discard(why)
    val, _ = reference(times, rates, mus[0], sgs[0], scales, [0] * len(scales), [0] * len(scales))
    want, mag = val @ A, np.abs(val) @ np.abs(A)
    tol = tolerance(mag)
    check(labels == comps, "kernel.labels", lambda: f"{labels} vs {comps}")
    check(raw.shape == want.shape, "kernel.shape", lambda: f"index-independent IRF: got {raw.shape}, expected {want.shape}")
    r, j = worst(raw, want, tol)
    multi = "multi" if len(scales) > 1 or irf.get("scale") is not None else "single"
    if r > 1:
        # attribute to the numerical branch of the offending point (dominant rate of that column)
        rr = int(np.argmax(np.abs(val[j[0]] * A[:, j[1]])))
        br = branch_of(times[j[0]], rates[rr], mus[0], sgs[0])
        check(False, f"kernel.value.{multi}.{br}", lambda: (
            f"t={times[j[0]]!r} col={j[1]} got={float(raw[j])!r} ref={float(want[j])!r} err/tol={r:.3g} rates={rates.tolist()} "
            f"centres={[float(m) for m in mus[0]]} widths={[float(s) for s in sgs[0]]} scales={scales}"))
    # normalisation (separate root cause): same call with normalize on
    _, _, _, nrm = call_matrix(case, True, "kernel.call")
    ssum = float(sum((orc.mpf(s) for s in scales), orc.mpf(0)))
    r2, j2 = worst(nrm, want / ssum, tol / ssum)
    check(nrm.shape == want.shape and r2 <= 1, "kernel.normalize", lambda: (
        f"normalize=True: t={times[j2[0]]!r} got={float(nrm[j2])!r} ref={float((want / ssum)[j2])!r} (sum of scales {ssum!r}, "
        f"{len(scales)} gaussians) err/tol={r2:.3g}"))
    tags = classify(times, rates, mus[0], sgs[0], val) | common_tags(case)
    nontrivial = bool(tags & {"both_branches", "near_switch", "ksigma>10"})
    return {"nontrivial": nontrivial, "tags": sorted(tags)}


# ------------------------------------------------------------------------------------------
# sub-check 2: shifted / dispersed IRF, per index: oracle and plain-Gaussian twin


def twin_irf(irf, mu_i, sg_i):
    return {
        "type": "multi-gaussian", "center": [float(m) for m in mu_i], "width": [float(s) for s in sg_i],
        "scale": irf.get("scale"), "shift": None, "dispersion_center": None, "cdc": [], "wdc": [], "wavenumber": False,
    }


def index_reference(case, rates, A):
    """Per index: want, tol (code vs oracle), tol_twin, raw values; discards out-of-domain cases."""
    irf, times, axis = case["irf"], case["times"], case["global_axis"]
    mus, sgs, dmus, dsgs, scales = effective(irf, axis)
    out = []
    for i in range(len(axis)):
        why = in_domain(times, rates, mus[i], sgs[i])
        if why:
            raise Discard(why)
    for i in range(len(axis)):
        val, slack = reference(times, rates, mus[i], sgs[i], scales, dmus[i], dsgs[i])
        want, mag = val @ A, np.abs(val) @ np.abs(A)
        sl = np.abs(slack) @ np.abs(A)
        out.append({"val": val, "want": want, "mag": mag, "tol": tolerance(mag, sl), "slack": sl})
    return mus, sgs, scales, out


def feature_of(case):
    irf = case["irf"]
    f = []
    if irf.get("shift") is not None:
        f.append("shift")
    if irf.get("dispersion_center") is not None:
        f.append("dispersion")
    return "_".join(f) or "plain"


def twin_tolerance(case, ref_i, rates, A, mu_i, sg_i, scales):
    """Twin parameters are the exact effective values rounded to float (relative error <= eps/2 each)."""
    _, dmu, dsg = orc.columns(case["times"], rates, mu_i, sg_i, scales)
    slack = np.zeros(ref_i["val"].shape)
    for g in range(len(scales)):
        slack += orc.to_float(dmu[:, :, g]) * EPS * abs(float(mu_i[g])) + orc.to_float(dsg[:, :, g]) * EPS * abs(float(sg_i[g]))
    return tolerance(ref_i["mag"], np.abs(slack) @ np.abs(A))


def prop_index(case):
    irf, times, axis = case["irf"], case["times"], case["global_axis"]
    feat = feature_of(case)
    dm, mc, labels, raw = call_matrix(case, False, "index.call")
    comps, rates, A = kinetics(dm, mc, case)
    mus, sgs, scales, refs = index_reference(case, rates, A)
    nt, nc = refs[0]["want"].shape
    check(labels == comps, "index.labels", lambda: f"{labels} vs {comps}")
    check(raw.shape == (len(axis), nt, nc), "index.shape", lambda: f"index-dependent IRF ({feat}): got {raw.shape}, expected {(len(axis), nt, nc)}")
    # (a) oracle at the documented effective centre/width of index i
    for i in range(len(axis)):
        r, j = worst(raw[i], refs[i]["want"], refs[i]["tol"])
        check(r <= 1, f"index.{feat}.oracle", lambda: (
            f"index {i} (axis value {axis[i]!r}): t={times[j[0]]!r} col={j[1]} got={float(raw[i][j])!r} ref={float(refs[i]['want'][j])!r} err/tol={r:.3g}; "
            f"effective centres={[float(m) for m in mus[i]]} widths={[float(s) for s in sgs[i]]}"
            + "".join(f"; matches index {o}" for o in range(len(axis)) if o != i and worst(raw[i], refs[o]["want"], refs[o]["tol"])[0] <= 1)))
    # a refused evaluation must leave no trace: after an evaluation that the code rejects half-way (a shift list that is too
    # short for the global axis, or a non-finite rate) the same evaluation is bit-identical
    import copy as _copy

    refused = []
    if irf.get("shift") is not None and len(irf["shift"]) >= 2:
        bad = _copy.deepcopy(case)
        bad["irf"]["shift"] = bad["irf"]["shift"][:-1]
        try:
            call_matrix(bad, False, "index.refused")
        except Exception:  # noqa: BLE001
            refused.append("short_shift_list")
    bad = _copy.deepcopy(case)
    bad["mc"]["rates"] = [float("nan")] + list(bad["mc"]["rates"][1:])
    try:
        call_matrix(bad, False, "index.refused")
    except Exception:  # noqa: BLE001
        refused.append("nan_rate")
    _, _, labels2, raw2 = call_matrix(case, False, "index.call_after_refused_evaluation")
    check(labels2 == labels and np.array_equal(raw, raw2, equal_nan=True), "index.depends_on_an_earlier_refused_evaluation",
          lambda: f"after {refused}: max diff {np.nanmax(np.abs(raw - raw2)) if raw.shape == raw2.shape else 'shape'}")
    # (b) metamorphic: the index-independent matrix of a plain multi-Gaussian IRF with exactly these values
    for i in range(len(axis)):
        _, _, _, tw = call_matrix(case, False, "index.twin_call", twin_irf(irf, mus[i], sgs[i]))
        check(tw.shape == (nt, nc), "index.twin_shape", lambda: f"{tw.shape}")
        tol = refs[i]["tol"] + twin_tolerance(case, refs[i], rates, A, mus[i], sgs[i], scales)
        r, j = worst(raw[i], tw, tol)
        check(r <= 1, f"index.{feat}.twin", lambda: (
            f"index {i} (axis value {axis[i]!r}): t={times[j[0]]!r} col={j[1]} matrix[i]={float(raw[i][j])!r} twin={float(tw[j])!r} err/tol={r:.3g}; "
            f"twin centres={[float(m) for m in mus[i]]} widths={[float(s) for s in sgs[i]]}"))
    # normalisation of the index-dependent path
    _, _, _, nrm = call_matrix(case, True, "index.call")
    ssum = float(sum((orc.mpf(s) for s in scales), orc.mpf(0)))
    check(nrm.shape == raw.shape, "index.shape", lambda: f"normalize=True: {nrm.shape}")
    for i in range(len(axis)):
        r, j = worst(nrm[i], refs[i]["want"] / ssum, refs[i]["tol"] / ssum)
        check(r <= 1, "index.normalize", lambda: (
            f"normalize=True index {i}: t={times[j[0]]!r} got={float(nrm[i][j])!r} ref={float((refs[i]['want'] / ssum)[j])!r} "
            f"(sum of scales {ssum!r}, {len(scales)} gaussians) err/tol={r:.3g}"))
    tags = common_tags(case) | {f"feature_{feat}", f"indices_{len(axis)}"}
    for i in range(len(axis)):
        tags |= classify(times, rates, mus[i], sgs[i], refs[i]["val"])
    tags |= index_tags(case, mus, sgs, refs)
    nontrivial = bool(tags & {"both_branches", "near_switch", "ksigma>10", "distinct_centres"})
    return {"nontrivial": nontrivial, "tags": sorted(tags)}


def index_tags(case, mus, sgs, refs):
    tags = set()
    irf = case["irf"]
    cen = {tuple(float(m) for m in mu_i) for mu_i in mus}
    if len(cen) >= 2:
        tags.add("distinct_centres")
    if len({tuple(float(s) for s in sg_i) for sg_i in sgs}) >= 2:
        tags.add("distinct_widths")
    # indices distinguishable by the oracle: the reference of index i does not pass as index o
    if len(refs) >= 2:
        sep = all(
            worst(refs[i]["want"], refs[o]["want"], refs[o]["tol"])[0] > 1
            for i in range(len(refs)) for o in range(len(refs)) if i != o
        )
        tags.add("indices_all_distinguishable" if sep else "indices_not_all_distinguishable")
    if irf.get("dispersion_center") is not None:
        tags.add("wavenumber" if irf.get("wavenumber") else "wavelength")
        tags.add(f"center_order_{len(irf.get('cdc') or [])}")
        tags.add(f"width_order_{len(irf.get('wdc') or [])}")
    return tags


# ------------------------------------------------------------------------------------------
# sub-check 3: result variables of a one-evaluation optimize()


def prop_result(case):
    import xarray as xr

    from glotaran.optimization.optimize import optimize
    from glotaran.project import Scheme

    irf, times, axis = case["irf"], case["times"], case["global_axis"]
    feat = feature_of(case)
    if len(times) < 5:
        raise Discard("fewer than 5 time points for a fit")
    model, params = build(case, irf["normalize"])
    dm, mc = fill(model, params)
    comps, rates, A = kinetics(dm, mc, case)
    index_dep = feat != "plain"
    mus, sgs, scales, refs = index_reference(case, rates, A)
    ssum = float(sum((orc.mpf(s) for s in scales), orc.mpf(0))) if irf["normalize"] else 1.0
    for rf in refs:
        m = rf["want"] / ssum
        sv = np.linalg.svd(m, compute_uv=False)
        if not np.all(np.isfinite(m)) or sv[-1] <= 1e-8 * sv[0] or sv[0] < 1e-200:
            raise Discard("fit matrix rank deficient at these times (the linear solve is C01's subject)")
    rng = np.random.default_rng(case["data_seed"])
    clp = rng.uniform(0.5, 2.0, (len(comps), len(axis)))
    data = np.stack([(refs[i]["want"] / ssum) @ clp[:, i] for i in range(len(axis))], axis=1)
    data = data + 0.01 * np.abs(data).max() * rng.standard_normal(data.shape)
    ds = xr.DataArray(data, coords=[("time", np.asarray(times, dtype=float)), ("spectral", np.asarray(axis, dtype=float))]).to_dataset(name="data")
    scheme = Scheme(model, params, {"d": ds}, maximum_number_function_evaluations=1)
    with expect_ok("result.optimize"):
        res = optimize(scheme, verbose=False, raise_exception=True)
    out = res.data["d"]
    # parameters are reported back unchanged by a one-evaluation run (identity transform: no bounds, not non-negative)
    for p in params.all():
        q = res.optimized_parameters.get(p.label)
        if q.value != p.value:
            raise Discard("optimize() moved a parameter within one evaluation")
    check("matrix" in out, "result.matrix_present")
    mat = out.matrix
    want_dims = ("spectral", "time", "clp_label") if index_dep else ("time", "clp_label")
    check(tuple(mat.dims) == want_dims, "result.matrix_dims", lambda: f"{mat.dims} vs {want_dims} ({feat})")
    check(list(mat.coords["clp_label"].values) == comps, "result.matrix_labels", lambda: f"{list(mat.coords['clp_label'].values)} vs {comps}")
    vals = mat.values if index_dep else np.broadcast_to(mat.values, (len(axis),) + mat.values.shape)
    for i in range(len(axis)):
        r, j = worst(vals[i], refs[i]["want"] / ssum, refs[i]["tol"] / ssum)
        check(r <= 1, f"result.matrix.{feat}", lambda: (
            f"index {i} (axis value {axis[i]!r}) normalize={irf['normalize']}: t={times[j[0]]!r} col={j[1]} got={float(vals[i][j])!r} "
            f"ref={float((refs[i]['want'] / ssum)[j])!r} err/tol={r:.3g}; effective centres={[float(m) for m in mus[i]]} widths={[float(s) for s in sgs[i]]}"))
    tags = common_tags(case) | {f"feature_{feat}", f"indices_{len(axis)}", "normalized" if irf["normalize"] else "unnormalized"}
    c_b, w_b, _ = gen.broadcast(irf)
    # irf_center_location: centre + dispersion polynomial per Gaussian and index (the statement does not say
    # whether the reported location includes the shift: both are admissible)
    if irf.get("dispersion_center") is not None and irf["dispersion_center"] != 0:
        check("irf_center_location" in out, "result.center_location_present")
        loc = np.asarray(out.irf_center_location.values, dtype=float)
        check(loc.shape == (len(c_b), len(axis)), "result.center_location_shape", lambda: f"{loc.shape} vs {(len(c_b), len(axis))}")
        _, _, dmus, _, _ = effective(irf, axis)
        for i in range(len(axis)):
            for g in range(len(c_b)):
                sh = irf["shift"][i] if irf.get("shift") is not None else 0.0
                adm = [float(mus[i][g]), float(mus[i][g] + orc.mpf(sh))]
                tol = 8 * dmus[i][g] + 4 * EPS * (abs(adm[0]) + abs(adm[1]))
                check(any(abs(loc[g, i] - a) <= tol for a in adm), "result.center_location", lambda: (
                    f"irf_center_location[gaussian {g}, index {i}]={float(loc[g, i])!r}, admissible {adm} (tol {tol:.3g})"))
        tags.add("checked_center_location")
    # irf_shift: one entry per index; admissible: shift_i or (first centre - shift_i)
    if irf.get("shift") is not None:
        check("irf_shift" in out, "result.shift_present")
        shv = np.asarray(out.irf_shift.values, dtype=float)
        check(shv.shape == (len(axis),), "result.shift_shape", lambda: f"{shv.shape}")
        for i in range(len(axis)):
            adm = [irf["shift"][i], float(orc.mpf(irf["center"][0]) - orc.mpf(irf["shift"][i]))]
            tol = 4 * EPS * (abs(irf["center"][0]) + abs(irf["shift"][i]))
            check(any(abs(shv[i] - a) <= tol for a in adm), "result.shift", lambda: f"irf_shift[{i}]={float(shv[i])!r}, admissible {adm}")
        tags.add("checked_shift")
    # irf: proportional to the sum of Gaussians of some index (amplitude- or area-weighted, with or without
    # shift: the statement fixes the Gaussians, not the normalisation or the index of the reported trace)
    check("irf" in out, "result.irf_present")
    trace = np.asarray(out.irf.values, dtype=float)
    check(trace.shape == (len(times),), "result.irf_shape", lambda: f"{trace.shape}")
    t = np.asarray(times, dtype=float)
    cands = []
    for i in range(len(axis)):
        for with_shift in (True, False):
            sh = irf["shift"][i] if (irf.get("shift") is not None and not with_shift) else 0.0
            for area in (False, True):
                cnd = np.zeros(t.size)
                for g in range(len(c_b)):
                    m_, s_ = float(mus[i][g]) + sh, float(sgs[i][g])
                    cnd += scales[g] * (1.0 / s_ if area else 1.0) * np.exp(-((t - m_) ** 2) / (2 * s_ * s_))
                cands.append(cnd)
    if max(c.max() for c in cands) > 1e-200:
        def fits(c):
            if c.max() <= 0:
                return trace.max() <= 0 and trace.min() >= 0
            f = float(c @ trace) / float(c @ c)
            return f > 0 and np.abs(trace - f * c).max() <= 1e-9 * np.abs(trace).max()

        check(any(fits(c) for c in cands), "result.irf", lambda: f"irf trace {trace.tolist()} is not proportional to the Gaussians of any index")
        tags.add("checked_irf_trace")
    for i in range(len(axis)):
        tags |= classify(times, rates, mus[i], sgs[i], refs[i]["val"])
    tags |= index_tags(case, mus, sgs, refs)
    nontrivial = bool(tags & {"both_branches", "near_switch", "ksigma>10", "distinct_centres"})
    return {"nontrivial": nontrivial, "tags": sorted(tags)}


# ------------------------------------------------------------------------------------------


# ------------------------------------------------------------------------------------------
# sub-check: long time axes (a value does not depend on which other points are on the axis)


def long_axis_cases():
    return st.tuples(gen.kernel_cases(), st.sampled_from([4097, 5000, 8193, 9000, 12289]), st.integers(0, 10**6)).map(
        lambda t: {**t[0], "long_n": t[1], "pick_seed": t[2]})


def prop_long_axis(case):
    """Thousands of time points (beyond any block / buffer size an implementation may use): every row equals the row computed
    for the same time point on a short axis that holds only a few of the points."""
    t0, t1 = min(case["times"]), max(case["times"])
    if not t1 > t0:
        t0, t1 = t0 - 1.0, t0 + 1.0
    n = int(case["long_n"])
    times = np.linspace(t0, t1, n)
    rng = np.random.default_rng([case["pick_seed"], n])
    idx = sorted(set(rng.integers(0, n, 24).tolist()) | {i for i in (0, 1023, 1024, 2047, 2048, 4095, 4096, 4097, 8191, 8192, 8193, 12287, 12288, n - 1) if i < n})
    long_case = {**case, "times": [float(v) for v in times]}
    short_case = {**case, "times": [float(times[i]) for i in idx]}
    long_case.pop("axis_repr", None)
    short_case.pop("axis_repr", None)
    _, _, labels_l, full = call_matrix(long_case, False, "long_axis.call")
    _, _, labels_s, part = call_matrix(short_case, False, "long_axis.call_short")
    check(labels_l == labels_s, "long_axis.labels", lambda: f"{labels_l} vs {labels_s}")
    sel = full[..., idx, :]
    check(sel.shape == part.shape, "long_axis.shape", lambda: f"{sel.shape} vs {part.shape}")
    fin = np.isfinite(sel) & np.isfinite(part)
    check(bool(np.array_equal(np.isfinite(sel), np.isfinite(part))), "long_axis.finite_pattern", "non-finite entries differ")
    scale = max(float(np.abs(part[fin]).max()) if fin.any() else 0.0, 1e-300)
    err = np.abs(np.where(fin, sel - part, 0.0))
    worst_ = np.unravel_index(int(np.argmax(err)), err.shape)
    check(float(err.max()) <= 1e-12 * scale, "long_axis.row_depends_on_other_points",
          lambda: f"{n} points: row {idx[worst_[-2]]} (t={times[idx[worst_[-2]]]!r}) differs by {float(err.max()):.3e} (scale {scale:.3e}) from the same point on a {len(idx)}-point axis")
    return {"nontrivial": True, "tags": sorted(common_tags(case)) + [f"points_{n}"]}


PROPERTY = Property(
    id="C05",
    level="exploration",
    rule=(
        "Hypothesis-generated decay megacomplexes (parallel / sequential / decay, 1-3 rates 1e-4..1e3) with a Gaussian IRF: "
        "1-3 Gaussians, widths 1e-3..10, broadcast patterns 1/1, 1/n, n/1, n/n, scales absent or one per Gaussian, normalise on and off; "
        "times centre + width*u, u in [-100, 1000] (uniform, log-spaced, near the centre, clustered 1e-9..1 around the kernel's branch switch "
        "t = mu + k sigma^2 - sqrt2 sigma); per-index shifts; centre/width dispersion polynomials of order 0-3 in wavelength or "
        "reciprocal-wavenumber mode; 1-4 global axis values from five families. A case is non-trivial if some column has live points on both "
        "numerical branches, or a point within 1e-3 widths of the switch, or k*sigma > 10, or >= 2 indices with distinct effective centres; "
        "distinct = distinct case digest."
    ),
    subs=[
        Sub("kernel", prop=prop_kernel, strategy=lambda: with_axis_repr(gen.kernel_cases), budget={"quick": 700, "thorough": 70000},
            doc="index-independent (multi-)Gaussian IRF: calculate_matrix == mpmath convolution @ A, normalise on/off"),
        Sub("index", prop=prop_index, strategy=lambda: with_axis_repr(gen.index_cases), budget={"quick": 600, "thorough": 60000},
            doc="shifted/dispersed IRF: matrix[i] == oracle at the effective centre/width of index i == plain-Gaussian twin"),
        Sub("long_axis", prop=prop_long_axis, strategy=long_axis_cases, budget={"quick": 48, "thorough": 2000},
            doc="time axes of 4097..12289 points: every row equals the row of the same time point on a short axis (no closed form needed)"),
        Sub("result", prop=prop_result, strategy=gen.result_cases, budget={"quick": 160, "thorough": 16000},
            doc="result variables matrix / irf / irf_center_location / irf_shift of a one-evaluation optimize()"),
    ],
    assumptions=[
        "mpmath (60 digits) erfc/exp are trusted; the closed form is validated against mpmath.quad of the defining integral at start-up",
        "rate order and A-matrix are taken from the megacomplex (C04's subject); cases whose rates are not the specified ones are discarded",
        "tolerance 1e-11*|ref| + 1e-13*max_t|ref| + 1e-300 on |columns| @ |A|; for shifted/dispersed IRFs plus 4x the first-order effect "
        "(analytic dF/dmu, dF/dsigma) of the unavoidable float rounding of the effective centre/width (one rounding per operation)",
        "result variables irf / irf_center_location / irf_shift: the statement does not fix normalisation, reported index or whether the shift "
        "is included, so the set of admissible readings is accepted",
    ],
    selfcheck=orc.selfcheck,
)
