"""C03 - result datasets decompose the data exactly and on the right coordinates."""

from __future__ import annotations

import warnings

import numpy as np

from vlib.core import Discard
from vlib.core import Property
from vlib.core import Sub
from vlib.core import check
from vlib.core import expect_ok
from vlib.gen import schemes
from vlib.oracle import refobjective as ref
from vlib.props.c02 import conflicts
from vlib.props.c02 import features


def optimized_values(case, result):
    vals = {}
    for grp, vs in case["parameters"].items():
        for j in range(len(vs)):
            lab = f"{grp}.{j+1}"
            vals[lab] = float(result.optimized_parameters.get(lab).value)
    return vals


def prop(case):
    why = conflicts(case)
    if why:
        raise Discard(why)
    try:
        r0 = ref.reference(case, {f"{g}.{j+1}": float(v) for g, vs in case["parameters"].items() for j, v in enumerate(vs)})
        if r0["vector"].size - len(case["free"]) - sum(g["n_clp"] for g in r0["groups"].values()) <= 0:
            raise Discard("non-positive degrees of freedom")
    except ref.Ambiguous as a:
        raise Discard(f"ambiguous: {a}")
    except ref.IllConditioned as a:
        raise Discard("ill-conditioned: " + str(a).split(" ")[0])
    with warnings.catch_warnings():
        warnings.simplefilter("ignore")
        with expect_ok("result.optimize"):
            scheme, result = schemes.run_fit(case)
    vals = optimized_values(case, result)
    try:
        r = ref.reference(case, vals)
    except (ref.Ambiguous, ref.IllConditioned):
        raise Discard("ill-conditioned at the optimised parameters")
    check(set(result.data) == {d["label"] for d in case["datasets"]}, "result.dataset_labels")
    for d in case["datasets"]:
        lab = d["label"]
        ds = result.data[lab]
        info = r["datasets"][lab]
        raw, _ = schemes.dataset_arrays(d)
        t = np.asarray(d["model_axis"], float)
        g = np.asarray(d["global_axis"], float)
        scale = max(1.0, float(np.abs(raw).max()))
        dims = ("global", "model") if d["transposed"] else ("model", "global")
        # -- layout
        for var in ["data", "fitted_data", "residual"] + (["weighted_residual", "weight"] if info["weight"] is not None else []):
            check(var in ds, "result.variable_present", lambda: f"{lab}: {var} missing")
            check(set(ds[var].dims) == {"model", "global"}, "result.dims", lambda: f"{lab}.{var} dims {ds[var].dims}")
            check(np.array_equal(ds[var].coords["model"].values, t) and np.array_equal(ds[var].coords["global"].values, g),
                  "result.coords", lambda: f"{lab}.{var} coords differ from the dataset's own")
        check(ds["data"].dims == dims and np.array_equal(ds["data"].values, raw.T if d["transposed"] else raw), "result.data_unchanged", lambda: f"{lab}: data changed/relaid")

        def arr(var):
            return ds[var].transpose("model", "global").values

        # -- decomposition
        e = np.abs(arr("data") - arr("fitted_data") - arr("residual")).max()
        check(e <= 1e-12 * scale, "result.data_eq_fit_plus_residual", lambda: f"{lab}: {e:.3e}")
        # -- weights
        if info["weight"] is not None:
            W = arr("weight")
            check(np.allclose(W, info["weight"], rtol=1e-12, atol=0), "result.weight_array",
                  lambda: f"{lab}: reported weight differs from the expected {info['weight_kind']} weight (max diff {np.abs(W-info['weight']).max():.3e}; transposed? {np.allclose(W, info['weight'].T) if W.shape==info['weight'].T.shape else False})")
            e = np.abs(arr("weighted_residual") - info["weight"] * arr("residual")).max()
            check(e <= 1e-10 * scale, "result.weighted_residual", lambda: f"{lab}: {e:.3e}")
        else:
            check("weight" not in ds or np.all(ds["weight"].values == 1), "result.unexpected_weight", lambda: f"{lab}")
        # -- fitted data from matrix x clp (by label)
        check(float(ds.attrs.get("dataset_scale", np.nan)) == info["scale"], "result.dataset_scale_attr", lambda: f"{lab}: {ds.attrs.get('dataset_scale')} vs {info['scale']}")
        M = ds["matrix"]
        C = ds["clp"]
        labels = list(info["labels"])
        check(sorted(map(str, C.coords["clp_label"].values)) == sorted(labels), "result.clp_labels", lambda: f"{lab}: {list(C.coords['clp_label'].values)} vs {labels}")
        check(sorted(map(str, M.coords["clp_label"].values)) == sorted(labels), "result.matrix_labels", lambda: f"{lab}")
        fitted = arr("fitted_data")
        if info.get("full"):
            G = ds["global_matrix"]
            glabels = list(info["glabels"])
            rec = np.zeros_like(fitted)
            for gi, gv in enumerate(g):
                Mi = (M.sel({"global": gv}) if "global" in M.dims else M).transpose("model", "clp_label")
                for a in glabels:
                    for b in labels:
                        rec[:, gi] += float(G.sel({"global": gv, "global_clp_label": a})) * Mi.sel(clp_label=b).values * float(C.sel(global_clp_label=a, clp_label=b))
            e = np.abs(rec - fitted).max()
            check(e <= 1e-9 * scale, "result.fitted_full_model", lambda: f"{lab}: |matrix clp global_matrix^T - fitted| = {e:.3e}")
        else:
            check("global" in C.dims and np.array_equal(C.coords["global"].values, g), "result.clp_coords", lambda: f"{lab}: clp global coords {C.coords.get('global')}")
            for gi, gv in enumerate(g):
                Mi = (M.sel({"global": gv}) if "global" in M.dims else M).transpose("model", "clp_label")
                rec = np.zeros(len(t))
                for b in labels:
                    rec += info["scale"] * Mi.sel(clp_label=b).values * float(C.sel({"global": gv, "clp_label": b}))
                e = np.abs(rec - fitted[:, gi]).max()
                check(e <= 1e-9 * scale, "result.fitted_eq_scale_matrix_clp", lambda: f"{lab}@{gv}: |scale*matrix*clp - fitted| = {e:.3e} (scale {info['scale']})")
                # reported matrix equals the reference (megacomplex-scaled, label-merged) matrix, by label
                for j, b in enumerate(labels):
                    e2 = np.abs(Mi.sel(clp_label=b).values - info["matrices"][gi][:, j]).max()
                    check(e2 <= 1e-12 * max(1.0, np.abs(info["matrices"][gi]).max()), "result.matrix_by_label", lambda: f"{lab}@{gv} label {b}: {e2:.3e}")
                # constrained clps exactly zero / related clps exactly p * source
                # in a linked group interval items act at the aligned point the index was assigned to (equal to the own value
                # for clp_link_tolerance 0)
                ga = info["aligned_targets"][gi] if info.get("aligned_targets") else gv
                for c in case.get("constraints", []):
                    if c["target"] in labels and ref.constraint_applies(c, ga):
                        v = float(C.sel({"global": gv, "clp_label": c["target"]}))
                        check(v == 0.0, "result.constrained_clp_zero", lambda: f"{lab}@{gv}: clp[{c['target']}]={v}")
                for rel in case.get("relations", []):
                    if rel["target"] in labels and rel["source"] in labels and ref.applies(rel["interval"], ga):
                        vt = float(C.sel({"global": gv, "clp_label": rel["target"]}))
                        vs = float(C.sel({"global": gv, "clp_label": rel["source"]}))
                        p = vals[rel["parameter"]]
                        check(abs(vt - p * vs) <= 1e-14 * max(1.0, abs(p * vs)), "result.related_clp", lambda: f"{lab}@{gv}: target {vt} != {p}*{vs}")
            # clps equal the reference clps (by label, by coordinate)
            refclp = info["clp"]
            for j, b in enumerate(labels):
                got = C.sel(clp_label=b).values
                cs = max(1.0, np.abs(refclp).max())
                e = np.abs(got - refclp[:, j]).max()
                check(e <= 1e-7 * cs, "result.clp_vs_reference", lambda: f"{lab} label {b}: {e:.3e}")
        # -- residual block equals the reference block of *this* dataset
        wres = arr("weighted_residual") if info["weight"] is not None else arr("residual")
        e = np.abs(wres - info["wres"]).max()
        check(e <= 1e-8 * scale, "result.residual_block_vs_reference", lambda: f"{lab}: max diff {e:.3e} (blocks of another dataset/index?)")
    # -- linked: clps of two datasets at a shared point are identical
    for gname in case["groups"]:
        if not ref.group_is_linked(case, gname):
            continue
        dss = [d for d in case["datasets"] if d["group"] == gname]
        for i, d1 in enumerate(dss):
            for d2 in dss[i + 1:]:
                t1, t2 = r["datasets"][d1["label"]]["aligned_targets"], r["datasets"][d2["label"]]["aligned_targets"]
                for i1, g1 in enumerate(d1["global_axis"]):
                    for i2, g2 in enumerate(d2["global_axis"]):
                        if t1[i1] != t2[i2]:
                            continue
                        c1, c2 = result.data[d1["label"]].clp, result.data[d2["label"]].clp
                        for b in set(map(str, c1.coords["clp_label"].values)) & set(map(str, c2.coords["clp_label"].values)):
                            a1, a2 = float(c1.sel({"global": g1, "clp_label": b})), float(c2.sel({"global": g2, "clp_label": b}))
                            check(a1 == a2, "result.linked_clp_identical", lambda: f"{d1['label']}@{g1},{d2['label']}@{g2} {b}: {a1} vs {a2}")
    f = features(case)
    labs = [d["label"] for d in case["datasets"]]
    confus = any(a != b and a in b for a in labs for b in labs)
    tags = list(f)
    if confus:
        tags.append("confusable_labels")
    if any(d["transposed"] for d in case["datasets"]):
        tags.append("transposed_storage")
    if any(len(d["model_axis"]) == len(d["global_axis"]) for d in case["datasets"]):
        tags.append("square")
    single = False
    for gname in case["groups"]:
        dss = [d for d in case["datasets"] if d["group"] == gname]
        if ref.group_is_linked(case, gname) and len(dss) > 1:
            for gv in {x for d in dss for x in d["global_axis"]}:
                if sum(gv in d["global_axis"] for d in dss) == 1:
                    single = True
    if single:
        tags.append("linked_single_dataset_index")
    nt = any(d["noise"] > 0 for d in case["datasets"]) and (confus or single or "dataset_scale" in f or any(d["transposed"] for d in case["datasets"]))
    return {"nontrivial": bool(nt), "tags": tags}


def make_fragile(case):
    """Interval bounds of constraints / relations moved one ulp off the axis values they coincide with, and (for linked groups
    with a tolerance) later datasets shifted by an exactly representable offset: which points an item covers is then float-
    fragile and left open - but whatever the code decides, the result must be consistent with itself."""
    import copy

    c = copy.deepcopy(case)
    axis_values = {g for d in c["datasets"] for g in d["global_axis"]}
    k = 0

    def nudge(iv):
        nonlocal k
        out = []
        for b in iv:
            if b in axis_values:
                k += 1
                b = float(np.nextafter(b, np.inf if k % 2 else -np.inf))
            out.append(b)
        return out

    for item in c.get("constraints", []) + c.get("relations", []):
        iv = item.get("interval")
        if iv is None:
            continue
        item["interval"] = nudge(iv) if not isinstance(iv[0], (list, tuple)) else [nudge(x) for x in iv]
    if c.get("clp_link_tolerance", 0) > 0:
        for i, d in enumerate(c["datasets"][1:], start=1):
            off = [0.0, 0.125, -0.125, 0.25][(i + len(d["global_axis"])) % 4]
            d["global_axis"] = [g + off for g in d["global_axis"]]
    return c


def prop_identities(case):
    """The identities of the statement that need no reference: they must hold whatever the (possibly float-fragile) decisions
    about intervals and alignment were."""
    why = conflicts(case)
    if why:
        raise Discard(why)
    with warnings.catch_warnings():
        warnings.simplefilter("ignore")
        try:
            scheme, result = schemes.run_fit(case)
        except Discard:
            raise
        except Exception as e:  # noqa: BLE001  (degenerate / refused schemes are decided by the other sub-checks and by C09)
            raise Discard(f"scheme not optimisable: {type(e).__name__}")
    if any(abs(float(result.data[d["label"]].attrs["dataset_scale"])) < 1e-6 for d in case["datasets"]):
        # an optimiser step may drive a free dataset scale to (nearly) zero: the linear problem of every aligned index that dataset
        # takes part in is then rank deficient, which is outside the statement of C01 (full column rank)
        raise Discard("a dataset scale optimised to zero: rank-deficient linear problem")
    for d in case["datasets"]:
        # ... and so does a basis function that underflows after an optimiser step (a zero column in the matrix of any dataset:
        # through linking the rank deficiency reaches the other datasets of its group)
        Mall = result.data[d["label"]]["matrix"]
        mats = Mall.transpose("global", "model", "clp_label").values if "global" in Mall.dims else Mall.transpose("model", "clp_label").values[None]
        for Mi_ in mats:
            sv_ = np.linalg.svd(Mi_, compute_uv=False)
            if sv_[-1] <= 1e-10 * sv_[0] or np.linalg.norm(Mi_, axis=0).min() < 1e-100:
                raise Discard("rank-deficient matrix at an index")
    for d in case["datasets"]:
        lab = d["label"]
        ds = result.data[lab]
        raw, _ = schemes.dataset_arrays(d)
        scale = max(1.0, float(np.abs(raw).max()))
        g = np.asarray(d["global_axis"], float)

        def arr(var):
            return ds[var].transpose("model", "global").values

        e = np.abs(arr("data") - arr("fitted_data") - arr("residual")).max()
        check(e <= 1e-12 * scale, "identities.data_eq_fit_plus_residual", lambda: f"{lab}: {e:.3e}")
        if "weight" in ds:
            e = np.abs(arr("weighted_residual") - arr("weight") * arr("residual")).max()
            check(e <= 1e-10 * scale, "identities.weighted_residual", lambda: f"{lab}: {e:.3e}")
        M, C = ds["matrix"], ds["clp"]
        sc = float(ds.attrs["dataset_scale"])
        fitted = arr("fitted_data")
        if d.get("global_megacomplex"):
            continue
        if abs(sc) < 1e-6:
            # an optimiser step may drive a free dataset scale to (nearly) zero: the linear problem is then rank deficient, which is
            # outside the statement of C01 (full column rank) and leaves clp and residual undefined
            raise Discard("dataset scale optimised to zero: rank-deficient linear problem")
        for gi, gv in enumerate(g):
            Mi = (M.sel({"global": gv}) if "global" in M.dims else M).transpose("model", "clp_label")
            sv = np.linalg.svd(Mi.values, compute_uv=False)
            if sv[-1] <= 1e-10 * sv[0]:
                raise Discard("rank-deficient matrix at an index")
            rec = np.zeros(fitted.shape[0])
            for b in map(str, C.coords["clp_label"].values):
                rec += sc * Mi.sel(clp_label=b).values * float(C.sel({"global": gv, "clp_label": b}))
            e = np.abs(rec - fitted[:, gi]).max()
            check(e <= 1e-9 * scale, "identities.fitted_eq_scale_matrix_clp", lambda: f"{lab}@{gv!r}: |scale*matrix*clp - fitted| = {e:.3e}")
    f = features(case)
    return {"nontrivial": bool(case.get("constraints") or case.get("relations")), "tags": f + (["offset_axes"] if case.get("clp_link_tolerance", 0) > 0 else [])}


PROPERTY = Property(
    id="C03",
    level="exploration",
    rule=(
        "C02 scheme space + confusable dataset labels (a, ab, ba, d1, d10, 1, 10, ...), non-square shapes and square ones, both "
        "storage orders, noise, linked groups with single-dataset aligned indices; optimize() with 2-6 function evaluations, all three "
        "methods. Every result variable is compared by label/coordinate (never by position) with the statement's identities and with "
        "the reference residual/clp blocks at the optimised parameters. Non-trivial = noisy data and at least one of {confusable labels, "
        "transposed storage, linked single-dataset index, dataset scale}."
    ),
    subs=[
        Sub("neutral", prop=prop, strategy=lambda: schemes.fit_cases(labels="neutral"), budget={"quick": 400, "thorough": 30000}),
        Sub("confusable", prop=prop, strategy=lambda: schemes.fit_cases(labels="confusable"), budget={"quick": 400, "thorough": 30000}),
        Sub("tolerance", prop=prop, strategy=lambda: schemes.fit_cases(labels="confusable", link_tolerance=True, allow_full=False).filter(
            lambda c: c["clp_link_tolerance"] > 0), budget={"quick": 250, "thorough": 20000},
            doc="linked groups with clp_link_tolerance > 0 and all three link methods (alignment by the C09 reference model)"),
        Sub("identities", prop=prop_identities, strategy=lambda: schemes.fit_cases(labels="neutral", link_tolerance=True, allow_full=False).map(make_fragile),
            budget={"quick": 400, "thorough": 30000},
            doc="reference-free identities on schemes whose interval bounds sit one ulp off axis values and whose linked axes are offset"),
    ],
    assumptions=[
        "reference objective trusted (vlib/oracle/refobjective.py)",
        "tolerances: identities 1e-12*scale, matrix x clp 1e-9*scale, reference blocks 1e-8*scale (per-index cond <= 1e6)",
    ],
)
