"""C10 - the objective is pure and deterministic; optimize() leaves its inputs unchanged."""

from __future__ import annotations

import os

# the state machine varies the numba thread count: the launch-time limit must allow it
os.environ["NUMBA_NUM_THREADS"] = os.environ.get("VERIF_C10_THREADS", "16")

import copy  # noqa: E402
import hashlib  # noqa: E402
import json  # noqa: E402
import subprocess  # noqa: E402
import sys  # noqa: E402
import tempfile  # noqa: E402
import warnings  # noqa: E402
from pathlib import Path  # noqa: E402

import numpy as np  # noqa: E402
from hypothesis import strategies as st  # noqa: E402
from hypothesis.stateful import RuleBasedStateMachine  # noqa: E402
from hypothesis.stateful import initialize  # noqa: E402
from hypothesis.stateful import precondition  # noqa: E402
from hypothesis.stateful import rule  # noqa: E402

from vlib.core import Discard  # noqa: E402
from vlib.core import Property  # noqa: E402
from vlib.core import ShardResult  # noqa: E402
from vlib.core import Sub  # noqa: E402
from vlib.core import Violation  # noqa: E402
from vlib.core import check  # noqa: E402
from vlib.core import digest  # noqa: E402
from vlib.core import expect_ok  # noqa: E402
from vlib.gen import kinetic  # noqa: E402
from vlib.gen import schemes  # noqa: E402

REL = 1e-12


def build_scheme(kind, case, **kw):
    from glotaran.project import Scheme

    if kind == "table":
        return schemes.make_scheme(case, **kw)
    model = kinetic.build_model(kinetic.fit_model(case))
    truth_model = kinetic.build_model(case)
    truth = kinetic.build_parameters(case)
    data, _ = kinetic.simulate_data(case, truth_model, truth)
    # seeded noise so that residuals are non-zero (no global RNG: explicit generator)
    for i, (lab, ds) in enumerate(sorted(data.items())):
        rng = np.random.default_rng(case["datasets"][lab]["noise_seed"])
        ds["data"] = (ds.data.dims, ds.data.values + 0.01 * np.abs(ds.data.values).max() * rng.standard_normal(ds.data.shape))
    start = kinetic.build_parameters(kinetic.fit_model(case), perturb=True)
    return Scheme(model, start, data, **kw)


def snapshot(scheme):
    params = [p.as_dict() for p in scheme.parameters.all()]
    for d in params:
        for k, v in list(d.items()):
            if isinstance(v, float) and v != v:
                d[k] = "nan"
    model = json.dumps(scheme.model.as_dict(), sort_keys=True, default=repr)
    data = {}
    for lab, ds in scheme.data.items():
        h = {}
        for name in ("data", "weight"):
            if name in ds:
                h[name] = hashlib.sha256(np.ascontiguousarray(ds[name].values).tobytes()).hexdigest() + str(ds[name].dims)
        for c in ds["data"].dims:
            h["coord:" + str(c)] = hashlib.sha256(np.ascontiguousarray(ds.coords[c].values).tobytes()).hexdigest()
        data[lab] = h
    return {"parameters": params, "model": model, "data": data}


def same_vector(a, b):
    """-> 'bit' | 'close' | None"""
    if a.shape != b.shape:
        return None
    if np.array_equal(a, b):
        return "bit"
    sc = max(np.abs(a).max(), np.abs(b).max(), 1e-300)
    return "close" if np.abs(a - b).max() <= REL * sc else None


def same_vector_nan(a, b):
    if a.shape != b.shape:
        return False
    fa, fb = np.isfinite(a), np.isfinite(b)
    if not np.array_equal(fa, fb):
        return False
    if not fa.any():
        return True
    sc = max(np.abs(a[fa]).max(), np.abs(b[fb]).max(), 1e-300)
    return bool(np.abs(a[fa] - b[fb]).max() <= REL * sc)


def _with_expr(c):
    c["expr_param"] = True  # a parameter defined by an expression on a free parameter: part of the caller's parameters
    return c


case_strategy = st.one_of(
    st.tuples(st.just("table"), schemes.schemes(allow_full=True, max_datasets=3)),
    st.tuples(st.just("table"), schemes.schemes(allow_full=False, max_datasets=2).map(_with_expr)),
    st.tuples(st.just("kinetic"), kinetic.kinetic_cases(max_datasets=2)),
    # the same kinetic schemes on a time axis in other units: parameters of magnitude 1e-8 .. 1e5 instead of O(1)
    st.tuples(st.just("kinetic"), st.builds(kinetic.rescale_time, kinetic.kinetic_cases(max_datasets=2, extras_allowed=False), st.sampled_from([1e6, 1e3, 1e-3]))),
)


class Interp:
    """Executes a step log (used by the machine and by replay)."""

    def __init__(self, kind, case):
        from vlib import capture
        from vlib.props.c02 import conflicts

        self.kind, self.case = kind, case
        if kind == "table" and conflicts(case):
            raise Discard("undefined semantics")
        with warnings.catch_warnings():
            warnings.simplefilter("ignore")
            try:
                self.scheme = build_scheme(kind, case, add_svd=False)
                self.snap = snapshot(self.scheme)
                self.cap = capture.open_objective(self.scheme)
                self.cap.poison = True  # the returned penalty vector and the given x are overwritten after every evaluation
            except Exception as e:  # noqa: BLE001  (degenerate schemes are C02's business)
                raise Discard(f"scheme cannot be evaluated at x0: {type(e).__name__}")
        self.x0 = self.cap.x0.copy()
        self.seen = []  # (x, value)
        self.bad = {}
        self.flags = set()
        self.record(self.x0, self.cap(self.x0))

    def record(self, x, v):
        self.seen.append((np.array(x, dtype=float), np.array(v, dtype=float, copy=True)))

    def point(self, factors):
        f = np.array((list(factors) * (self.x0.size // max(len(factors), 1) + 1))[: self.x0.size], dtype=float)
        return self.x0 * f if self.x0.size else self.x0.copy()

    def step(self, op):
        from vlib import capture

        with warnings.catch_warnings():
            warnings.simplefilter("ignore")
            name = op[0]
            if name == "eval":
                x = self.point(op[1])
                for xs, vs in self.seen:
                    if np.array_equal(xs, x):
                        with expect_ok("history.reevaluation_of_a_good_vector_raises"):
                            v1 = self.cap(x)
                        return self._compare(x, vs, v1, "history.repeat_differs")
                try:
                    v = self.cap(x)
                except Exception:  # noqa: BLE001  (the domain of x is not restricted by the statement)
                    self.flags.add("raised")
                    return
                if np.all(np.isfinite(v)):
                    self.record(x, v)
                    self.flags.add("new")
            elif name == "reeval":
                x, v0 = self.seen[op[1] % len(self.seen)]
                if len(self.seen) > 1 and (op[1] % len(self.seen)) != len(self.seen) - 1:
                    self.flags.add("return")
                with expect_ok("history.reevaluation_of_a_good_vector_raises"):
                    v1 = self.cap(x)  # x was evaluated without error before: it must evaluate again
                self._compare(x, v0, v1, "history.value_depends_on_history")
            elif name == "near":
                # a vector next to one already evaluated (one coordinate moved by a relative step far above round-off): evaluated
                # right after its neighbour, it must give what a fresh optimizer gives for it
                x0_, _ = self.seen[op[1] % len(self.seen)]
                if x0_.size == 0:
                    return
                x = x0_.copy()
                j = op[2] % x.size
                x[j] = x[j] * (1.0 + op[3]) if x[j] != 0 else op[3]
                with expect_ok("history.reevaluation_of_a_good_vector_raises"):
                    self.cap(x0_)
                try:
                    v1 = self.cap(x)
                except Exception:  # noqa: BLE001
                    self.flags.add("raised")
                    return
                if not np.all(np.isfinite(v1)):
                    return
                with expect_ok("fresh.setup"):
                    cap2 = capture.open_objective(build_scheme(self.kind, self.case, add_svd=False))
                with expect_ok("fresh.evaluation_of_a_good_vector_raises"):
                    v2 = cap2(x)
                self._compare(x, v2, v1, "history.value_at_a_neighbouring_vector_depends_on_history")
                self.record(x, v1)
                self.flags.add("near")
                if self.case.get("time_unit"):
                    self.flags.add("near_rescaled_time_unit")
            elif name == "clobber":
                # the optimizer works on copies of the caller's data and weights (DataProvider: "get a copy of data"): the caller
                # overwrites its own arrays - afterwards every vector evaluated before still gives the same penalty
                done = 0
                for ds in self.scheme.data.values():
                    for var in ("data", "weight"):
                        if var in ds and ds[var].values.flags.writeable:
                            ds[var].values[...] = ds[var].values * op[1] + 1.0
                            done += 1
                if done:
                    self.snap = snapshot(self.scheme)
                    self.flags.add("caller_overwrote_its_data")
                    x, v0 = self.seen[-1]
                    with expect_ok("history.reevaluation_of_a_good_vector_raises"):
                        v1 = self.cap(x)
                    self._compare(x, v0, v1, "history.value_depends_on_what_the_caller_did_to_its_data_afterwards")
            elif name == "raise":
                x = self.x0.copy()
                if x.size == 0:
                    return
                x[op[1] % x.size] = np.nan
                try:
                    self.cap(x)
                except Exception:  # noqa: BLE001
                    self.flags.add("raised")
            elif name == "bad":
                # a (finite) vector that may make the model raise: its outcome - the exception type, or the vector -
                # must be the same when evaluated again, immediately or after other points
                x = self.x0.copy()
                if x.size == 0:
                    return
                x[op[1] % x.size] *= op[2]
                key = ("bad", op[1] % x.size, op[2])
                out = self._outcome(x)
                if out[0] == "raised":
                    self.flags.add("raised")
                    self.flags.add("raised_finite_vector")
                prev = self.bad.get(key)
                if prev is None:
                    self.bad[key] = out
                    prev = out
                    out = self._outcome(x)  # immediately again
                check(prev[0] == out[0] and (prev[1] == out[1] if out[0] == "raised" else same_vector_nan(prev[1], out[1])),
                      "history.outcome_of_raising_vector_depends_on_history",
                      lambda: f"x={x.tolist()}: first {prev[0]} {prev[1] if prev[0]=='raised' else ''}, then {out[0]} {out[1] if out[0]=='raised' else ''}")
            elif name == "fresh":
                x, v0 = self.seen[op[1] % len(self.seen)]
                with expect_ok("fresh.setup"):
                    cap2 = capture.open_objective(build_scheme(self.kind, self.case, add_svd=False))
                with expect_ok("fresh.evaluation_of_a_good_vector_raises"):
                    v2 = cap2(x)
                self._compare(x, v0, v2, "fresh.optimizer_differs")
                self.flags.add("fresh")
            elif name == "threads":
                import numba

                n = max(1, min(int(op[1]), numba.config.NUMBA_NUM_THREADS))
                numba.set_num_threads(n)
                self.flags.add(f"threads")
            else:
                raise ValueError(name)
        now = snapshot(self.scheme)
        for part in ("parameters", "model", "data"):
            check(now[part] == self.snap[part], f"inputs.{part}_changed", lambda: f"after {op}")

    def _outcome(self, x):
        try:
            return ("value", self.cap(x))
        except Exception as e:  # noqa: BLE001
            return ("raised", type(e).__name__)

    def _compare(self, x, v0, v1, clause):
        s = same_vector(v0, v1)
        check(s is not None, clause, lambda: f"x={x.tolist()} max diff {np.abs(np.asarray(v0) - np.asarray(v1)).max() if np.shape(v0)==np.shape(v1) else 'shape'}")
        self.flags.add("bit_equal" if s == "bit" else "close_not_bit")


class ObjectiveMachine(RuleBasedStateMachine):
    stats: dict = {}

    def __init__(self):
        super().__init__()
        self.log = []
        self.it = None
        self.dead = False

    @initialize(kc=case_strategy)
    def setup(self, kc):
        kind, case = kc
        self.log = [["init", kind, case]]
        try:
            self.it = Interp(kind, case)
        except Discard:
            self.dead = True
        except Violation:
            type(self).stats["last_fail"] = {"steps": self.log}
            raise

    def _do(self, op):
        if self.dead or self.it is None:
            return
        self.log.append(op)
        try:
            self.it.step(op)
        except Violation:
            type(self).stats["last_fail"] = {"steps": copy.deepcopy(self.log)}
            raise

    @rule(f=st.lists(st.sampled_from([0.7, 0.85, 0.95, 1.0, 1.05, 1.2, 1.5]), min_size=1, max_size=4))
    def eval_new(self, f):
        self._do(["eval", f])

    @rule(i=st.integers(0, 30))
    def reeval(self, i):
        self._do(["reeval", i])

    @rule(f=st.lists(st.sampled_from([0.8, 0.9, 1.1, 1.3]), min_size=1, max_size=3))
    def eval_new_b(self, f):
        self._do(["eval", f])

    @rule(i=st.integers(0, 3))
    def reeval_early(self, i):
        self._do(["reeval", i])

    @rule(i=st.integers(0, 7))
    def eval_raises(self, i):
        self._do(["raise", i])

    @rule(i=st.integers(0, 7), f=st.sampled_from([1e4, 1e6, 1e8, -1e3, 1e-8]))
    def eval_bad(self, i, f):
        self._do(["bad", i, f])

    @rule(i=st.integers(0, 30), j=st.integers(0, 7), r=st.sampled_from([1e-6, -1e-6, 1e-8, 1e-10]))
    def near(self, i, j, r):
        self._do(["near", i, j, r])

    @rule(f=st.sampled_from([0.0, 0.5, -2.0]))
    def clobber(self, f):
        self._do(["clobber", f])

    @rule(i=st.integers(0, 30))
    def fresh(self, i):
        self._do(["fresh", i])

    @rule(n=st.sampled_from([1, 2, 3, 5, 8, 16]))
    def threads(self, n):
        self._do(["threads", n])

    def teardown(self):
        s = type(self).stats
        s["runs"] += 1
        if self.it is None or self.dead:
            s["tags"]["discarded_scheme"] += 1
            return
        s["steps"] += len(self.log)
        fl = self.it.flags
        for f in fl:
            s["tags"][f] += 1
        s["tags"][self.it.kind] += 1
        if "return" in fl and "new" in fl:
            s["nontrivial"].add(digest(self.log))
            if "raised" in fl:
                s["tags"]["nontrivial_with_raising_evaluation"] += 1
            if len(s["samples"]) < 2:
                s["samples"].append({"steps": [self.log[0][:2] + ["<case omitted>"]] + self.log[1:]})
        try:
            import numba

            numba.set_num_threads(1)
        except Exception:  # noqa: BLE001
            pass


def replay_steps(case):
    steps = case["steps"]
    _, kind, c = steps[0]
    it = Interp(kind, c)
    for op in steps[1:]:
        it.step(op)


# ------------------------------------------------------------------------------------------


def prop_twice(kc):
    """optimize() twice gives identical results and leaves its inputs unchanged."""
    from glotaran.optimization.optimize import optimize
    from vlib.props.c02 import conflicts

    kind, case, method, add_svd = kc["kind"], kc["case"], kc["method"], kc["add_svd"]
    if kind == "table" and conflicts(case):
        raise Discard("undefined semantics")
    with warnings.catch_warnings():
        warnings.simplefilter("ignore")
        try:
            scheme = build_scheme(kind, case, add_svd=add_svd, maximum_number_function_evaluations=kc["nfev"], optimization_method=method)
            snap = snapshot(scheme)
            r1 = optimize(scheme, verbose=False, raise_exception=True)
        except Exception as e:  # noqa: BLE001
            raise Discard(f"scheme cannot be optimised: {type(e).__name__}")
        now = snapshot(scheme)
        for part in ("parameters", "model", "data"):
            check(now[part] == snap[part], f"twice.inputs_{part}_changed", lambda: f"{method}")
        # a Result does not share objects with the caller's scheme: while the caller prepares the next run (fixed values changed, standard
        # errors set) the first result stays what it was; everything is put back before the second run
        r1_before = {p.label: (p.value, p.standard_error, p.vary) for p in r1.optimized_parameters.all()}
        undo = []
        for p in scheme.parameters.all():
            if p.expression is None and not p.vary:
                undo.append((p, "value", p.value))
                p.value = p.value * 1.25 + 0.125
            if p.expression is None and p.vary:
                undo.append((p, "standard_error", p.standard_error))
                p.standard_error = 0.321
        r1_after = {p.label: (p.value, p.standard_error, p.vary) for p in r1.optimized_parameters.all()}
        same_par = all((a == b) or (a != a and b != b) for lab in r1_before for a, b in zip(r1_before[lab], r1_after[lab]))
        check(same_par, "twice.earlier_result_shares_parameters_with_the_scheme",
              lambda: f"{[(lab, r1_before[lab], r1_after[lab]) for lab in r1_before if r1_before[lab] != r1_after[lab] and not (r1_before[lab][1] != r1_before[lab][1])][:3]}")
        for p, attr, val in undo:
            setattr(p, attr, val)
        with expect_ok("twice.second_run"):
            r2 = optimize(scheme, verbose=False, raise_exception=True)
        # ... and the other way round: the second run does not rewrite the first result (standard errors, values)
        r1_later = {p.label: (p.value, p.standard_error, p.vary) for p in r1.optimized_parameters.all()}
        same_par = all((a == b) or (a != a and b != b) for lab in r1_before for a, b in zip(r1_before[lab], r1_later[lab]))
        check(same_par, "twice.earlier_result_changed_by_the_second_run", lambda: f"{[(lab, r1_before[lab], r1_later[lab]) for lab in r1_before][:3]}")
        # ... nor does continuing from the first result (optimize(result.get_scheme()))
        try:
            optimize(r1.get_scheme(), verbose=False, raise_exception=True)
            continued = True
        except Exception:  # noqa: BLE001  (a continued run may legitimately fail: only its effect on r1 is decided here)
            continued = False
        r1_later = {p.label: (p.value, p.standard_error, p.vary) for p in r1.optimized_parameters.all()}
        same_par = all((a == b) or (a != a and b != b) for lab in r1_before for a, b in zip(r1_before[lab], r1_later[lab]))
        check(same_par, "twice.earlier_result_changed_by_a_continued_run",
              lambda: f"{[(lab, r1_before[lab], r1_later[lab]) for lab in r1_before if r1_before[lab] != r1_later[lab]][:3]}")
        now = snapshot(scheme)
        for part in ("parameters", "model", "data"):
            check(now[part] == snap[part], f"twice.inputs_{part}_changed", lambda: f"{method} (second run)")
    for p in r1.optimized_parameters.all():
        q = r2.optimized_parameters.get(p.label)
        check(p.value == q.value or (p.value != p.value and q.value != q.value), "twice.parameters_differ", lambda: f"{p.label}: {p.value!r} vs {q.value!r}")
    check(r1.cost == r2.cost, "twice.cost_differs", lambda: f"{r1.cost!r} vs {r2.cost!r}")
    check(r1.number_of_function_evaluations == r2.number_of_function_evaluations, "twice.nfev_differs")
    for lab in r1.data:
        check(np.array_equal(r1.data[lab].residual.values, r2.data[lab].residual.values), "twice.residual_differs", lambda: lab)
        check(np.array_equal(r1.data[lab].clp.values, r2.data[lab].clp.values), "twice.clp_differs", lambda: lab)
    return {"nontrivial": True, "tags": [kind, method, "add_svd" if add_svd else "no_svd"]}


def prop_kernels(case):
    """The compiled (numba, parallel=True) kernels give the same matrices for every thread count and repetition."""
    import numba

    from glotaran.model.item import fill_item
    from glotaran.optimization.matrix_provider import MatrixProvider

    with warnings.catch_warnings():
        warnings.simplefilter("ignore")
        try:
            model = kinetic.build_model(kinetic.fit_model(case))
            params = kinetic.build_parameters(kinetic.fit_model(case))
        except Exception as e:  # noqa: BLE001
            raise Discard(f"model cannot be built: {type(e).__name__}")
        limit = numba.config.NUMBA_NUM_THREADS
        bit = close = 0
        try:
            for lab, d in case["datasets"].items():
                dm = fill_item(model.dataset[lab], model, params)
                g, t = np.asarray(d["spectral"], float), np.asarray(d["time"], float)
                numba.set_num_threads(1)
                ref = MatrixProvider.calculate_dataset_matrix(dm, g, t).matrix.copy()
                for n in (2, 5, 16):
                    numba.set_num_threads(min(n, limit))
                    for _ in range(3):
                        m = MatrixProvider.calculate_dataset_matrix(dm, g, t).matrix
                        s_ = same_vector(ref.ravel(), m.ravel())
                        check(s_ is not None, "kernels.matrix_depends_on_thread_count", lambda: f"{lab}: threads {n}: max diff {np.abs(ref - m).max():.3e}")
                        bit += s_ == "bit"
                        close += s_ == "close"
        finally:
            numba.set_num_threads(1)
    irf = next(iter(case["spec"].get("irf", {"x": {"type": "none"}}).values()))["type"]
    return {"nontrivial": irf == "spectral-gaussian" or any(m["type"] == "damped-oscillation" for m in case["spec"]["megacomplex"].values()),
            "tags": [f"irf:{irf}", "all_bit_equal" if close == 0 else "some_close_not_bit", f"launch_thread_limit={limit}"]}


twice_strategy = st.builds(
    lambda kc, m, n, s: {"kind": kc[0], "case": kc[1], "method": m, "nfev": n, "add_svd": s},
    case_strategy,
    st.sampled_from(["TrustRegionReflection", "Dogbox", "Levenberg-Marquardt"]),
    st.integers(2, 6),
    st.booleans(),
)


# ------------------------------------------------------------------------------------------
# fresh processes x thread counts


def batch_cases(seed, n):
    import hypothesis
    from hypothesis import HealthCheck
    from hypothesis import Phase
    from hypothesis import given
    from hypothesis import settings

    out = []

    @hypothesis.seed(seed)
    @settings(max_examples=n, database=None, deadline=None, phases=[Phase.generate], suppress_health_check=list(HealthCheck))
    @given(kinetic.kinetic_cases(max_datasets=2))
    def collect(c):
        out.append(c)

    collect()
    return out[:n]


def child_main(seed, n, outfile):
    from vlib import capture

    res = {}
    with warnings.catch_warnings():
        warnings.simplefilter("ignore")
        for i, case in enumerate(batch_cases(seed, n)):
            try:
                cap = capture.open_objective(build_scheme("kinetic", case, add_svd=False))
                v0 = cap(cap.x0)
                v1 = cap(cap.x0 * 1.1)
                v2 = cap(cap.x0)
                res[f"c{i}_x0"] = v0
                res[f"c{i}_x1"] = v1
                res[f"c{i}_x0b"] = v2
            except Exception as e:  # noqa: BLE001
                res[f"c{i}_err"] = np.array([hash(type(e).__name__) % 1000], dtype=float)
    np.savez(outfile, **res)


def procs(tier, seed):
    r = ShardResult()
    n = 6 if tier == "quick" else 24
    combos = [(1, 0), (16, 0), (2, 0), (5, 0)] if tier == "quick" else [(t, rep) for t in (1, 2, 3, 5, 8, 16) for rep in (0, 1)]
    root = str(Path(__file__).resolve().parent.parent.parent)
    with tempfile.TemporaryDirectory() as tmp:
        procs_ = []
        for t, rep in combos:
            env = dict(os.environ)
            env.update(NUMBA_NUM_THREADS=str(t), VERIF_C10_THREADS=str(t), PYTHONHASHSEED=str(rep))
            out = os.path.join(tmp, f"t{t}_r{rep}.npz")
            procs_.append((t, rep, out, subprocess.Popen([sys.executable, "-c", f"import sys; sys.path.insert(0, {root!r}); from vlib.props import c10; c10.child_main({seed}, {n}, {out!r})"], env=env, cwd=root, stdout=subprocess.PIPE, stderr=subprocess.PIPE)))
        results = {}
        for t, rep, out, p in procs_:
            so, se = p.communicate(timeout=1800)
            if p.returncode != 0:
                r.errors.append({"sub": "procs", "traceback": se.decode()[-2000:], "case": None})
                continue
            results[(t, rep)] = dict(np.load(out))
    if not results:
        return r
    base_key = sorted(results)[0]
    base = results[base_key]
    bit = close = 0
    for key, res in results.items():
        for name, v in res.items():
            r.evaluations += 1
            if name not in base:
                r.failures.append({"sub": "procs", "clause": "procs.outcome_differs", "message": f"{name} present for {key} only", "case": {"seed": seed, "n": n, "threads": key[0]}})
                r.failure_counts["procs.outcome_differs"] += 1
                continue
            s = same_vector(base[name], v)
            if s is None:
                r.failure_counts["procs.objective_differs_across_processes_or_threads"] += 1
                r.failures.append({"sub": "procs", "clause": "procs.objective_differs_across_processes_or_threads",
                                   "message": f"{name}: threads/rep {base_key} vs {key}: max diff {np.abs(base[name]-v).max() if base[name].shape==v.shape else 'shape'}",
                                   "case": {"seed": seed, "n": n, "threads": [base_key[0], key[0]], "name": name}})
            elif s == "bit":
                bit += 1
            else:
                close += 1
        for i in range(n):
            a, b = res.get(f"c{i}_x0"), res.get(f"c{i}_x0b")
            if a is not None and b is not None and same_vector(a, b) is None:
                r.failure_counts["procs.repeat_differs"] += 1
                r.failures.append({"sub": "procs", "clause": "procs.repeat_differs", "message": f"case {i} threads {key}", "case": {"seed": seed, "n": n, "threads": key[0], "i": i}})
            if a is not None:
                r.nontrivial.add(digest([seed, i, key]))
    r.tags["bit_equal"] = bit
    r.tags["close_not_bit"] = close
    r.extra["processes"] = len(results)
    r.samples.append({"thread_counts_x_repetitions": sorted(results), "batch": n, "batch_seed": seed})
    return r


def prop_procs_replay(case):
    """Replay of a process-matrix failure: recompute the batch in fresh processes with the recorded thread counts."""
    threads = case["threads"] if isinstance(case["threads"], list) else [1, case["threads"]]
    root = str(Path(__file__).resolve().parent.parent.parent)
    res = {}
    with tempfile.TemporaryDirectory() as tmp:
        for t in threads:
            env = dict(os.environ)
            env.update(NUMBA_NUM_THREADS=str(t), VERIF_C10_THREADS=str(t))
            out = os.path.join(tmp, f"t{t}.npz")
            p = subprocess.run([sys.executable, "-c", f"import sys; sys.path.insert(0, {root!r}); from vlib.props import c10; c10.child_main({case['seed']}, {case['n']}, {out!r})"],
                               env=env, cwd=root, capture_output=True, timeout=1800)
            if p.returncode != 0:
                raise RuntimeError(p.stderr.decode()[-1000:])
            res[t] = dict(np.load(out))
    a, b = res[threads[0]], res[threads[-1]]
    for name in a:
        check(name in b and same_vector(a[name], b[name]) is not None, "procs.objective_differs_across_processes_or_threads", lambda: f"{name}: threads {threads}")
    for i in range(case["n"]):
        for r_ in (a, b):
            if f"c{i}_x0" in r_ and f"c{i}_x0b" in r_:
                check(same_vector(r_[f"c{i}_x0"], r_[f"c{i}_x0b"]) is not None, "procs.repeat_differs", lambda: f"case {i}")
    return {"nontrivial": True, "tags": ["replay"]}


PROPERTY = Property(
    id="C10",
    level="exploration",
    rule=(
        "Hypothesis rule-based state machine over a captured objective (C02 scheme space incl. penalties/relations/full models, and built-in "
        "kinetic schemes with Gaussian / dispersed IRF): rules eval(new x), re-eval(earlier x), eval(x with NaN -> raises), fresh optimizer, "
        "set_num_threads(n); after every step the value at x must equal the first value recorded for x (bit-equality counted, violation above "
        "1e-12 relative) and deep snapshots of the caller's parameters, model and data must be unchanged. Plus optimize() twice for all three "
        "methods, and a fresh-process matrix NUMBA_NUM_THREADS x repetitions on a seeded batch. Non-trivial machine = returned to an earlier point "
        "after at least one different point."
    ),
    subs=[
        Sub("history", machine=lambda: ObjectiveMachine, replay_steps=replay_steps, budget={"quick": 160, "thorough": 8000}, steps={"quick": 14, "thorough": 30}),
        Sub("twice", prop=prop_twice, strategy=lambda: twice_strategy, budget={"quick": 96, "thorough": 4000}),
        Sub("kernels", prop=prop_kernels, strategy=lambda: kinetic.kinetic_cases(max_datasets=2), budget={"quick": 16, "thorough": 3000},
            shards={"quick": 2, "thorough": 4},
            doc="dataset matrices of built-in kinetic models recomputed under numba thread counts 2, 5, 16 x 3 repetitions vs one thread "
                "(4 worker processes only: each uses up to 16 numba threads)"),
        Sub("procs", prop=prop_procs_replay, custom=procs),
    ],
    assumptions=[
        "the harness cannot own numba's scheduler: thread interleavings are only sampled (thread counts x fresh processes x repetitions)",
        "SVD variables added to the caller's datasets by add_svd=True are not 'data values' (snapshot covers data, weight and coordinates)",
    ],
)
