"""C14 - simulation and fitting agree: simulated data are reproduced and recovered."""

from __future__ import annotations

import warnings

import numpy as np

from vlib.core import Discard
from vlib.core import Property
from vlib.core import Sub
from vlib.core import check
from vlib.core import expect_ok
from vlib.gen import kinetic


def _scheme(model, params, data, **kw):
    from glotaran.project import Scheme

    return Scheme(model, params, data, **kw)


def tags_of(case):
    t = [case["sim"]]
    types = sorted({m["type"] for m in case["spec"]["megacomplex"].values()})
    t += types
    if "irf" in case["spec"]:
        t.append("irf:" + next(iter(case["spec"]["irf"].values()))["type"])
    if len(case["datasets"]) > 1:
        t.append("multi_dataset")
    if any("scale" in d for d in case["spec"]["dataset"].values()):
        t.append("dataset_scale")
    return t


def nontrivial(case):
    types = {m["type"] for m in case["spec"]["megacomplex"].values()}
    irf = next(iter(case["spec"].get("irf", {"x": {"type": "none"}}).values()))["type"]
    return len(types) >= 2 or irf in ("spectral-gaussian", "multi-gaussian") or (len(case["datasets"]) >= 2 and any("scale" in d for d in case["spec"]["dataset"].values()))


def prop_reproduce(case):
    from vlib import capture

    with warnings.catch_warnings():
        warnings.simplefilter("ignore")
        with expect_ok("sim.build"):
            model = kinetic.build_model(case)
            truth = kinetic.build_parameters(case)
        with expect_ok("sim.simulate"):
            data, clps = kinetic.simulate_data(case, model, truth)
        fcase = kinetic.fit_model(case)
        fmodel = kinetic.build_model(fcase)
        ftruth = kinetic.build_parameters(fcase)
        for lab, ds in data.items():
            check(bool(np.all(np.isfinite(ds.data.values))), "sim.finite_data", lambda: lab)
        # conditioning gate: the clp problem must be well posed (statement: "reproduced exactly ... to rounding")
        from glotaran.model.item import fill_item
        from glotaran.optimization.matrix_provider import MatrixProvider

        worst = 1.0
        for lab, d in case["datasets"].items():
            dm = fill_item(fmodel.dataset[lab], fmodel, ftruth)
            mc = MatrixProvider.calculate_dataset_matrix(dm, np.asarray(d["spectral"]), np.asarray(d["time"]))
            mats = mc.matrix if mc.matrix.ndim == 3 else mc.matrix[None]
            for m in mats:
                sv = np.linalg.svd(m, compute_uv=False)
                worst = max(worst, sv[0] / max(sv[-1], 1e-300))
        if worst > 1e6:
            raise Discard("clp matrix cond > 1e6")
        scheme = _scheme(fmodel, ftruth, data, maximum_number_function_evaluations=1)
        with expect_ok("sim.objective"):
            cap = capture.open_objective(scheme)
            obj = cap(cap.x0)
        dmax = max(float(np.abs(ds.data.values).max()) for ds in data.values())
        tol = 1e-8 * dmax * max(1.0, worst / 1e3)
        check(np.abs(obj).max() <= tol, "sim.objective_zero_at_truth", lambda: f"|objective|_inf = {np.abs(obj).max():.3e} > {tol:.3e} (|data|={dmax:.3g}, cond {worst:.1e})")
        # clps = generating clps / dataset scale  (clp-driven simulation)
        with expect_ok("sim.optimize_truth"):
            from glotaran.optimization.optimize import optimize

            res = optimize(_scheme(fmodel, ftruth, data, maximum_number_function_evaluations=3), verbose=False, raise_exception=True)
        if case["sim"] == "clp":
            for lab, clp in clps.items():
                sc = case["spec"]["dataset"][lab].get("scale")
                scale = float(truth.get(sc).value) if sc else 1.0
                got = res.data[lab].clp
                for l in clp.coords["clp_label"].values:
                    want = clp.sel(clp_label=l).values / scale
                    g = got.sel(clp_label=l).values
                    e = np.abs(g - want).max()
                    t2 = 1e-7 * max(1.0, np.abs(clp.values).max() / scale) * max(1.0, worst / 1e3)
                    check(e <= t2, "sim.clp_equals_generating_over_scale", lambda: f"{lab} {l}: max diff {e:.3e} (scale {scale})")
        # optimiser does not move away from the truth
        for p in ftruth.all():
            if p.vary and p.expression is None:
                q = res.optimized_parameters.get(p.label)
                check(abs(q.value - p.value) <= 1e-6 * max(abs(p.value), 1e-3) * max(1.0, worst / 1e3), "sim.optimizer_stays_at_truth", lambda: f"{p.label}: {p.value} -> {q.value}")
    return {"nontrivial": nontrivial(case), "tags": tags_of(case)}


def prop_noise(case):
    """simulate(noise_seed=s) twice is bit-identical; different seeds differ."""
    import copy

    with warnings.catch_warnings():
        warnings.simplefilter("ignore")
        model = kinetic.build_model(case)
        truth = kinetic.build_parameters(case)
        c = copy.deepcopy(case)
        for d in c["datasets"].values():
            d["noise"] = 0.05
        with expect_ok("noise.simulate"):
            a, _ = kinetic.simulate_data(c, model, truth)
            b, _ = kinetic.simulate_data(c, model, truth)
        for d in c["datasets"].values():
            d["noise_seed"] += 1
        with expect_ok("noise.simulate"):
            e, _ = kinetic.simulate_data(c, model, truth)
            clean, _ = kinetic.simulate_data(case, model, truth)
    # the same seed held in a numpy integer type (an element of np.arange, a value read from a table) is the same seed
    from glotaran.simulation import simulate

    lab0 = next(iter(c["datasets"]))
    d0 = c["datasets"][lab0]
    coords0 = kinetic.coordinates(c, d0)
    seed0 = int(d0["noise_seed"])
    sims = []
    with expect_ok("noise.simulate_numpy_seed"):
        for sd in (seed0, np.int64(seed0), np.arange(seed0, seed0 + 1)[0], np.uint32(seed0)):
            if case["sim"] == "full":
                sims.append(simulate(model, lab0, truth, coords0, noise=True, noise_std_dev=0.05, noise_seed=sd))
            else:
                labels0 = kinetic.clp_labels_of(model, truth, lab0, coords0)
                sims.append(simulate(model, lab0, truth, coords0, clp=kinetic.make_clp(labels0, d0["spectral"], d0["clp_seed"]), noise=True, noise_std_dev=0.05, noise_seed=sd))
    for k_, sim_ in enumerate(sims[1:], start=1):
        check(np.array_equal(sims[0].data.values, sim_.data.values), "noise.numpy_integer_seed_differs_from_python_int", lambda: f"{lab0}: seed representation #{k_}")
    for lab in a:
        check(np.array_equal(a[lab].data.values, b[lab].data.values), "noise.same_seed_bit_identical", lambda: lab)
        check(not np.array_equal(a[lab].data.values, e[lab].data.values), "noise.different_seed_differs", lambda: lab)
        check(not np.array_equal(a[lab].data.values, clean[lab].data.values), "noise.noise_added", lambda: lab)
    return {"nontrivial": nontrivial(case), "tags": tags_of(case)}


def prop_recover(case):
    """Started from <= 20 % perturbed values an identifiable model returns to the generating parameters."""
    from glotaran.optimization.optimize import optimize

    with warnings.catch_warnings():
        warnings.simplefilter("ignore")
        model = kinetic.build_model(case)
        truth = kinetic.build_parameters(case)
        data, clps = kinetic.simulate_data(case, model, truth)
        fcase = kinetic.fit_model(case)
        fmodel = kinetic.build_model(fcase)
        ftruth = kinetic.build_parameters(fcase)
        start = kinetic.build_parameters(fcase, perturb=True)
        # identifiability gate (documented in DESIGN): cond(J) at the truth < 1e4, time axis covers 0.2..5 lifetimes
        from vlib import capture

        cap = capture.open_objective(_scheme(fmodel, ftruth, data, maximum_number_function_evaluations=1))
        x0 = cap.x0
        if x0.size == 0:
            raise Discard("no free parameter")

        def fresh_eval(x):
            """The objective at x through a brand-new model, parameter set and optimizer (first evaluation only): the gates must
            not depend on state the optimizer keeps between evaluations - that state is part of what this check decides."""
            pm = kinetic.build_parameters(fcase)
            pm.set_from_label_and_value_arrays(cap.labels, np.asarray(x, dtype=float))
            c_ = capture.open_objective(_scheme(kinetic.build_model(fcase), pm, data, maximum_number_function_evaluations=1))
            return c_(c_.x0)

        f0 = fresh_eval(x0)
        J = np.zeros((f0.size, x0.size))
        for i in range(x0.size):
            h = 1e-6 * max(abs(x0[i]), 1e-3)
            xp = x0.copy(); xp[i] += h
            xm = x0.copy(); xm[i] -= h
            J[:, i] = (fresh_eval(xp) - fresh_eval(xm)) / (2 * h)
        Jn = J * np.maximum(np.abs(x0), 1e-3)
        sv = np.linalg.svd(Jn, compute_uv=False)
        if sv[-1] <= 0 or sv[0] / sv[-1] > 1e4:
            raise Discard("not identifiable (cond J > 1e4)")
        dnorm = np.sqrt(sum(float((ds.data.values ** 2).sum()) for ds in data.values()))
        if sv[-1] < 1e-2 * dnorm:
            raise Discard("not identifiable (data insensitive to a parameter)")
        if sv[-1] < 1e-3:
            # scipy's termination tests are absolute (gradient norm): with tiny data the optimiser stops early by construction
            raise Discard("absolute sensitivity below the optimiser's (absolute) termination tolerances")
        # landscape gate: between start and truth the cost must decrease monotonically towards the truth (else the start is
        # not "moderately perturbed" with respect to this model's landscape; a local optimiser owes nothing there)
        free = [p.label for p in ftruth.all() if p.vary and p.expression is None]
        cap2 = capture.open_objective(_scheme(fmodel, start, data, maximum_number_function_evaluations=1))
        xs, xt = cap2.x0.copy(), None
        labs2, xt, _, _ = ftruth.get_label_value_and_bounds_arrays(exclude_non_vary=True)
        if list(labs2) != list(cap2.labels):
            raise Discard("free label order differs")
        costs = []
        for a in np.linspace(0.0, 1.0, 13):
            v = fresh_eval(xs + a * (np.asarray(xt) - xs))
            costs.append(float(v @ v))
        if any(c2 > c1 * (1 + 1e-9) + 1e-300 for c1, c2 in zip(costs[:-1], costs[1:])):
            raise Discard("cost not monotone between start and truth (multi-modal landscape)")
        with expect_ok("recover.optimize"):
            res = optimize(_scheme(fmodel, start, data, maximum_number_function_evaluations=60, ftol=1e-14, xtol=1e-14, gtol=1e-14), verbose=False, raise_exception=True)
        dmax = max(float(np.abs(ds.data.values).max()) for ds in data.values())
        # local minima are not excluded by the statement's "identifiable": gate on having reached the zero residual
        worst = 0.0
        rt, rq = [], []
        for p in ftruth.all():
            if p.vary and p.expression is None:
                q = res.optimized_parameters.get(p.label)
                if p.label.startswith("rates.") and p.label.split(".")[1].startswith("s"):
                    rt.append(p.value)  # decay rates are identifiable up to a permutation of the compartments
                    rq.append(q.value)
                else:
                    worst = max(worst, abs(q.value - p.value) / max(abs(p.value), 1e-3))
        for a, b in zip(sorted(rt), sorted(rq)):
            worst = max(worst, abs(a - b) / max(abs(a), 1e-3))
        check(res.cost <= 0.5 * costs[0] * (1 + 1e-9) + 1e-300, "recover.cost_increased", lambda: f"cost {res.cost:.3e} > start cost {0.5*costs[0]:.3e}")
        if worst > 1e-4 and res.cost <= 1e-24 * max(dnorm * dnorm, 1e-300):
            raise Discard("another parameter set reproduces the data exactly (not identifiable)")
        check(worst <= 1e-4 * max(1.0, sv[0] / sv[-1] / 10), "recover.returns_to_truth", lambda: f"max relative parameter error {worst:.3e} (cond J {sv[0]/sv[-1]:.1e}, cost {res.cost:.3e}, nfev {res.number_of_function_evaluations})")
        # the same fit through an Optimizer object whose first run failed (an evaluation refused after a trial step was taken
        # over): run again, it starts from the scheme's start values like a fresh optimizer and returns to the same parameters
        from glotaran.optimization.optimizer import Optimizer

        # (few evaluations: where the run ends then depends on where it started)
        few = dict(maximum_number_function_evaluations=4, ftol=1e-14, xtol=1e-14, gtol=1e-14)
        with expect_ok("recover.reused_optimizer.setup"):
            res = optimize(_scheme(kinetic.build_model(fcase), kinetic.build_parameters(fcase, perturb=True), data, **few), verbose=False, raise_exception=True)
            opt = Optimizer(_scheme(kinetic.build_model(fcase), kinetic.build_parameters(fcase, perturb=True), data, **few), verbose=False, raise_exception=False)
        real, calls = opt.objective_function, [0]

        def refusing(x):
            v = real(x)
            calls[0] += 1
            if calls[0] == 3 + x0.size:
                raise RuntimeError("injected: evaluation refused")
            return v

        opt.objective_function = refusing
        with expect_ok("recover.reused_optimizer.failure_not_contained"):
            opt.optimize()
        del opt.objective_function
        with expect_ok("recover.reused_optimizer.second_run"):
            opt.optimize()
            res2 = opt.create_result()
        check(res2.success, "recover.reused_optimizer.not_successful", lambda: f"{res2.termination_reason}")
        check(calls[0] >= 3 + x0.size, "recover.reused_optimizer.harness", lambda: f"fault not reached after {calls[0]} evaluations")
        dev = max(abs(res2.optimized_parameters.get(p.label).value - res.optimized_parameters.get(p.label).value) / max(abs(p.value), 1e-3) for p in ftruth.all())
        check(dev <= 1e-9, "recover.reused_optimizer_differs_from_fresh", lambda: f"max relative parameter difference {dev:.3e} between the run after a failed run and a fresh optimizer")
    return {"nontrivial": nontrivial(case), "tags": tags_of(case) + (["reused_optimizer_after_failed_run"] if calls[0] >= 3 + x0.size else [])}


PROPERTY = Property(
    id="C14",
    level="exploration",
    rule=(
        "Hypothesis-generated built-in kinetic models (sequential / parallel / general decay; none, Gaussian, multi-Gaussian or dispersed IRF; "
        "baseline, damped oscillation, coherent artifact; 1-3 datasets with shared parameters and dataset scales; clp-driven or full-model "
        "simulation; uniform / dense-early / quadratic time axes). Oracles: objective zero at the generating parameters, clps = generating "
        "clps / scale, optimiser stays at the truth, recovery from <= 20 % perturbation when cond(J) < 1e4, seeded noise reproducible. "
        "Non-trivial = >= 2 megacomplex types, or dispersed/multi-Gaussian IRF, or >= 2 datasets with a scale."
    ),
    subs=[
        Sub("reproduce", prop=prop_reproduce, strategy=lambda: kinetic.kinetic_cases(), budget={"quick": 160, "thorough": 8000}),
        Sub("recover", prop=prop_recover, strategy=lambda: kinetic.kinetic_cases(max_datasets=2, identifiable=True, extras_allowed=False),
            budget={"quick": 96, "thorough": 5000},
            doc="identifiable family by construction: decay models (sequential / parallel / general) with no or a resolved Gaussian IRF on dense-early "
                "time axes; gates: cond(J) <= 1e4, sensitivity, cost monotone between start and truth; rates compared as a sorted set"),
        Sub("noise", prop=prop_noise, strategy=lambda: kinetic.kinetic_cases(max_datasets=2), budget={"quick": 60, "thorough": 3000}),
    ],
    assumptions=["conditioning gates: clp matrices cond <= 1e6, recovery only for cond(J) <= 1e4 at the truth (else discarded and counted)"],
)
