"""C18 - saving never destroys existing files unless asked; project results accumulate.

matrix (exhaustive): every ``glotaran.io.save_*`` x every registered format of its registry (+ an
unknown format, + a harness plugin that writes half a file and raises) x target {absent, file,
empty folder, non-empty folder} x allow_overwrite x format given / inferred from the extension.
Oracle: tree snapshot (path -> sha256, mtime_ns).  Target file exists / target folder non-empty and
allow_overwrite not set => ``FileExistsError`` and identical snapshot - whatever the format; otherwise
a well-formed call (known format implementing the function, file target absent/file, folder target
absent/folder) succeeds.  A by-stander file next to the target is never touched.

project machines (Hypothesis ``RuleBasedStateMachine`` over a real ``Project`` in a temp dir): oracle
= run-number model from the statement: run k of name n lives in ``n_run_{k:04}``, k = 1 + previous
maximum for exactly n (first run 0000); earlier run folders byte-identical and loadable;
``project.results`` = all run folders; latest lookups resolve to the last run of exactly that name
whether or not the argument carries a run specifier.  Three focuses so that one root cause cannot
hide another (a machine stops at its first failure):

* ``project_runs``   optimise / import_data / generate_* / reopen + exact-run lookups   (clauses ``runs.*``, ``flags.*``)
* ``project_latest`` lookups by the bare result name                                   (clauses ``latest.*``)
* ``project_latest_spec`` latest lookups whose argument carries a run specifier         (clauses ``latest_spec.*``)

handles: the statement is about the project *folder* ("every Project.optimize run ...", "the most recent run"), not
about one Python object.  Every history may therefore hold up to three live ``Project`` handles on the same folder
(``handle`` step / ``via`` field of a step: e.g. two notebooks on one project) and use them alternately; the model is
one run-number table for the folder.  After every stored run all live handles are asked (listing, path lookups).
A failure that involves a run stored through *another* handle than the one used is bucketed under ``handles.*``.
``handles_enum_*`` enumerate every short sequence of optimize(name) via handle 0 / 1, both opened before the first run.
"""

from __future__ import annotations

import contextlib
import hashlib
import io
import os
import shutil
import tempfile
import warnings
from collections import Counter
from pathlib import Path

import numpy as np
import xarray as xr
from hypothesis import strategies as st
from hypothesis.stateful import RuleBasedStateMachine
from hypothesis.stateful import initialize
from hypothesis.stateful import precondition
from hypothesis.stateful import rule

from vlib.core import Property
from vlib.core import Sub
from vlib.core import Violation
from vlib.core import check
from vlib.core import digest
from vlib.core import expect_ok

# ------------------------------------------------------------------------------------------
# fixtures (seeded, never glotaran.testing.simulated_data)

MODEL_YML = """\
megacomplex:
  mc:
    type: decay-parallel
    compartments: [species_1]
    rates: [rates.species_1]
dataset:
  dataset_1:
    megacomplex: [mc]
"""


def make_dataset(seed: int) -> xr.Dataset:
    rng = np.random.default_rng(1000 + seed)
    t = np.linspace(0.0, 5.0, 12)
    g = np.array([1.0, 2.0, 3.0])
    amp = np.array([1.0, 0.5, 0.2]) * (1 + 0.1 * seed)
    data = np.exp(-0.7 * t)[:, None] * amp[None, :] + 1e-3 * rng.standard_normal((t.size, g.size))
    return xr.DataArray(data, coords=[("time", t), ("spectral", g)]).to_dataset(name="data")


def make_model():
    from glotaran.io import load_model

    return load_model(MODEL_YML, format_name="yml_str")


def make_parameters():
    from glotaran.parameter import Parameters

    return Parameters.from_dict({"rates": [["species_1", 0.5]]})


@contextlib.contextmanager
def quiet():
    with warnings.catch_warnings(), contextlib.redirect_stdout(io.StringIO()):
        warnings.simplefilter("ignore")
        yield


def sha(path: Path) -> str:
    return hashlib.sha256(path.read_bytes()).hexdigest()


def snapshot(root: Path, mtime: bool = True) -> dict:
    out = {}
    for p in sorted(root.rglob("*")):
        rel = p.relative_to(root).as_posix()
        s = p.lstat()
        if p.is_dir():
            out[rel] = ("<dir>", s.st_mtime_ns if mtime else 0)
        else:
            out[rel] = (sha(p), s.st_mtime_ns if mtime else 0)
    return out


def snap_diff(a: dict, b: dict) -> str:
    gone = sorted(set(a) - set(b))
    new = sorted(set(b) - set(a))
    changed = sorted(k for k in set(a) & set(b) if a[k] != b[k])
    return f"removed={gone} created={new} changed={changed}"


@contextlib.contextmanager
def case_dir():
    cwd = os.getcwd()
    tmp = Path(tempfile.mkdtemp(prefix="verif_c18_")).resolve()
    os.chdir(tmp)
    try:
        yield tmp
    finally:
        os.chdir(cwd)
        shutil.rmtree(tmp, ignore_errors=True)


# ------------------------------------------------------------------------------------------
# matrix

SAVE_FUNCS = ["save_dataset", "save_model", "save_parameters", "save_scheme", "save_result"]
STATES = ["absent", "file", "empty_dir", "nonempty_dir", "dot_only_dir"]
UNKNOWN_FORMAT = "verif_unknown"
HALF_FORMAT = "verif_half"


class HalfWriteError(RuntimeError):
    pass


def _half(path):
    p = Path(path)
    if p.is_dir():
        p = p / "half.bin"
    p.write_bytes(b"half")
    raise HalfWriteError(f"harness plugin failed midway writing {p}")


def _half_plugins():
    from glotaran.io import DataIoInterface
    from glotaran.io import ProjectIoInterface

    class HalfData(DataIoInterface):
        def save_dataset(self, dataset, file_name, **kwargs):
            _half(file_name)

    class HalfProject(ProjectIoInterface):
        def save_model(self, model, file_name, **kwargs):
            _half(file_name)

        def save_parameters(self, parameters, file_name, **kwargs):
            _half(file_name)

        def save_scheme(self, scheme, file_name, **kwargs):
            _half(file_name)

        def save_result(self, result, result_path, **kwargs):
            _half(result_path)

    return HalfData(HALF_FORMAT), HalfProject(HALF_FORMAT)


def registered_formats(fn: str) -> list[str]:
    from glotaran.plugin_system.data_io_registration import known_data_formats
    from glotaran.plugin_system.project_io_registration import known_project_formats

    return list(known_data_formats() if fn == "save_dataset" else known_project_formats())


def matrix_cases(tier: str) -> list:
    out = []
    for fn in SAVE_FUNCS:
        for fmt in registered_formats(fn) + [UNKNOWN_FORMAT, HALF_FORMAT]:
            if fmt.startswith("verif") and fmt not in (UNKNOWN_FORMAT, HALF_FORMAT):
                continue  # formats other harness modules may have registered in this process
            for state in STATES:
                for allow in (False, True):
                    for mode in ("explicit", "inferred"):
                        out.append({"fn": fn, "format": fmt, "state": state, "allow_overwrite": allow, "mode": mode})
                    if fmt not in (UNKNOWN_FORMAT, HALF_FORMAT):
                        # the flag as it comes out of an array / table / configuration file: numpy booleans, 0 / 1
                        out.append({"fn": fn, "format": fmt, "state": state, "allow_overwrite": allow, "mode": "explicit",
                                    "flag": ["numpy", "int"][len(out) % 2]})
                    if fn != "save_result" and fmt not in (UNKNOWN_FORMAT, HALF_FORMAT) and state in ("absent", "file"):
                        # a target without extension with an explicit format, next to a file that carries the extension
                        out.append({"fn": fn, "format": fmt, "state": state, "allow_overwrite": allow, "mode": "explicit", "spelling": "bare"})
                    if fn == "save_result" and fmt not in (UNKNOWN_FORMAT, HALF_FORMAT):
                        # the folder spelling of the target (no extension), which every result format accepts
                        out.append({"fn": fn, "format": fmt, "state": state, "allow_overwrite": allow, "mode": "explicit", "spelling": "bare"})
    for fn in SAVE_FUNCS:
        fmts = [f for f in registered_formats(fn) if not f.startswith("verif")]
        for state in ("file", "nonempty_dir"):
            for fmt in fmts[:2]:
                # ... after a save_result that failed half-way (unknown parameter format inside the folder plugin) in the same process
                out.append({"fn": fn, "format": fmt, "state": state, "allow_overwrite": False, "mode": "explicit", "after_failed_save_result": True})
    for fn in SAVE_FUNCS:
        for fmt in [f for f in registered_formats(fn) if not f.startswith("verif")]:
            for mode in ("explicit", "inferred"):
                # r6c18B: the object was saved to this very file before (its source_path, where it has one, names the target)
                out.append({"fn": fn, "format": fmt, "state": "file", "allow_overwrite": False, "mode": mode, "saved_before": True})
    return out


def _supported(fn: str, fmt: str) -> bool:
    from glotaran.io import DataIoInterface
    from glotaran.io import ProjectIoInterface
    from glotaran.plugin_system.data_io_registration import get_data_io
    from glotaran.plugin_system.project_io_registration import get_project_io

    if fn == "save_dataset":
        plugin, base = get_data_io(fmt), DataIoInterface
    else:
        plugin, base = get_project_io(fmt), ProjectIoInterface
    return getattr(type(plugin), fn) is not getattr(base, fn)


def _payload(fn: str, src: Path):
    """Object to save; inputs live in ``src`` (outside the observed tree)."""
    from glotaran.io import save_dataset
    from glotaran.project import Scheme

    if fn == "save_dataset":
        return make_dataset(0)
    if fn == "save_model":
        return make_model()
    if fn == "save_parameters":
        return make_parameters()
    ds = make_dataset(0)
    save_dataset(ds, src / "dataset_1.nc")
    scheme = Scheme(make_model(), make_parameters(), {"dataset_1": ds}, maximum_number_function_evaluations=1)
    if fn == "save_scheme":
        return scheme
    from glotaran.optimization.optimize import optimize

    return optimize(scheme, verbose=False, raise_exception=True)


def prop_matrix(case):
    import glotaran.io as gio
    from glotaran.testing.plugin_system import monkeypatch_plugin_registry

    fn, fmt, state, allow, mode = case["fn"], case["format"], case["state"], case["allow_overwrite"], case["mode"]
    half_data, half_project = _half_plugins()
    with case_dir() as tmp, monkeypatch_plugin_registry(
        test_data_io={HALF_FORMAT: half_data}, test_project_io={HALF_FORMAT: half_project}
    ), quiet():
        src = tmp / "src"
        work = tmp / "work"
        out = work / "out"
        src.mkdir()
        out.mkdir(parents=True)
        (work / "bystander.keep").write_bytes(b"precious bystander\n")
        (out / "bystander2.keep").write_bytes(b"precious neighbour\n")
        if case.get("spelling") == "bare" and fn != "save_result":
            (out / f"target_dir.{fmt}").write_bytes(b"precious sibling that carries the extension\n")
        target = out / ("target_dir" if case.get("spelling") == "bare" else f"target.{fmt}")
        if state == "file":
            target.write_bytes(b"precious target\n")
        elif state in ("empty_dir", "nonempty_dir", "dot_only_dir"):
            target.mkdir()
            if state == "dot_only_dir":
                # the smallest non-empty folder: hidden entries only
                (target / ".gitkeep").write_bytes(b"")
                (target / ".ipynb_checkpoints").mkdir()
                (target / ".ipynb_checkpoints" / "notebook-checkpoint.ipynb").write_bytes(b"precious hidden content\n")
            if state == "nonempty_dir":
                (target / "keep.txt").write_bytes(b"precious content\n")
                (target / "sub").mkdir()
                (target / "sub" / "deep.txt").write_bytes(b"precious deep content\n")
        payload = _payload(fn, src)
        if case.get("after_failed_save_result"):
            from glotaran.io import SavingOptions

            try:
                gio.save_result(payload if fn == "save_result" else _payload("save_result", src), tmp / "elsewhere" / "result.yml",
                                saving_options=SavingOptions(parameter_format="verif_no_such_format"))
            except Exception:  # noqa: BLE001  (expected: unknown parameter format)
                pass
        if case.get("saved_before"):
            try:
                getattr(gio, fn)(payload, target, fmt, allow_overwrite=True)
            except Exception:  # noqa: BLE001  (formats that cannot write this object: the target still exists)
                pass
        known = fmt != UNKNOWN_FORMAT
        supported = known and fmt != HALF_FORMAT and _supported(fn, fmt)
        folder_target = fn == "save_result" and target.suffix not in (".yml", ".yaml")
        before = snapshot(work)
        protected = state in ("file", "nonempty_dir", "dot_only_dir")
        flag = case.get("flag")
        if flag == "numpy":
            kwargs = {"allow_overwrite": np.bool_(allow)}
        elif flag == "int":
            kwargs = {"allow_overwrite": int(allow)}
        else:
            kwargs = {"allow_overwrite": True} if allow else {}
        raised = None
        try:
            getattr(gio, fn)(payload, target, fmt if mode == "explicit" else None, **kwargs)
        except Exception as e:  # noqa: BLE001
            raised = e
        after = snapshot(work)
        tags = [fn, f"format={fmt}", state, "overwrite" if allow else "protect", mode] + (["folder_spelling" if fn == "save_result" else "target_without_extension"] if case.get("spelling") == "bare" else []) + ([f"flag_{case['flag']}"] if case.get("flag") else []) + (["after_a_failed_save_result"] if case.get("after_failed_save_result") else []) + (["saved_there_before"] if case.get("saved_before") else [])
        where = f"{fn}(format={fmt!r}, {mode}) target={state} allow_overwrite={allow}"
        if protected and not allow:
            check(isinstance(raised, FileExistsError), "matrix.refuses",
                  lambda: f"{where}: expected FileExistsError, got {type(raised).__name__ if raised else 'no exception'}: {raised}")
            check(after == before, "matrix.refusal_leaves_tree", lambda: f"{where}: {snap_diff(before, after)}")
            tags.append("refused")
            return {"nontrivial": (not known) or fmt == HALF_FORMAT or not supported, "tags": tags}
        sibling = [f"out/target_dir.{fmt}"] if (case.get("spelling") == "bare" and fn != "save_result") else []
        for name in ["bystander.keep", "out/bystander2.keep"] + sibling:
            check(after.get(name) == before[name], "matrix.bystander", lambda: f"{where}: {name} touched: {snap_diff(before, after)}")
        # (a file target without extension with an explicit format may be refused by the writer - e.g. pandas' "No engine for
        # filetype" - or written as it is: either way nothing else may be touched)
        wellformed = supported and not sibling and (
            state in ("absent", "empty_dir", "nonempty_dir", "dot_only_dir") if folder_target else state in ("absent", "file")
        )
        if wellformed:
            check(raised is None, "matrix.saves", lambda: f"{where}: {type(raised).__name__}: {raised}")
            check(target.exists(), "matrix.saved_target", lambda: f"{where}: nothing at the target after the call")
            tags.append("saved")
        elif fmt == HALF_FORMAT:
            check(isinstance(raised, (HalfWriteError, IsADirectoryError)) or raised is None, "matrix.plugin_error_propagates",
                  lambda: f"{where}: {type(raised).__name__}: {raised}")
            tags.append("plugin-failed-midway")
        else:
            tags.append("not-wellformed:" + (type(raised).__name__ if raised else "ok"))
        return {"nontrivial": state != "absent", "tags": tags}


# ------------------------------------------------------------------------------------------
# project machines

RESULT_NAMES = ["m", "m1", "m_run_x", "m_run_1", "mm", "m.v2", "m[1]"]  # the last two: D44 (dot, glob characters)
MAX_HANDLES = 3  # live Project objects on one project folder
DATASETS = ["dataset_1", "d2"]
FIT_GENERATOR = ["decay_parallel", {"nr_compartments": 1, "irf": False}]
AUX_GENERATORS = [
    ["decay_parallel", {"nr_compartments": 1, "irf": False}],
    ["decay_parallel", {"nr_compartments": 2, "irf": False}],
    ["decay_sequential", {"nr_compartments": 2, "irf": False}],
]

LOOKUPS = {
    # focus -> list of (function, uses run specifier)
    "runs": [("results", False), ("get_result_path", True), ("load_result", True)],
    "latest": [("get_result_path", False), ("get_result_path_latest", False), ("get_latest_result_path", False),
               ("load_result_latest", False), ("load_latest_result", False)],
    "latest_spec": [("get_latest_result_path", True), ("load_latest_result", True)],
}


def run_dir_hashes(path: Path) -> dict:
    return {p.relative_to(path).as_posix(): sha(p) for p in sorted(path.rglob("*")) if p.is_file()}


class ProjectHistory:
    """Executes JSON steps against a real Project and the run-number model."""

    def __init__(self, focus: str):
        self.focus = focus
        self.cwd = os.getcwd()
        self.tmp = Path(tempfile.mkdtemp(prefix="verif_c18p_")).resolve()
        os.chdir(self.tmp)
        self.folder = self.tmp / "proj"
        self.handles: list = []  # live Project objects on the same folder
        self.serials: list = []  # identity of the object in handles[i] (a reopen replaces the object)
        self.next_serial = 0
        self.active = 0  # index of the handle the steps go through
        self.writer: dict = {}  # result name -> serial of the handle that stored its latest run
        self.counts: dict = {}  # result name -> number of runs stored so far (= next run number)
        self.order: list = []  # existing run folder names in creation order
        self.hashes: dict = {}  # run folder name -> {file: sha256}
        self.data_seed: dict = {}  # dataset name -> seed of the stored data
        self.models: set = set()
        self.tags: set = set()
        self.failed_optimize = 0
        self.crashed: dict = {}  # run folder left behind by a save that failed midway -> {file: sha256}

    def close(self):
        os.chdir(self.cwd)
        shutil.rmtree(self.tmp, ignore_errors=True)

    # -- handles
    @property
    def project(self):
        return self.handles[self.active] if self.handles else None

    @project.setter
    def project(self, proj):
        """(Re)place the object of the active handle."""
        if self.handles:
            self.handles[self.active] = proj
            self.serials[self.active] = self.next_serial
        else:
            self.handles.append(proj)
            self.serials.append(self.next_serial)
        self.next_serial += 1

    def other_handle_wrote(self, name: str, index: int | None = None) -> bool:
        """The latest run of ``name`` was stored through another object than handle ``index`` (default: the active one)."""
        w = self.writer.get(name)
        return w is not None and w != self.serials[self.active if index is None else index]

    def _handle(self, step):
        """Make handle ``index`` the active one; index == number of live handles opens a further one on the same folder."""
        from glotaran.project import Project

        index = min(step["index"], len(self.handles), MAX_HANDLES - 1)
        if index == len(self.handles):
            before = snapshot(self.folder, mtime=False)
            with quiet(), expect_ok("handles.open"):
                proj = Project.open(self.folder / "project.gta" if step.get("how") == "open_file" else self.folder)
            after = snapshot(self.folder, mtime=False)
            check(after == before, "handles.open_unchanged", lambda: f"opening a further handle: {snap_diff(before, after)}")
            self.handles.append(proj)
            self.serials.append(self.next_serial)
            self.next_serial += 1
            self.tags.add("handles:further-handle-opened")
        if index != self.active:
            self.tags.add("handles:switched")
        self.active = index

    # -- helpers
    @property
    def results_dir(self) -> Path:
        return self.folder / "results"

    def expected_runs(self) -> list[str]:
        return sorted(self.order)

    def alive(self, name: str) -> list[int]:
        """Run numbers of exactly ``name`` that exist (old runs may have been deleted by the user)."""
        return [k for k in range(self.counts.get(name, 0)) if f"{name}_run_{k:04}" in self.hashes]

    def listing(self) -> list[str]:
        return sorted(p.name for p in self.results_dir.iterdir()) if self.results_dir.exists() else []

    def check_runs_intact(self, clause_prefix="runs"):
        """project.results = all run folders; earlier runs byte-identical."""
        exp = self.expected_runs()
        for i, proj in enumerate(self.handles):  # every live handle sees all run folders of the project
            if i == self.active:
                continue
            with quiet(), expect_ok("handles.results_listing"):
                other = sorted(n for n in dict(proj.results) if n not in self.crashed)
            check(other == exp, "handles.results_listing",
                  lambda: f"project.results of handle {i} (active: {self.active}) = {other}, expected {exp}")
        with quiet(), expect_ok(f"{clause_prefix}.results_listing"):
            res = dict(self.project.results)
        listed = sorted(n for n in res if n not in self.crashed)  # a folder left by a failed save may or may not be listed
        check(listed == exp, f"{clause_prefix}.results_listing", lambda: f"project.results = {sorted(res)}, expected {exp}")
        for name, files in self.crashed.items():
            now = run_dir_hashes(self.results_dir / name) if (self.results_dir / name).exists() else None
            check(now == files, f"{clause_prefix}.files_of_failed_run_destroyed",
                  lambda: f"files left in {name} by a save that failed midway were overwritten / removed by a later run")
        for name, path in res.items():
            check(Path(path) == self.results_dir / name, f"{clause_prefix}.results_listing", lambda: f"results[{name!r}] = {path}")
        for name in self.order:
            now = run_dir_hashes(self.results_dir / name)
            check(now == self.hashes[name], f"{clause_prefix}.earlier_unchanged",
                  lambda: f"run folder {name} changed: {sorted(k for k in set(now) | set(self.hashes[name]) if now.get(k) != self.hashes[name].get(k))}")

    # -- steps
    def apply(self, step: dict):
        op = step["op"]
        if step.get("via") is not None and op != "handle":
            self._handle({"index": step["via"], "how": "open_folder"})
        getattr(self, "_" + op)(step)
        if self.project is not None:
            self.check_runs_intact()

    def _init(self, step):
        from glotaran.project import Project

        with quiet(), expect_ok("setup.project"):
            self.project = Project.create(self.folder)
            self.project.generate_model("fit", FIT_GENERATOR[0], dict(FIT_GENERATOR[1]))
            self.project.generate_parameters("fit")
            self.project.import_data(make_dataset(0), dataset_name="dataset_1")
        self.models.add("fit")
        self.data_seed["dataset_1"] = 0

    def _optimize(self, step):
        name = step["name"]
        k = self.counts.get(name, 0)
        expected = f"{name}_run_{k:04}"
        before = self.listing()
        # the previous run of this name came from another handle: a failure now is about state kept in the object
        stale = self.other_handle_wrote(name)
        via = f" via handle {self.active} of {len(self.handles)} (latest run of that name stored via another handle)" if stale else ""
        if stale:
            self.tags.add("handles:run-after-run-of-other-handle")
        err = None
        try:
            with quiet():
                self.project.optimize("fit", "fit_parameters", result_name=name, maximum_number_function_evaluations=1)
        except Exception as e:  # noqa: BLE001
            err = e
        after = self.listing()
        if err is not None:
            from vlib.core import innermost_repo_frame

            msg = f"optimize(result_name={name!r}){via} with runs {self.order}: {type(err).__name__}: {str(err)[:200]} @ {innermost_repo_frame(err)}"
            if self.focus == "runs" or after != before:
                raise Violation("handles.optimize_after_other_handle" if stale else "runs.optimize_ok", msg) from err
            # other focuses: the failed run is the business of project_runs; nothing was stored, go on
            self.failed_optimize += 1
            self.tags.add("optimize-failed-ignored-in-this-focus")
            return
        check(after == sorted(before + [expected]), "handles.fresh_run_number" if stale else "runs.fresh_run_number",
              lambda: f"optimize(result_name={name!r}){via} with runs {self.order}: results folder went {before} -> {after}, expected new folder {expected}")
        self.counts[name] = k + 1
        self.writer[name] = self.serials[self.active]
        self.order.append(expected)
        self.hashes[expected] = run_dir_hashes(self.results_dir / expected)
        check("result.yml" in self.hashes[expected], "runs.fresh_run_number", lambda: f"{expected} has no result.yml")
        self.sweep(name)

    def _optimize_crash(self, step):
        """The result save fails midway (fault injected after the data files, before result.yml is written)."""
        from unittest import mock

        name = step["name"]
        k = self.counts.get(name, 0)
        expected = f"{name}_run_{k:04}"
        try:
            with quiet(), mock.patch("glotaran.builtin.io.yml.yml.save_scheme", side_effect=HalfWriteError("injected: disk full")):
                self.project.optimize("fit", "fit_parameters", result_name=name, maximum_number_function_evaluations=1)
        except HalfWriteError:
            self.tags.add("crash:save-failed-midway")
        except Exception:  # noqa: BLE001  (D20-like failures are the business of _optimize)
            self.tags.add("crash:other-error")
            return
        if (self.results_dir / expected).exists():
            self.crashed[expected] = run_dir_hashes(self.results_dir / expected)
            self.counts[name] = k + 1  # the number is used: "fresh, strictly increasing run number"
            self.writer[name] = self.serials[self.active]
            self.tags.add("crash:partial-run-folder-left")

    def sweep(self, name):
        """Deterministic lookups after every stored run (the random ``lookup`` rule adds more).

        The path lookups are repeated through every other live handle: what is stored belongs to the folder.
        """
        self._sweep(name, None)
        for i in range(len(self.handles)):
            if i != self.active:
                self._sweep(name, i)

    def _sweep(self, name, handle):
        def look(step):
            if handle is None:
                self._lookup(step)
            elif not step["fn"].startswith("load"):
                self._lookup({**step, "handle": handle})

        if self.focus == "runs":
            for run in self.order:  # every stored run is addressable by its exact name
                base, k = run.rsplit("_run_", 1)
                look({"fn": "get_result_path", "name": base, "spec": 0, "run": int(k)})
        elif self.focus == "latest":
            for n in RESULT_NAMES:
                for fn in ("get_result_path", "get_result_path_latest", "get_latest_result_path"):
                    look({"fn": fn, "name": n, "spec": None})
            for fn in ("load_result_latest", "load_latest_result"):
                look({"fn": fn, "name": name, "spec": None})
        else:
            for n in RESULT_NAMES:
                c = len(self.alive(n))
                for k in sorted({0, c - 1}) if c else ():
                    look({"fn": "get_latest_result_path", "name": n, "spec": k})
            look({"fn": "load_latest_result", "name": name, "spec": 0})

    def _delete_old_run(self, step):
        """The user removes an old (never the latest) run folder of a name: numbering must go on from the maximum."""
        name = step["name"]
        alive = self.alive(name)
        if len(alive) < 2:
            self.tags.add("delete:nothing-to-delete")
            return
        k = alive[step["index"] % (len(alive) - 1)]
        run = f"{name}_run_{k:04}"
        shutil.rmtree(self.results_dir / run)
        self.order.remove(run)
        del self.hashes[run]
        self.tags.add("delete:old-run-removed")
        if step.get("then_optimize"):
            self.check_runs_intact()
            self._optimize({"op": "optimize", "name": name})
            self.tags.add("delete:then-rerun")

    def _reopen(self, step):
        from glotaran.project import Project

        how = step["how"]
        before = snapshot(self.folder, mtime=False)
        if how == "open_folder":
            with quiet(), expect_ok("flags.open"):
                self.project = Project.open(self.folder)
        elif how == "open_file":
            with quiet(), expect_ok("flags.open"):
                self.project = Project.open(self.folder / "project.gta")
        elif how == "create_refused":
            try:
                with quiet():
                    Project.create(self.folder)
            except FileExistsError:
                pass
            except Exception as e:  # noqa: BLE001
                raise Violation("flags.create_refuses", f"Project.create on an existing project: {type(e).__name__}: {e}") from e
            else:
                raise Violation("flags.create_refuses", "Project.create on an existing project did not raise FileExistsError")
        else:
            with quiet(), expect_ok("flags.create_overwrite"):
                self.project = Project.create(self.folder, allow_overwrite=True)
        after = snapshot(self.folder, mtime=False)
        check(after == before, "flags.reopen_unchanged", lambda: f"{how}: {snap_diff(before, after)}")
        self.tags.add(how)

    def _flagged(self, what, path: Path, allow, ignore, call, verify_written):
        """Common oracle of import_data / generate_model / generate_parameters."""
        existed = path.exists()
        before = (sha(path), path.stat().st_mtime_ns) if existed else None
        err = None
        try:
            with quiet():
                call()
        except FileExistsError as e:
            err = e
        except Exception as e:  # noqa: BLE001
            from vlib.core import innermost_repo_frame

            raise Violation(f"flags.{what}_call", f"{type(e).__name__}: {str(e)[:300]} @ {innermost_repo_frame(e)}") from e
        desc = f"{what}({path.name}, allow_overwrite={allow}, ignore_existing={ignore}) existed={existed}"
        if existed and not allow:
            check(path.exists() and (sha(path), path.stat().st_mtime_ns) == before, f"flags.{what}_unchanged", lambda: f"{desc}: file changed")
            if ignore:
                check(err is None, f"flags.{what}_ignore_existing", lambda: f"{desc}: raised {err}")
                self.tags.add(f"{what}:ignored")
            else:
                check(err is not None, f"flags.{what}_refuses", lambda: f"{desc}: no FileExistsError")
                self.tags.add(f"{what}:refused")
            return False
        check(err is None, f"flags.{what}_call", lambda: f"{desc}: raised {err}")
        check(path.exists(), f"flags.{what}_written", lambda: f"{desc}: no file")
        if existed and allow and ignore:
            self.tags.add(f"{what}:both-flags")  # either outcome admissible
            return (sha(path), path.stat().st_mtime_ns) != before
        verify_written()
        self.tags.add(f"{what}:{'overwritten' if existed else 'created'}")
        return True

    def _import_data(self, step):
        name, seed, allow, ignore = step["name"], step["seed"], step["allow_overwrite"], step["ignore_existing"]
        path = self.folder / "data" / f"{name}.nc"
        ds = make_dataset(seed)

        def verify():
            with quiet(), expect_ok("flags.import_data_written"):
                got = self.project.load_data(name)
            check(np.array_equal(got.data.values, ds.data.values), "flags.import_data_written", lambda: f"stored data of {name} differ from the imported data (seed {seed})")

        written = self._flagged("import_data", path, allow, ignore,
                                lambda: self.project.import_data(ds, dataset_name=name, allow_overwrite=allow, ignore_existing=ignore), verify)
        if written:
            with quiet():
                got = self.project.load_data(name)
            if np.array_equal(got.data.values, ds.data.values):
                self.data_seed[name] = seed

    def _generate_model(self, step):
        name, gen, allow, ignore = step["name"], step["generator"], step["allow_overwrite"], step["ignore_existing"]
        path = self.folder / "models" / f"{name}.yml"

        def verify():
            with quiet(), expect_ok("flags.generate_model_written"):
                self.project.load_model(name)

        self._flagged("generate_model", path, allow, ignore,
                      lambda: self.project.generate_model(name, gen[0], dict(gen[1]), allow_overwrite=allow, ignore_existing=ignore), verify)
        if path.exists():
            self.models.add(name)

    def _generate_parameters(self, step):
        model, pname, fmt, allow, ignore = step["model"], step["name"], step["format"], step["allow_overwrite"], step["ignore_existing"]
        if model not in self.models:
            self.tags.add("generate_parameters:model-missing-skipped")
            return
        fname = pname if pname is not None else f"{model}_parameters"
        path = self.folder / "parameters" / f"{fname}.{fmt}"

        def verify():
            from glotaran.io import load_parameters

            with quiet(), expect_ok("flags.generate_parameters_written"):
                load_parameters(path)

        self._flagged("generate_parameters", path, allow, ignore,
                      lambda: self.project.generate_parameters(model, pname, format_name=fmt, allow_overwrite=allow, ignore_existing=ignore), verify)

    def _lookup(self, step):
        fn, name, spec = step["fn"], step["name"], step.get("spec")
        count = self.counts.get(name, 0)
        hidx = step.get("handle", self.active)  # sweeps ask the other live handles too
        p = self.handles[hidx]
        if fn == "results":
            return  # check_runs_intact does it after every step
        focus = self.focus
        if any(c.rsplit("_run_", 1)[0] == name for c in self.crashed):
            self.tags.add("lookup:skipped-name-with-failed-save")  # what 'latest' means next to a half-written run is not stated
            return
        if spec is not None:
            if count == 0:
                self.tags.add("lookup:no-run-skipped")
                return
            alive = self.alive(name)
            k = step["run"] if "run" in step else alive[spec % len(alive)]
            arg = f"{name}_run_{k:04}"
        else:
            k, arg = None, name
        last = self.results_dir / f"{name}_run_{count - 1:04}" if count else None
        if fn in ("get_latest_result_path", "load_latest_result"):
            expected = last
        elif spec is not None:
            expected = self.results_dir / arg  # a run specifier given to get_result_path / load_result names that run
        else:
            expected = last
        clause = {"runs": "runs.earlier_loadable", "latest": "latest.resolves", "latest_spec": "latest_spec.resolves"}[focus]
        desc = f"{fn}({arg!r}) with runs {self.order}"
        if self.other_handle_wrote(name, hidx):
            # the handle asked is not the one that stored the latest run of that name: a wrong answer is about state kept in the object
            clause = "handles.lookup_after_other_handle"
            desc += f" via handle {hidx} of {len(self.handles)} (latest run of that name stored via another handle)"
            self.tags.add("handles:lookup-after-run-of-other-handle")
        calls = {
            "get_result_path": lambda: p.get_result_path(arg),
            "get_result_path_latest": lambda: p.get_result_path(arg, latest=True),
            "get_latest_result_path": lambda: p.get_latest_result_path(arg),
            "load_result": lambda: p.load_result(arg),
            "load_result_latest": lambda: p.load_result(arg, latest=True),
            "load_latest_result": lambda: p.load_latest_result(arg),
        }
        try:
            with quiet():
                got = calls[fn]()
        except Exception as e:  # noqa: BLE001
            from vlib.core import innermost_repo_frame

            if expected is None:
                check(isinstance(e, ValueError), f"{focus}.unknown_name" if focus != "runs" else "runs.unknown_name",
                      lambda: f"{desc}: no run of that name, expected ValueError, got {type(e).__name__}: {e}")
                self.tags.add("lookup:unknown-name")
                return
            raise Violation(clause, f"{desc}: expected {expected.name}, raised {type(e).__name__}: {str(e)[:200]} @ {innermost_repo_frame(e)}") from e
        if fn.startswith("load"):
            got_path = Path(getattr(got, "source_path", "")).parent
        else:
            got_path = Path(got)
        if expected is None:
            raise Violation(f"{focus}.unknown_name", f"{desc}: there is no run of exactly that name, but the lookup returned {got_path}")
        check(got_path == expected, clause, lambda: f"{desc}: resolved to {got_path.relative_to(self.folder) if got_path.is_relative_to(self.folder) else got_path}, expected results/{expected.name}")
        self.tags.add(f"lookup:{fn}{':spec' if spec is not None else ''}")

    def finish(self):
        """Every stored run is still loadable (exact run names)."""
        if self.project is None or self.focus != "runs":
            return
        for name in self.order:
            try:
                with quiet():
                    r = self.project.load_result(name)
            except Exception as e:  # noqa: BLE001
                raise Violation("runs.earlier_loadable", f"load_result({name!r}): {type(e).__name__}: {str(e)[:200]}") from e
            check(Path(r.source_path).parent == self.results_dir / name, "runs.earlier_loadable", lambda: f"load_result({name!r}) loaded {r.source_path}")
            # what was loaded is the caller's object: editing it in memory does not change what the next load of the same run gives
            free = [p for p in r.optimized_parameters.all() if p.expression is None]
            if free:
                old_value = float(free[0].value)
                free[0].value = old_value * 10.0 + 1.0
                with quiet():
                    again = self.project.load_result(name)
                got = float(again.optimized_parameters.get(free[0].label).value)
                check(got == old_value or abs(got - old_value) <= 1e-12 * abs(old_value), "runs.second_load_returns_the_edited_object",
                      lambda: f"load_result({name!r}) a second time: {free[0].label} = {got!r}, the files hold {old_value!r}")
                self.tags.add("loaded-twice-after-editing-the-first-object")
        self.check_runs_intact()

    def nontrivial(self) -> bool:
        names = [n for n, c in self.counts.items() if c]
        prefixed = any(a != b and b.startswith(a) for a in names for b in names)
        return bool(prefixed and any(c >= 2 for c in self.counts.values()))


def _machine(focus: str):
    lookups = LOOKUPS[focus]

    class ProjectMachine(RuleBasedStateMachine):
        stats: dict = {"runs": 0, "nontrivial": set(), "tags": Counter(), "samples": [], "last_fail": None, "steps": 0}

        def __init__(self):
            super().__init__()
            self.log: list = []
            self.h: ProjectHistory | None = None

        def _step(self, step):
            self.log.append(step)
            try:
                self.h.apply(step)
            except Violation:
                type(self).stats["last_fail"] = {"focus": focus, "steps": list(self.log)}
                raise

        @initialize()
        def init(self):
            self.h = ProjectHistory(focus)
            self._step({"op": "init"})

        def _via(self, via):
            """Handle a step goes through: None = the active one; an index opens that handle if it is the next free one."""
            return None if via is None else min(via, len(self.h.handles), MAX_HANDLES - 1)

        @precondition(lambda self: self.h is not None)
        @rule(index=st.integers(0, MAX_HANDLES - 1), how=st.sampled_from(["open_folder", "open_file"]))
        def handle(self, index, how):
            """Switch to another live Project handle on the same folder / open a further one."""
            self._step({"op": "handle", "index": self._via(index), "how": how})

        @precondition(lambda self: self.h is not None)
        @rule(name=st.sampled_from(RESULT_NAMES), via=st.sampled_from([None, None, 0, 1, 2]))
        def optimize(self, name, via):
            self._step({"op": "optimize", "name": name, "via": self._via(via)})

        @precondition(lambda self: self.h is not None and self.h.focus == "runs")
        @rule(name=st.sampled_from(["m", "m_run_x"]))
        def optimize_crash(self, name):
            self._step({"op": "optimize_crash", "name": name})

        @precondition(lambda self: self.h is not None)
        @rule(name=st.sampled_from(["m", "m_run_x", "m_run_1"]), via=st.sampled_from([None, 0, 1]))
        def optimize_more(self, name, via):
            self._step({"op": "optimize", "name": name, "via": self._via(via)})

        @precondition(lambda self: self.h is not None and bool(self.h.order))
        @rule(lk=st.sampled_from(lookups), name=st.sampled_from(RESULT_NAMES), spec=st.integers(0, 7))
        def lookup(self, lk, name, spec):
            self._step({"op": "lookup", "fn": lk[0], "name": name, "spec": spec if lk[1] else None})

        if focus != "runs":

            @precondition(lambda self: self.h is not None and bool(self.h.order))
            @rule(lk=st.sampled_from(lookups), name=st.sampled_from(RESULT_NAMES), spec=st.integers(0, 7))
            def lookup_more(self, lk, name, spec):
                self._step({"op": "lookup", "fn": lk[0], "name": name, "spec": spec if lk[1] else None})

        if focus == "runs":

            @precondition(lambda self: self.h is not None and any(len(self.h.alive(n)) >= 2 for n in RESULT_NAMES))
            @rule(pick=st.integers(0, 4), index=st.integers(0, 5), rerun=st.booleans())
            def delete_old_run(self, pick, index, rerun):
                names = [n for n in RESULT_NAMES if len(self.h.alive(n)) >= 2]
                self._step({"op": "delete_old_run", "name": names[pick % len(names)], "index": index, "then_optimize": rerun})

            @precondition(lambda self: self.h is not None)
            @rule(how=st.sampled_from(["open_folder", "open_file", "create_refused", "create_overwrite"]))
            def reopen(self, how):
                self._step({"op": "reopen", "how": how})

            @precondition(lambda self: self.h is not None)
            @rule(name=st.sampled_from(DATASETS), seed=st.integers(0, 3), allow=st.booleans(), ignore=st.booleans())
            def import_data(self, name, seed, allow, ignore):
                self._step({"op": "import_data", "name": name, "seed": seed, "allow_overwrite": allow, "ignore_existing": ignore})

            @precondition(lambda self: self.h is not None)
            @rule(name=st.sampled_from(["fit", "aux"]), gen=st.sampled_from(AUX_GENERATORS), allow=st.booleans(), ignore=st.booleans())
            def generate_model(self, name, gen, allow, ignore):
                if name == "fit":
                    gen = FIT_GENERATOR
                self._step({"op": "generate_model", "name": name, "generator": gen, "allow_overwrite": allow, "ignore_existing": ignore})

            @precondition(lambda self: self.h is not None)
            @rule(model=st.sampled_from(["fit", "aux"]), pname=st.sampled_from([None, "p2"]), fmt=st.sampled_from(["csv", "yml", "yaml"]),
                  allow=st.booleans(), ignore=st.booleans())
            def generate_parameters(self, model, pname, fmt, allow, ignore):
                if model == "fit" and pname is None:
                    fmt = "csv"  # the parameter file the fits use keeps one unambiguous name
                self._step({"op": "generate_parameters", "model": model, "name": pname, "format": fmt, "allow_overwrite": allow, "ignore_existing": ignore})

        def teardown(self):
            s = type(self).stats
            h, self.h = self.h, None
            if h is None:
                return
            try:
                if s.get("last_fail") is None or s["last_fail"].get("steps") != self.log:
                    try:
                        h.finish()
                    except Violation:
                        s["last_fail"] = {"focus": focus, "steps": list(self.log) + [{"op": "finish"}]}
                        raise
                s["runs"] += 1
                s["steps"] += len(self.log)
                tags = set(h.tags) | {f"runs={min(len(h.order), 6)}{'+' if len(h.order) > 6 else ''}"}
                if h.nontrivial():
                    s["nontrivial"].add(digest(self.log))
                    tags.add("prefix-sharing-names+repeated-run")
                    if len(s["samples"]) < 2:
                        s["samples"].append({"focus": focus, "steps": list(self.log)})
                for t in tags:
                    s["tags"][t] += 1
            finally:
                h.close()

    ProjectMachine.__name__ = f"ProjectMachine_{focus}"
    return ProjectMachine


ENUM_OPS = {
    "quick": [{"op": "optimize", "name": "m"}, {"op": "optimize", "name": "m_run_x"}, {"op": "delete_old_run", "name": "m", "index": 0},
              {"op": "optimize_crash", "name": "m"}],
    "thorough": [{"op": "optimize", "name": "m"}, {"op": "optimize", "name": "m_run_x"}, {"op": "optimize", "name": "m_run_1"},
                 {"op": "delete_old_run", "name": "m", "index": 0}, {"op": "optimize_crash", "name": "m"}],
}
ENUM_LEN = {"quick": 4, "thorough": 5}


def runs_enum_cases(tier: str, part: int | None = None) -> list:
    """All sequences; ``part`` selects those whose first operation has index = part (mod 3).

    (Three sub-checks instead of one only so that the runner spreads them over processes.)
    """
    import itertools

    ops = ENUM_OPS[tier]
    return [{"focus": "runs", "steps": [{"op": "init"}] + [ops[i] for i in seq]}
            for seq in itertools.product(range(len(ops)), repeat=ENUM_LEN[tier])
            if part is None or seq[0] % 3 == part]


HANDLE_ENUM_OPS = {
    "quick": [{"op": "optimize", "name": "m", "via": 0}, {"op": "optimize", "name": "m", "via": 1},
              {"op": "optimize", "name": "m_run_x", "via": 0}, {"op": "optimize", "name": "m_run_x", "via": 1}],
    "thorough": [{"op": "optimize", "name": "m", "via": 0}, {"op": "optimize", "name": "m", "via": 1},
                 {"op": "optimize", "name": "m_run_x", "via": 0}, {"op": "optimize", "name": "m_run_x", "via": 1},
                 {"op": "optimize", "name": "m", "via": 2}, {"op": "delete_old_run", "name": "m", "index": 0, "via": 1},
                 {"op": "reopen", "how": "open_folder", "via": 0}],
}
HANDLE_ENUM_LEN = {"quick": 3, "thorough": 4}
# all handles exist before the first run is stored (the machines also open handles later)
HANDLE_ENUM_PRELUDE = [{"op": "init"}, {"op": "handle", "index": 1, "how": "open_folder"}, {"op": "handle", "index": 2, "how": "open_file"},
                       {"op": "handle", "index": 0}]


def handles_enum_cases(tier: str, focus: str) -> list:
    """All sequences of optimize(name) via handle i over two names x two (thorough: three) handles opened up front."""
    import itertools

    ops = HANDLE_ENUM_OPS[tier]
    return [{"focus": focus, "steps": HANDLE_ENUM_PRELUDE + [ops[i] for i in seq]}
            for seq in itertools.product(range(len(ops)), repeat=HANDLE_ENUM_LEN[tier])]


def prop_runs_enum(case):
    h = ProjectHistory(case.get("focus", "runs"))
    try:
        for step in case["steps"]:
            h.apply(step)
        h.finish()
        return {"nontrivial": h.nontrivial() or "handles:run-after-run-of-other-handle" in h.tags, "tags": sorted(h.tags) + [f"runs={len(h.order)}"]}
    finally:
        h.close()


def _replay(focus: str):
    def replay_steps(case):
        h = ProjectHistory(case.get("focus", focus))
        try:
            for step in case["steps"]:
                if step["op"] == "finish":
                    h.finish()
                else:
                    h.apply(step)
            if not any(s["op"] == "finish" for s in case["steps"]):
                h.finish()
        finally:
            h.close()

    return replay_steps


PROPERTY = Property(
    id="C18",
    level="exploration",
    rule=(
        "matrix: exhaustive product save function x registered format (+unknown, +harness plugin failing midway) x target state x "
        "allow_overwrite x explicit/inferred format; non-trivial = target present. project_*: Hypothesis state machines over a real "
        "Project in a temp dir (tiny seeded decay fits, 1 function evaluation) with result names m, m1, m_run_x, m_run_1, mm "
        "(names ending in _run_dddd are ambiguous by construction and excluded), import_data / generate_model / generate_parameters with "
        "all flag combinations, Project.open / Project.create on the existing project, the user deleting an old (never the latest) "
        "run folder, and up to three live Project handles on the same folder used alternately (handle step / via field); "
        "runs_enum / handles_enum: every sequence of a small alphabet of those operations (handles_enum: over two handles opened before "
        "the first run; there non-trivial = a run stored via one handle after a run of the same name via another); non-trivial = history storing runs under >= 2 "
        "names of which one is a prefix of the other, with >= 2 runs of one name."
    ),
    subs=[
        Sub("matrix", prop=prop_matrix, enumerate=matrix_cases, exhaustive=True,
            doc="every glotaran.io.save_* x every registered format (+unknown, +failing harness plugin) x 4 target states x allow_overwrite x explicit/inferred"),
        *[
            Sub(f"runs_enum_{'abc'[part]}", prop=prop_runs_enum, enumerate=lambda tier, part=part: runs_enum_cases(tier, part), exhaustive=True,
                doc="every sequence of length 4 (quick; thorough 5) over optimize(m) / optimize(m_run_x) [/ optimize(m_run_1)] / user deletes the "
                    f"oldest run of m: run numbers, listing, earlier runs unchanged and loadable (part {part + 1} of 3 by first operation)")
            for part in range(3)
        ],
        Sub("runs_many", prop=prop_runs_enum, exhaustive=True,
            enumerate=lambda tier: [{"focus": "runs", "steps": [{"op": "init"}] + [{"op": "optimize", "name": nm}] * (12 if tier == "quick" else 23)} for nm in ("m", "m_run_x")],
            doc="12 (thorough: 23) runs under one result name: run numbers beyond 9 ('10' sorts before '9' as text), latest-run lookups, earlier runs unchanged"),
        *[
            Sub(f"handles_enum_{focus}", prop=prop_runs_enum, enumerate=lambda tier, focus=focus: handles_enum_cases(tier, focus), exhaustive=True,
                doc="three Project handles opened on the same folder before the first run; every sequence of length 3 (quick; thorough 4) over "
                    "optimize(m) / optimize(m_run_x) via handle 0 / 1 [thorough: + optimize(m) via handle 2, user deletes the oldest run of m, "
                    "handle 0 is reopened]: run numbers continue over the handles, every handle lists and resolves all runs"
                    + {"runs": " (exact-run lookups)", "latest": " (lookups by bare result name)"}[focus])
            for focus in ("runs", "latest")
        ],
        Sub("project_runs", machine=lambda: _machine("runs"), replay_steps=_replay("runs"),
            budget={"quick": 128, "thorough": 1600}, steps={"quick": 12, "thorough": 25},
            doc="run numbering, storage, earlier runs unchanged and loadable, flag handling of import_data / generate_* / Project.create"),
        Sub("project_latest", machine=lambda: _machine("latest"), replay_steps=_replay("latest"),
            budget={"quick": 96, "thorough": 800}, steps={"quick": 12, "thorough": 25},
            doc="lookups by bare result name resolve to the last run of exactly that name"),
        Sub("project_latest_spec", machine=lambda: _machine("latest_spec"), replay_steps=_replay("latest_spec"),
            budget={"quick": 96, "thorough": 800}, steps={"quick": 12, "thorough": 25},
            doc="latest lookups whose argument carries a run specifier resolve to the last run of that name"),
    ],
    assumptions=[
        "sha256 + mtime_ns of every path below the observed folder decide 'unchanged'; directories count by existence and mtime",
        "a call is well-formed (must succeed) only for formats implementing the function and a target of the right kind",
        "import_data / generate_* with allow_overwrite and ignore_existing both set: either outcome admissible",
        "get_result_path / load_result with a run specifier name that exact run (their 'latest' flag only mutes a warning)",
        "deleting an old run folder is an environment action; the latest run of a name is never deleted, so 'previous maximum + 1' stays unambiguous",
        "run numbers stay far below the 4-digit limit of the documented run pattern",
        "several Project objects on one folder are used alternately, never concurrently (one call at a time): the statement's run numbers, "
        "listing and latest lookups are those of the project folder, so every handle must continue / see the runs stored through the others",
    ],
)
