"""C08 - interval-scoped constraints, relations, penalties and weights act on their interval.

Oracle: the interval reference model of ``vlib/oracle/c08_interval.py`` (written from the
property statement): for every item the set of affected axis points S must satisfy
``inside <= S <= inside | outer``; monotone in the interval; ``only`` is the exact complement of
``zero``; no interval => everywhere; list => union.  Float-fragile decisions are left open
(the model returns (must, may)); the exhaustive grids are dyadic rationals so that every
decision that is meant to be sharp is exact in binary floating point.

Unit level (exhaustive): IntervalItem.applies / OnlyConstraint.applies,
DataProvider.get_axis_slice_from_interval, estimation_provider._get_area.
System level (Hypothesis): optimize() of small verif-table schemes, decoded from
Result.data[*].clp / .weight, Result.additional_penalty, Result.number_of_clps.
"""

from __future__ import annotations

import bisect
import itertools
import math
import warnings

import numpy as np
from hypothesis import strategies as st

from vlib.core import Property
from vlib.core import Sub
from vlib.core import check
from vlib.core import expect_ok
from vlib.oracle import c08_interval as ref

INF = math.inf

# ------------------------------------------------------------------------------------------
# exhaustive unit-level domain

GRID = [-3.5, -1.0, 0.0, 0.25, 1.5, 4.0, 8.0]  # non-uniform, dyadic (exact arithmetic below)


def grid_axes():
    out = []
    for size in range(1, 6):
        for idx in itertools.combinations(range(len(GRID)), size):
            out.append([GRID[i] for i in idx])
    return out


def full_bounds(axis):
    """-inf, below, every point, a quarter point and the exact midpoint of every gap, above, +inf."""
    b = [-INF, axis[0] - 1.0]
    for k, x in enumerate(axis):
        b.append(x)
        if k + 1 < len(axis):
            gap = axis[k + 1] - x
            b.append(x + gap / 4)
            b.append(x + gap / 2)
    b += [axis[-1] + 1.0, INF]
    return b


def class_bounds(axis):
    """One representative per class: -inf, below, on a point, between, midway, last point, above, +inf."""
    n = len(axis)
    if n == 1:
        return [-INF, axis[0] - 1.0, axis[0], axis[0] + 1.0, INF]
    p = (n - 1) // 2
    if p == n - 1:
        p -= 1
    gap = axis[p + 1] - axis[p]
    return [-INF, axis[0] - 1.0, axis[p], axis[p] + gap / 4, axis[p] + gap / 2, axis[-1], axis[-1] + 1.0, INF]


def bound_pairs(bounds):
    """Every ordered pair (reversed and degenerate included) except the two same-infinity pairs."""
    return [[lo, hi] for lo in bounds for hi in bounds if not (math.isinf(lo) and lo == hi)]


class LazyCases:
    """Sequence of cases computed on demand (len + slicing is all the runner needs)."""

    def __init__(self):
        self.blocks = []  # (size, fn(k) -> case)
        self.offsets = [0]

    def add(self, size, fn):
        if size > 0:
            self.blocks.append((size, fn))
            self.offsets.append(self.offsets[-1] + size)

    def __len__(self):
        return self.offsets[-1]

    def _get(self, i):
        b = bisect.bisect_right(self.offsets, i) - 1
        return self.blocks[b][1](i - self.offsets[b])

    def __getitem__(self, idx):
        if isinstance(idx, slice):
            return [self._get(i) for i in range(*idx.indices(len(self)))]
        if idx < 0:
            idx += len(self)
        return self._get(idx)

    def __iter__(self):
        return (self._get(i) for i in range(len(self)))


SINGLE_KINDS = [
    ("applies", "zero", "tuple"),
    ("applies", "zero", "list"),
    ("applies", "relation", "tuple"),
    ("applies", "relation", "list"),
    ("applies", "only", "tuple"),
    ("applies", "only", "list"),
    ("slice", "weight", "tuple"),
    ("area", "penalty", "flat"),
    ("area", "penalty", "nested"),
]
DOUBLE_KINDS = [
    ("applies", "zero", "list"),
    ("applies", "only", "list"),
    ("area", "penalty", "nested"),
]


def _single_case(axis, fn, kind, form, pair):
    if fn == "slice":
        return {"fn": fn, "kind": kind, "form": form, "axis": axis, "intervals": pair}
    if form == "tuple":
        return {"fn": fn, "kind": kind, "form": form, "axis": axis, "intervals": pair}
    return {"fn": fn, "kind": kind, "form": form, "axis": axis, "intervals": [pair]}


def unit_single_cases(tier):
    cases = LazyCases()
    for axis in grid_axes():
        pairs = bound_pairs(full_bounds(axis))
        for fn, kind, form in SINGLE_KINDS:
            cases.add(len(pairs), lambda k, axis=axis, fn=fn, kind=kind, form=form, pairs=pairs: _single_case(axis, fn, kind, form, pairs[k]))
    # items without interval act everywhere
    for axis in grid_axes():
        for kind in ("zero", "relation", "only"):
            cases.add(1, lambda k, axis=axis, kind=kind: {"fn": "applies", "kind": kind, "form": "none", "axis": axis, "intervals": None})
    return cases


def unit_double_cases(tier):
    cases = LazyCases()
    for axis in grid_axes():
        # thorough: the full bound set for the axes of size <= 3, class representatives for the larger ones
        pairs = bound_pairs(full_bounds(axis) if tier == "thorough" and len(axis) <= 3 else class_bounds(axis))
        n = len(pairs)
        for fn, kind, form in DOUBLE_KINDS:
            cases.add(
                n * n,
                lambda k, axis=axis, fn=fn, kind=kind, form=form, pairs=pairs, n=n: {
                    "fn": fn, "kind": kind, "form": form, "axis": axis, "intervals": [pairs[k // n], pairs[k % n]],
                },
            )
    return cases


def mono_cases(tier):
    return [{"axis": axis, "fn": fn, "kind": kind} for axis in grid_axes() for fn, kind in (("applies", "zero"), ("applies", "only"), ("slice", "weight"), ("area", "penalty"))]


# ------------------------------------------------------------------------------------------
# unit-level code under test -> affected set


def _tup(iv):
    return (float(iv[0]), float(iv[1]))


def _model_intervals(intervals, form=None):
    """JSON intervals -> the python value a model item carries (tuple or list of tuples)."""
    if intervals is None:
        return None
    if ref.is_list_of_intervals(intervals):
        return [_tup(i) for i in intervals]
    return _tup(intervals)


def _make_item(kind, intervals):
    from glotaran.model.clp_constraint import OnlyConstraint
    from glotaran.model.clp_constraint import ZeroConstraint
    from glotaran.model.clp_relation import ClpRelation

    iv = _model_intervals(intervals)
    if kind == "zero":
        return ZeroConstraint(target="s0", interval=iv)
    if kind == "only":
        return OnlyConstraint(target="s0", interval=iv)
    if kind == "relation":
        return ClpRelation(source="s0", target="s1", parameter="p", interval=iv)
    raise ValueError(kind)


def code_set_applies(kind, intervals, axis):
    """Set T of axis indices the interval of the item covers according to the code.

    zero / relation: T = where applies() is true.  only: T = where applies() is false (the clp is
    forced to zero on the complement of T).
    """
    item = _make_item(kind, intervals)
    got = [bool(item.applies(x)) for x in axis]
    # r6c08B: an item that was used with another interval (far away from the axis) before this one was assigned to it, and a deep copy of a
    # used item, act on the interval they carry now
    import copy

    used = _make_item(kind, [-1.0e9, -0.9e9] if len(axis) % 2 else [[-1.0e9, -0.9e9], [0.8e9, 0.9e9]])
    [used.applies(x) for x in axis]
    clone = copy.deepcopy(used)
    for variant, it in (("reassigned", used), ("reassigned_on_copy", clone)):
        it.interval = _model_intervals(intervals)
        again = [bool(it.applies(x)) for x in axis]
        check(again == got, f"{kind}.interval_{variant}", lambda: f"applies={again} after assigning interval {intervals} to a used item, {got} for a fresh item; axis={axis}")
    if kind == "only":
        return frozenset(i for i, g in enumerate(got) if not g), got
    return frozenset(i for i, g in enumerate(got) if g), got


#: dtype in which the axis is handed to the code (set per case by prop_unit): integer axes are what np.arange gives
AXIS_DTYPE = ["float"]


def _axis_array(axis):
    if AXIS_DTYPE[0] in ("int64", "int32") and all(float(v).is_integer() for v in axis):
        return np.asarray(axis, dtype=np.int64 if AXIS_DTYPE[0] == "int64" else np.int32)
    return np.asarray(axis, dtype=float)


def code_set_slice(interval, axis):
    from glotaran.optimization.data_provider import DataProvider

    sl = DataProvider.get_axis_slice_from_interval(_tup(interval), _axis_array(axis))
    return frozenset(range(len(axis))[sl])


def code_area(intervals, axis, form):
    """Indices (with multiplicity) summed by _get_area; the clp at index i is 2**i, a decoy clp is -1."""
    from glotaran.optimization.estimation_provider import _get_area

    n = len(axis)
    labels = ["decoy", "a"]
    clps = [np.array([-1.0, float(2**i)]) for i in range(n)]
    clp_labels = labels if form == "flat" else [list(labels) for _ in range(n)]
    ivs = [_tup(i) for i in ref.as_interval_list(intervals)]
    area = _get_area("a", clp_labels, clps, ivs, _axis_array(axis))
    out = []
    for v in np.asarray(area, dtype=float).ravel():
        e = math.log2(v) if v > 0 else -1
        if e != int(e) or not (0 <= e < n):
            return None, list(np.asarray(area).ravel())
        out.append(int(e))
    return out, list(np.asarray(area).ravel())


def _ivs_have(intervals, pred):
    ivs = ref.as_interval_list(intervals) or []
    return any(pred(_tup(i)) for i in ivs)


def _upper_inf(iv):
    return max(iv) == INF


def _reversed(iv):
    return iv[0] > iv[1]


def _tags(axis, intervals):
    tags = set()
    for iv in ref.as_interval_list(intervals) or []:
        tags |= ref.classify(axis, iv)
    return tags


def _nontrivial(axis, intervals, must):
    tags = _tags(axis, intervals)
    interesting = bool(tags & {"between", "infinite", "reversed", "outside"})
    return bool(interesting and 0 < len(must) < len(axis)), sorted(tags)


def prop_unit(case):
    AXIS_DTYPE[0] = case.get("axis_dtype", "float")
    axis = [float(x) for x in case["axis"]]
    intervals = case["intervals"]
    fn, kind = case["fn"], case["kind"]
    n = len(axis)
    must, may = ref.union_sets(axis, intervals)
    nlist = 0 if intervals is None else len(ref.as_interval_list(intervals))

    def desc():
        return f"axis={axis} intervals={intervals} must={sorted(must)} may={sorted(may)}"

    if fn == "applies":
        with expect_ok(f"{kind}.call"):
            got_set, got = code_set_applies(kind, intervals, axis)
        check(must <= got_set, f"{kind}.covers_inside", lambda: f"interval covers {sorted(got_set)} (applies={got}); {desc()}")
        check(got_set <= may, f"{kind}.within_nearest", lambda: f"interval covers {sorted(got_set)} (applies={got}); {desc()}")
        if kind == "only":
            with expect_ok("zero.call"):
                _, zero = code_set_applies("zero", intervals, axis)
            check(all(g == (not z) for g, z in zip(got, zero)), "only.complement_of_zero", lambda: f"only={got} zero={zero}; {desc()}")
        if intervals is None:
            check(got_set == frozenset(range(n)), f"{kind}.no_interval_everywhere", lambda: f"{got}")
    elif fn == "slice":
        with expect_ok("slice.call"):
            got_set = code_set_slice(intervals, axis)
        sfx = ".inf_upper" if _upper_inf(_tup(intervals)) else ""
        check(must <= got_set, "slice.covers_inside" + sfx, lambda: f"slice covers {sorted(got_set)}; {desc()}")
        check(got_set <= may, "slice.within_nearest", lambda: f"slice covers {sorted(got_set)}; {desc()}")
    elif fn == "area":
        with expect_ok("area.call"):
            idx, raw = code_area(intervals, axis, case["form"])
        check(idx is not None, "area.values_are_clps_of_label", lambda: f"area={raw}; {desc()}")
        got_set = frozenset(idx)
        sfx = ".reversed" if _ivs_have(intervals, _reversed) else ""
        check(must <= got_set, "area.covers_inside" + sfx, lambda: f"area indices {idx}; {desc()}")
        check(got_set <= may, "area.within_nearest", lambda: f"area indices {idx}; {desc()}")
        # multiplicity is left open (union vs. sum over the list), but no index may occur more
        # often than the number of intervals that may contain it
        for i in got_set:
            cap = sum(1 for iv in ref.as_interval_list(intervals) if i in ref.interval_sets(axis, iv)[1])
            check(idx.count(i) <= cap, "area.multiplicity", lambda: f"index {i} occurs {idx.count(i)}x > {cap}; {desc()}")
    else:
        raise ValueError(fn)
    nt, tags = _nontrivial(axis, intervals, must) if intervals is not None else (False, ["no_interval"])
    return {"nontrivial": nt, "tags": [f"{fn}:{kind}", f"n_intervals={nlist}", f"axis_size={n}"] + tags}


def prop_mono(case):
    """Enlarging an interval never shrinks the affected set (all comparable pairs of the bound grid)."""
    axis = [float(x) for x in case["axis"]]
    fn, kind = case["fn"], case["kind"]
    pairs = bound_pairs(full_bounds(axis))
    sets = []
    for p in pairs:
        must, may = ref.interval_sets(axis, p)
        with expect_ok(f"mono.{fn}.call"):
            if fn == "applies":
                s, _ = code_set_applies(kind, p, axis)
            elif fn == "slice":
                s = code_set_slice(p, axis)
            else:
                idx, _ = code_area([p], axis, "nested")
                s = frozenset(idx or [])
        # intervals whose own set already violates the direct clauses are reported there (unit_single)
        sets.append((ref.normalise(p), s, must <= s <= may))
    ncomp = 0
    for (a, b), s, ok in sets:
        if not ok:
            continue
        for (c, d), s2, ok2 in sets:
            if ok2 and c <= a and b <= d:
                ncomp += 1
                sfx = ".inf_upper" if fn == "slice" and d == INF else ""
                check(s <= s2, f"mono.{kind}" + sfx, lambda: f"axis={axis}: S({(a, b)})={sorted(s)} is not a subset of S({(c, d)})={sorted(s2)}")
    return {"nontrivial": len(axis) > 1, "tags": [f"mono:{kind}", f"axis_size={len(axis)}"], "pairs": ncomp}


# ------------------------------------------------------------------------------------------
# unit level on random float axes (fragile decisions are open in the reference)


@st.composite
def random_unit_cases(draw):
    n = draw(st.one_of(st.integers(1, 12), st.integers(1, 12), st.integers(60, 200)))  # (also axes longer than any small-case shortcut)
    axis_dtype = draw(st.sampled_from(["float", "float", "float", "int64", "int32"]))
    if axis_dtype == "float":
        x0 = draw(st.floats(-100, 100, allow_nan=False))
        incs = draw(st.lists(st.one_of(st.floats(1e-3, 1.0), st.floats(1.0, 1e3), st.sampled_from([0.1, 0.5, 1.0, 2.0])), min_size=n - 1, max_size=n - 1))
    else:
        # whole-number coordinates handed over as an integer array (np.arange(600, 620), pixel numbers)
        x0 = float(draw(st.integers(-100, 700)))
        incs = [float(v) for v in draw(st.lists(st.sampled_from([1, 1, 1, 2, 3, 5, 10]), min_size=n - 1, max_size=n - 1))]
    axis = [x0]
    for d in incs:
        axis.append(axis[-1] + d)
    span = max(1.0, axis[-1] - axis[0])

    def bound():
        k = draw(st.integers(0, n - 1))
        kind = draw(st.sampled_from(["-inf", "inf", "below", "above", "point", "near_point", "mid", "between", "free"]))
        if kind == "-inf":
            return -INF
        if kind == "inf":
            return INF
        if kind == "below":
            return axis[0] - draw(st.floats(1e-3, 2.0)) * span
        if kind == "above":
            return axis[-1] + draw(st.floats(1e-3, 2.0)) * span
        if kind == "point":
            return axis[k]
        if kind == "near_point":
            return axis[k] + draw(st.sampled_from([-1.0, 1.0])) * draw(st.sampled_from([1e-15, 1e-13, 1e-11])) * max(1.0, abs(axis[k]))
        if kind == "mid" and n > 1:
            k = min(k, n - 2)
            return (axis[k] + axis[k + 1]) / 2
        if kind == "between" and n > 1:
            k = min(k, n - 2)
            return axis[k] + draw(st.floats(0.01, 0.99)) * (axis[k + 1] - axis[k])
        return draw(st.floats(axis[0] - span, axis[-1] + span))

    def interval():
        lo, hi = bound(), bound()
        if math.isinf(lo) and lo == hi:
            hi = -lo
        return [lo, hi]

    fn, kind, form = draw(st.sampled_from(SINGLE_KINDS))
    if fn == "slice" or form == "tuple":
        intervals = interval()
    else:
        intervals = [interval() for _ in range(draw(st.integers(1, 3)))]
    return {"fn": fn, "kind": kind, "form": form, "axis": axis, "intervals": intervals, "axis_dtype": axis_dtype}


def prop_unit_random(case):
    axis = case["axis"]
    if any(b <= a for a, b in zip(axis, axis[1:])):
        from vlib.core import Discard

        raise Discard("axis not strictly increasing after rounding")
    out = prop_unit(case)
    out["tags"] = list(out.get("tags", [])) + [f"axis_{case.get('axis_dtype', 'float')}"]
    return out


# ------------------------------------------------------------------------------------------
# system level

LABELS = ["s0", "s1", "s2", "s3"]
RATES = [0.5, 3.0, 1.0, 2.5]
MODEL_STEP = 0.25


def _global_pool():
    vals = {-INF, INF, GRID[0] - 1.0, GRID[-1] + 1.0}
    vals |= set(GRID)
    for a, b in itertools.combinations(GRID, 2):
        vals.add((a + b) / 2)
    for a, b in zip(GRID, GRID[1:]):
        vals.add(a + (b - a) / 4)
    return sorted(vals)


GLOBAL_POOL = _global_pool()


def _model_pool(m):
    last = MODEL_STEP * (m - 1)
    return sorted({-INF, INF, -1.0, last + 1.0, 0.0, 0.0625, 0.125, 0.25, 0.5, 0.625, 0.75, 1.0, last - 0.25, last - 0.125, last})


def _st_interval(pool):
    return st.tuples(st.sampled_from(pool), st.sampled_from(pool)).filter(lambda p: not (math.isinf(p[0]) and p[0] == p[1])).map(list)


def _st_item_interval(pool):
    """None, a single (lo, hi) or a list of one or two intervals."""
    iv = _st_interval(pool)
    return st.one_of(st.none(), iv, iv, st.lists(iv, min_size=1, max_size=2), st.lists(iv, min_size=2, max_size=2))


REL_P = [1.5, -0.5, 2.0, 0.25]
INDEX_DEP = [[True, True], [False, False], [True, False], [False, True]]


@st.composite
def sys_cases(draw, focus):
    nds = draw(st.integers(1, 2))
    linked = draw(st.booleans())
    axes = []
    for _ in range(nds):
        size = draw(st.integers(1, 5))
        idx = sorted(draw(st.sets(st.integers(0, len(GRID) - 1), min_size=size, max_size=size)))
        axes.append([GRID[i] for i in idx])
    model_n = [draw(st.integers(6, 9)) for _ in range(nds)]
    case = {
        "linked": linked,
        "axes": axes,
        "model_n": model_n,
        # [ma, mb]: does the matrix of the megacomplex depend on the global index (3d) or not (one 2d matrix
        # shared by all indices)?  Interval items act per index either way.
        "index_dep": draw(st.sampled_from(INDEX_DEP)),
        "seed": draw(st.integers(0, 2**31 - 1)),
        "constraints": [],
        "relations": [],
        "penalties": [],
        "weights": [],
        "ds_weight": [False] * nds,
    }
    con_targets = ["s0", "s1"]
    if focus == "relations":
        # 2-3 relations with pairwise different targets, sources that are no targets (no chains): every
        # combination of them has a defined meaning at every index, whatever their intervals are
        n_rel = draw(st.integers(2, 3))
        perm = list(draw(st.permutations(LABELS)))
        targets, sources = perm[:n_rel], perm[n_rel:]
        for t in targets:
            case["relations"].append({
                "source": draw(st.sampled_from(sources)),
                "target": t,
                "interval": draw(_st_item_interval(GLOBAL_POOL)),
                "p": draw(st.sampled_from(REL_P)),
            })
        # constraints never on a relation target (undefined where both apply), but also on relation sources
        con_targets = [lab for lab in con_targets if lab not in targets]
        # ... and at least one clp stays free at every index (an index without any free clp is outside the domain:
        # the statement says nothing about a problem without unknowns)
        if all(lab in con_targets for lab in sources):
            con_targets = con_targets[:-1]
    n_con = draw(st.integers(*{"constraints": (1, 3), "weights": (0, 1), "penalty": (0, 2), "dsweight": (0, 0), "relations": (0, 2)}[focus]))
    pair_same = focus == "constraints" and draw(st.booleans())
    if pair_same:
        iv = draw(_st_item_interval(GLOBAL_POOL).filter(lambda v: v is not None))
        case["constraints"] = [{"type": "zero", "target": "s0", "interval": iv}, {"type": "only", "target": "s1", "interval": iv}]
    elif con_targets:
        for _ in range(n_con):
            case["constraints"].append({
                "type": draw(st.sampled_from(["zero", "only"])),
                "target": draw(st.sampled_from(con_targets)),
                "interval": draw(_st_item_interval(GLOBAL_POOL)),
            })
    n_rel = draw(st.integers(0, {"constraints": 1, "weights": 0, "penalty": 1, "dsweight": 0, "relations": 0}[focus]))
    for _ in range(n_rel):
        case["relations"].append({"source": "s2", "target": "s3", "interval": draw(_st_item_interval(GLOBAL_POOL)), "p": draw(st.sampled_from(REL_P))})
    if focus == "penalty":
        for _ in range(draw(st.integers(1, 2))):
            src, tgt = draw(st.permutations(LABELS))[:2]
            case["penalties"].append({
                "source": src,
                "target": tgt,
                "source_intervals": draw(st.lists(_st_interval(GLOBAL_POOL), min_size=1, max_size=2)),
                "target_intervals": draw(st.lists(_st_interval(GLOBAL_POOL), min_size=1, max_size=2)),
                "p": draw(st.sampled_from([1.0, 0.5, -2.0, 3.0])),
                "weight": draw(st.sampled_from([1.0, 0.5, 4.0])),
            })
    n_w = draw({
        "constraints": st.sampled_from([0, 0, 0, 1]), "weights": st.integers(1, 2), "penalty": st.just(0),
        "dsweight": st.integers(1, 2), "relations": st.sampled_from([0, 0, 1]),
    }[focus])
    labels = [f"d{k}" for k in range(nds)]
    for _ in range(n_w):
        ds = draw(st.sampled_from([labels] + [[x] for x in labels]))
        if focus == "dsweight" and "d0" not in ds:
            ds = ["d0"] + ds
        mpool = _model_pool(min(model_n[int(x[1:])] for x in ds))
        case["weights"].append({
            "datasets": ds,
            "global_interval": draw(st.one_of(st.none(), _st_interval(GLOBAL_POOL), _st_interval(GLOBAL_POOL))),
            "model_interval": draw(st.one_of(st.none(), _st_interval(mpool))),
            "value": draw(st.sampled_from([0.5, 2.0, 4.0, 0.25, 3.0])),
        })
    if focus == "dsweight":
        case["ds_weight"] = [True] + [draw(st.booleans()) for _ in range(nds - 1)]
    return case


@st.composite
def locality_cases(draw):
    """A system case plus one of its interval items (constraint, relation, model weight) to take away."""
    base = draw(st.one_of(sys_cases("relations"), sys_cases("weights"), sys_cases("constraints"), sys_cases("dsweight")))
    kinds = [k for k in ("relations", "weights", "constraints") if base[k]]
    kind = draw(st.sampled_from(kinds))
    return {"base": base, "drop": {"kind": kind, "k": draw(st.integers(0, len(base[kind]) - 1))}}


def _index_dep(case):
    dep = case.get("index_dep", [True, True])
    return bool(dep[0]), bool(dep[1])


def _rel_labels(r):
    return r.get("source", "s2"), r.get("target", "s3")


def _table(t, g, index_dep=(True, True)):
    """Reference matrix (len(t), 4) at global value g - same closed form as verif-table, from plain floats.

    A megacomplex that is not index dependent has the same columns (g = None) at every index.
    """
    from vlib import testmc

    ga, gb = (g if index_dep[0] else None), (g if index_dep[1] else None)
    cols = [
        testmc.column("exp", RATES[0], t, ga),
        testmc.column("exp", RATES[1], t, ga),
        testmc.column("cos", RATES[2], t, gb),
        testmc.column("cos", RATES[3], t, gb),
    ]
    return np.array(cols).T


def build_sys(case):
    import xarray as xr

    from glotaran.project import Scheme
    from vlib import testmc

    nds = len(case["axes"])
    dep = _index_dep(case)
    spec = {
        "dataset_groups": {"default": {"residual_function": "variable_projection", "link_clp": bool(case["linked"])}},
        "megacomplex": {
            "ma": {"type": "verif-table", "labels": ["s0", "s1"], "rates": ["r.1", "r.2"], "shape": "exp", "index_dependent": dep[0]},
            "mb": {"type": "verif-table", "labels": ["s2", "s3"], "rates": ["r.3", "r.4"], "shape": "cos", "index_dependent": dep[1]},
            # a free parameter that influences nothing: every evaluation of the objective is identical
            "unused": {"type": "verif-table", "labels": ["u"], "rates": ["free.1"], "shape": "exp"},
        },
        "dataset": {f"d{k}": {"megacomplex": ["ma", "mb"]} for k in range(nds)},
    }
    params = {"r": [[r, {"vary": False}] for r in RATES], "free": [1.0]}
    if case["constraints"]:
        spec["clp_constraints"] = [{"type": c["type"], "target": c["target"], "interval": _model_intervals(c["interval"])} for c in case["constraints"]]
    if case["relations"]:
        spec["clp_relations"] = [
            {"source": _rel_labels(r)[0], "target": _rel_labels(r)[1], "parameter": f"rel.{j + 1}", "interval": _model_intervals(r["interval"])}
            for j, r in enumerate(case["relations"])
        ]
        params["rel"] = [[r["p"], {"vary": False}] for r in case["relations"]]
    if case["penalties"]:
        spec["clp_penalties"] = [
            {
                "type": "equal_area",
                "source": p["source"],
                "source_intervals": [_tup(i) for i in p["source_intervals"]],
                "target": p["target"],
                "target_intervals": [_tup(i) for i in p["target_intervals"]],
                "parameter": f"pen.{j + 1}",
                "weight": p["weight"],
            }
            for j, p in enumerate(case["penalties"])
        ]
        params["pen"] = [[p["p"], {"vary": False}] for p in case["penalties"]]
    if case["weights"]:
        spec["weights"] = [
            {
                "datasets": list(w["datasets"]),
                "global_interval": _model_intervals(w["global_interval"]),
                "model_interval": _model_intervals(w["model_interval"]),
                "value": w["value"],
            }
            for w in case["weights"]
        ]
    model, parameters = testmc.make_model(spec, params)
    data, raw, dsw = {}, {}, {}
    for k in range(nds):
        g = np.asarray(case["axes"][k], dtype=float)
        t = MODEL_STEP * np.arange(case["model_n"][k])
        rng = np.random.default_rng([case["seed"], k])
        y = rng.standard_normal((t.size, g.size)) + 2.0
        ds = xr.DataArray(y.copy(), coords=[("model", t), ("global", g)]).to_dataset(name="data")
        if case["ds_weight"][k]:
            w = rng.uniform(0.5, 2.0, (t.size, g.size))
            ds["weight"] = (("model", "global"), w.copy())
            dsw[f"d{k}"] = w
        data[f"d{k}"] = ds
        raw[f"d{k}"] = (t, g, y)
    scheme = Scheme(model, parameters, data, maximum_number_function_evaluations=1)
    return scheme, raw, dsw


def _views(case, res, raw):
    """(name, axis, clp[n_axis, 4], members) - one per dataset (unlinked) or one for the aligned axis (linked).

    members[i] = list of (dataset label, index on the dataset's own global axis).
    """
    labels = [f"d{k}" for k in range(len(case["axes"]))]
    clp = {d: np.array([res.data[d].clp.sel(clp_label=lab).values for lab in LABELS], dtype=float).T.reshape(len(raw[d][1]), len(LABELS)) for d in labels}
    if not case["linked"]:
        return [(d, list(raw[d][1]), clp[d], [[(d, i)] for i in range(len(raw[d][1]))]) for d in labels]
    aligned = sorted({float(g) for d in labels for g in raw[d][1]})
    rows, members = [], []
    for g in aligned:
        mem = [(d, list(raw[d][1]).index(g)) for d in labels if g in list(raw[d][1])]
        members.append(mem)
        rows.append(clp[mem[0][0]][mem[0][1]])
    return [("group", aligned, np.array(rows), members)]


def _weight_candidates(items, t, g):
    """All weight arrays admitted by the reference for the weight items of one dataset."""
    per_item = []
    for w in items:
        gm = ref.union_sets(list(g), w["global_interval"])
        mm = ref.union_sets(list(t), w["model_interval"])
        per_item.append((ref.admissible_sets(*gm), ref.admissible_sets(*mm), w["value"]))
    out = []
    for combo in itertools.product(*[list(itertools.product(gs, ms)) for gs, ms, _ in per_item]):
        arr = np.ones((len(t), len(g)))
        for (gs, ms), (_, _, value) in zip(combo, per_item):
            if gs and ms:
                arr[np.ix_(sorted(ms), sorted(gs))] *= value
        out.append(arr)
    return out


def _penalty_slot(pen, axis, clp):
    """Admissible outcomes of one equal-area penalty on one view: (values, absent_allowed, scale)."""
    si, ti = LABELS.index(pen["source"]), LABELS.index(pen["target"])

    def side(intervals, col):
        per = [ref.admissible_sets(*ref.interval_sets(axis, iv)) for iv in intervals]
        sums = []
        for combo in itertools.product(*per):
            union = frozenset().union(*combo)
            multi = [i for s in combo for i in s]
            sums.append((len(union) == 0, float(sum(clp[i, col] for i in sorted(union)))))
            sums.append((len(union) == 0, float(sum(clp[i, col] for i in multi))))
        return sums

    src, tgt = side(pen["source_intervals"], si), side(pen["target_intervals"], ti)
    values, absent = [], False
    for (se, sv), (te, tv) in itertools.product(src, tgt):
        if se or te:
            absent = True  # a penalty with an empty side: whether it is reported is not stated
        values.append(abs(sv - pen["p"] * tv) * pen["weight"])
    scale = abs(pen["weight"]) * (np.abs(clp[:, si]).sum() + abs(pen["p"]) * np.abs(clp[:, ti]).sum())
    return sorted(set(values)), absent, float(scale)


def _match_slots(got, slots):
    """Can the reported list be produced by the slots in order (absent slots skipped)?"""

    def rec(i, j):
        if j == len(slots):
            return i == len(got)
        values, absent, scale = slots[j]
        if i < len(got) and any(abs(got[i] - v) <= 1e-9 * scale + 1e-300 for v in values) and rec(i + 1, j + 1):
            return True
        return bool(absent and rec(i, j + 1))

    return rec(0, 0)


def prop_sys(case):
    from glotaran.optimization.optimize import optimize

    scheme, raw, dsw = build_sys(case)
    labels = list(raw)
    with warnings.catch_warnings(record=True) as caught:
        warnings.simplefilter("always")
        with expect_ok("dsweight.call" if any(case["ds_weight"]) else "sys.optimize"):
            res = optimize(scheme, verbose=False, raise_exception=True)
    messages = [str(w.message) for w in caught]
    tags = ["linked" if case["linked"] else "unlinked", f"datasets={len(labels)}"]
    nontrivial = False

    # ---- decode the affected sets from the reported clps, view by view
    views = _views(case, res, raw)
    n_clps_expected = 0
    decoded = []
    for name, axis, clp, members in views:
        n = len(axis)
        everything = frozenset(range(n))
        # a clp that is the target of a relation is decided by the relation clauses below (it is p * source, which is
        # zero where the source is constrained to zero); all other constrainable clps are zero exactly where constrained
        rel_targets = {_rel_labels(r)[1] for r in case["relations"]}
        zeroed = {lab: frozenset(i for i in range(n) if clp[i, LABELS.index(lab)] == 0.0 and lab not in rel_targets) for lab in ("s0", "s1")}
        for lab in ("s0", "s1"):
            if lab in rel_targets:
                continue
            cons = [c for c in case["constraints"] if c["target"] == lab]
            lower, upper = set(), set()
            for c in cons:
                must, may = ref.union_sets(axis, c["interval"])
                if c["type"] == "zero":
                    lower |= must
                    upper |= may
                else:
                    lower |= everything - may
                    upper |= everything - must
                if c["interval"] is not None:
                    nt, tg = _nontrivial(axis, c["interval"], must)
                    nontrivial |= nt
                    tags += [f"{c['type']}:{x}" for x in tg]
            z = zeroed[lab]
            kinds = "+".join(sorted({c["type"] for c in cons})) or "none"
            check(frozenset(lower) <= z, f"sys.{kinds}.covers", lambda: f"{name}: clp {lab} is zero at {sorted(z)} of axis {axis}; constraints {cons}: must be zero at {sorted(lower)}")
            check(z <= frozenset(upper), f"sys.{kinds}.within", lambda: f"{name}: clp {lab} is zero at {sorted(z)} of axis {axis}; constraints {cons}: may be zero at most at {sorted(upper)}")
        # `only` is exactly the complement of `zero` (same interval on two different clps)
        cz = [c for c in case["constraints"] if c["target"] == "s0"]
        co = [c for c in case["constraints"] if c["target"] == "s1"]
        if len(cz) == 1 and len(co) == 1 and cz[0]["type"] == "zero" and co[0]["type"] == "only" and cz[0]["interval"] == co[0]["interval"]:
            tags.append("zero_only_pair")
            check(zeroed["s1"] == everything - zeroed["s0"], "sys.only_complement_of_zero", lambda: f"{name} axis {axis} interval {cz[0]['interval']}: zero at {sorted(zeroed['s0'])}, only zero at {sorted(zeroed['s1'])}")
        # relations: target = p * source on the affected set of each relation
        hits = [[] for _ in range(n)]  # per index: (source column, target column, p) of the relations found acting
        for r in case["relations"]:
            src, tgt = _rel_labels(r)
            si, ti = LABELS.index(src), LABELS.index(tgt)
            must, may = ref.union_sets(axis, r["interval"])
            if r["interval"] is not None:
                nt, tg = _nontrivial(axis, r["interval"], must)
                nontrivial |= nt
                tags += [f"relation:{x}" for x in tg]
            hit = set()
            for i in range(n):
                vs, vt = clp[i, si], clp[i, ti]
                if abs(vt - r["p"] * vs) <= 1e-12 * max(abs(vt), abs(r["p"] * vs)):
                    hit.add(i)
                    hits[i].append((si, ti, r["p"]))
            related = frozenset(hit)
            check(must <= related, "sys.relation.covers", lambda: f"{name}: {tgt} = p*{src} holds at {sorted(related)} of axis {axis}; relation {r} (of {len(case['relations'])}): must hold at {sorted(must)}; clp {src},{tgt} = {clp[:, [si, ti]].tolist()}")
            check(related <= may, "sys.relation.within", lambda: f"{name}: {tgt} = p*{src} holds at {sorted(related)} of axis {axis}; relation {r} (of {len(case['relations'])}): may hold at most at {sorted(may)}")
        if len(case["relations"]) > 1:
            tags.append("multi_relation")
            if any(0 < len(h) < len(case["relations"]) for h in hits):
                tags.append("relations_differ_at_an_index")
        n_clps_expected += sum(len(LABELS) - (i in zeroed["s0"]) - (i in zeroed["s1"]) - len({ti for _, ti, _ in hits[i]}) for i in range(n))
        decoded.append((zeroed, hits))
    check(res.number_of_clps == n_clps_expected, "sys.number_of_clps", lambda: f"number_of_clps={res.number_of_clps}, clp table has {n_clps_expected} free entries")

    # ---- weights
    used_weight = {}
    for k, d in enumerate(labels):
        t, g, y = raw[d]
        items = [w for w in case["weights"] if d in w["datasets"]]
        if case["ds_weight"][k]:
            check("weight" in res.data[d], "dsweight.reported", "no weight in the result dataset")
            got = np.asarray(res.data[d].weight.transpose("model", "global").values, dtype=float)
            check(np.array_equal(got, dsw[d]), "dsweight.dataset_weight_reported", lambda: f"{d}: reported weight differs from the dataset's weight")
            if items:
                tags.append("dataset_and_model_weight")
                nontrivial = True
                check(any("weight" in m.lower() for m in messages), "dsweight.warning", lambda: f"{d} has a dataset weight and {len(items)} model weights, warnings: {messages}")
            used_weight[d] = dsw[d]
        elif items:
            check("weight" in res.data[d], "sys.weight.reported", lambda: f"{d}: no weight in the result dataset, model weights {items}")
            got = np.asarray(res.data[d].weight.transpose("model", "global").values, dtype=float)
            cands = _weight_candidates(items, t, g)
            inf_upper = any(w[key] is not None and _upper_inf(_tup(w[key])) for w in items for key in ("global_interval", "model_interval"))
            check(
                any(np.allclose(got, c, rtol=1e-12, atol=0) for c in cands),
                "sys.weight.value" + (".inf_upper" if inf_upper else ""),
                lambda: f"{d}: model axis {t.tolist()} global axis {g.tolist()} weights {items}: reported weight {got.tolist()} is none of the {len(cands)} admissible arrays (e.g. {cands[0].tolist()})",
            )
            used_weight[d] = got
            for w in items:
                for key, ax in (("global_interval", g), ("model_interval", t)):
                    if w[key] is not None:
                        must, _ = ref.interval_sets(list(ax), w[key])
                        nt, tg = _nontrivial(list(ax), w[key], must)
                        nontrivial |= nt
                        tags += [f"weight_{key}:{x}" for x in tg]

    # ---- the fit honours the decoded sets and the weights (optimality certificate per index)
    dep = _index_dep(case)
    tags.append("index_dep=" + "".join("y" if x else "n" for x in dep))
    for (name, axis, clp, members), (zeroed, hits) in zip(views, decoded):
        for i, gval in enumerate(axis):
            blocks, ys = [], []
            model_weighted = False
            for d, j in members[i]:
                t, g, y = raw[d]
                a = _table(t, float(g[j]), dep)
                w = used_weight.get(d)
                model_weighted |= w is not None and d not in dsw
                wcol = w[:, j] if w is not None else np.ones(len(t))
                blocks.append(a * wcol[:, None])
                ys.append(y[:, j] * wcol)
            a, yw = np.concatenate(blocks), np.concatenate(ys)
            full = clp[i]
            targets = {ti for _, ti, _ in hits[i]}
            keep = [c for c in range(4) if not ((c == 0 and i in zeroed["s0"]) or (c == 1 and i in zeroed["s1"]) or c in targets)]
            ae = a.copy()
            for si, ti, p in hits[i]:
                ae[:, si] = ae[:, si] + p * a[:, ti]  # a source that is constrained to zero is not kept, its target is zero too
            ar = ae[:, keep]
            r_code = np.linalg.norm(yw - ar @ full[keep])
            x_ref, *_ = np.linalg.lstsq(ar, yw, rcond=None)
            r_ref = np.linalg.norm(yw - ar @ x_ref)
            if any(case["ds_weight"]):
                clause = "dsweight.fit_uses_dataset_weight"
            else:
                # same oracle, bucketed by the configuration class (different root causes must not hide each other)
                clause = "sys.fit_honours_items" + (".multi_relation" if len(case["relations"]) > 1 else "") + (".model_weight" if model_weighted else "")
            check(
                r_code <= r_ref + 1e-9 * np.linalg.norm(yw),
                clause,
                lambda: f"{name} index {i} (global {gval}): residual norm of the reported clps {full.tolist()} is {r_code:.12g} > optimum {r_ref:.12g} of the reduced weighted problem "
                f"(free columns {keep}, relations acting here {hits[i]}, index_dep {dep})",
            )

    # ---- equal area penalties
    if case["penalties"]:
        got = [float(v) for grp in res.additional_penalty for v in np.asarray(grp, dtype=float).ravel()]
        slots = []
        for name, axis, clp, members in views:
            for p in case["penalties"]:
                slots.append(_penalty_slot(p, axis, clp))
                for iv in p["source_intervals"] + p["target_intervals"]:
                    must, _ = ref.interval_sets(axis, iv)
                    nt, tg = _nontrivial(axis, iv, must)
                    nontrivial |= nt
                    tags += [f"penalty:{x}" for x in tg]
        rev = any(_reversed(_tup(iv)) for p in case["penalties"] for iv in p["source_intervals"] + p["target_intervals"])
        check(
            _match_slots(got, slots),
            "sys.penalty" + (".reversed" if rev else ""),
            lambda: f"additional_penalty={got}; admissible per (view, penalty): {[(v[:6], 'absent ok' if a else 'required') for v, a, _ in slots]}; views {[(n_, ax) for n_, ax, _, _ in views]}; penalties {case['penalties']}; warnings {messages[:3]}",
        )
    return {"nontrivial": bool(nontrivial), "tags": sorted(set(tags))}


# ------------------------------------------------------------------------------------------
# system level, differential: "affects no point beyond the axis point nearest to a bound"


def _run(case, clause):
    from glotaran.optimization.optimize import optimize

    scheme, raw, dsw = build_sys(case)
    had_weight = {lab: "weight" in ds for lab, ds in scheme.data.items()}
    with warnings.catch_warnings():
        warnings.simplefilter("ignore")
        with expect_ok(clause):
            res = optimize(scheme, verbose=False, raise_exception=True)
        # the caller's datasets are the caller's: a weight derived from the model's items must not be written onto them (the same
        # dataset object may be used again, under another label or with another interval)
        gained = [lab for lab, ds in scheme.data.items() if ("weight" in ds) != had_weight[lab]]
        check(not gained, clause.rsplit(".", 1)[0] + ".model_weight_written_onto_the_input_dataset", lambda: f"datasets {gained}")
        # ... and a Result is a value: an unrelated optimisation afterwards (same process, other data, its own penalties) leaves it alone
        import copy as _copy

        pen_before = _copy.deepcopy(res.additional_penalty)
        other = _copy.deepcopy(case)
        other["seed"] = int(other.get("seed", 0)) + 17
        try:
            optimize(build_sys(other)[0], verbose=False, raise_exception=True)
        except Exception:  # noqa: BLE001  (only there to disturb shared state)
            pass
        same = len(pen_before) == len(res.additional_penalty) and all(
            np.array_equal(np.asarray(a, dtype=float), np.asarray(b, dtype=float)) for a, b in zip(pen_before, res.additional_penalty))
        check(same, clause.rsplit(".", 1)[0] + ".penalty_of_an_earlier_result_changed_by_a_later_optimisation", lambda: f"{pen_before} -> {res.additional_penalty}")
    return res, raw


def _reported_weight(res, d, raw):
    t, g, _ = raw[d]
    if "weight" not in res.data[d]:
        return np.ones((len(t), len(g)))
    return np.asarray(res.data[d].weight.transpose("model", "global").values, dtype=float)


def prop_locality(case):
    """Taking one interval item away changes nothing at the points its interval cannot reach.

    The same scheme is optimised with and without one constraint / relation / model weight.  At every
    index of the (aligned) global axis that lies beyond the points nearest to the item's bounds - for
    ``only``: at every index inside its interval - the estimated clps must be the same in both runs,
    whatever else the model contains (other items, their intervals, weights, index dependence): each
    index is an independent linear problem built from that index's matrix, data and items.  A model
    weight on a dataset that brings its own weight has no effect anywhere on that dataset.
    """
    import copy

    base, drop = case["base"], case["drop"]
    kind, k = drop["kind"], drop["k"]
    item = base[kind][k]
    less = copy.deepcopy(base)
    del less[kind][k]
    res_a, raw = _run(base, "locality.optimize")
    res_b, _ = _run(less, "locality.optimize")
    views_a, views_b = _views(base, res_a, raw), _views(less, res_b, raw)
    name_of = item["type"] if kind == "constraints" else kind[:-1]
    n_out = n_all = 0
    for (name, axis, clp_a, members), (_, _, clp_b, _) in zip(views_a, views_b):
        n = len(axis)
        if kind == "weights":
            # the weight lives on each dataset's own global axis
            reach = set()
            for i in range(n):
                for d, j in members[i]:
                    if d in item["datasets"] and not base["ds_weight"][int(d[1:])] and j in ref.union_sets(list(raw[d][1]), item["global_interval"])[1]:
                        reach.add(i)
        else:
            must, may = ref.union_sets(axis, item["interval"])
            reach = (set(range(n)) - must) if name_of == "only" else set(may)
        n_all += n
        for i in sorted(set(range(n)) - reach):
            n_out += 1
            scale = max(np.abs(clp_b[i]).max(), np.abs(clp_a[i]).max(), 1e-300)
            ds_only = kind == "weights" and all(d not in item["datasets"] or base["ds_weight"][int(d[1:])] for d, _ in members[i]) and any(d in item["datasets"] for d, _ in members[i])
            check(
                bool(np.all(np.abs(clp_a[i] - clp_b[i]) <= 1e-9 * scale)),
                "locality.weight.dataset_weight_used" if ds_only else f"locality.{name_of}.acts_outside_interval",
                lambda: f"{name} index {i} (global {float(axis[i])}) of axis {[float(x) for x in axis]} cannot be reached by {name_of} {item}, but the clps {LABELS} are {clp_a[i].tolist()} with it "
                f"and {clp_b[i].tolist()} without it; linked={base['linked']} index_dep={_index_dep(base)} relations={base['relations']} constraints={base['constraints']} weights={base['weights']}",
            )
    if kind == "weights":
        for d in raw:
            if d not in item["datasets"] or base["ds_weight"][int(d[1:])]:
                out = set(range(len(raw[d][1])))
            else:
                out = set(range(len(raw[d][1]))) - set(ref.union_sets(list(raw[d][1]), item["global_interval"])[1])
            wa, wb = _reported_weight(res_a, d, raw), _reported_weight(res_b, d, raw)
            for j in sorted(out):
                check(bool(np.allclose(wa[:, j], wb[:, j], rtol=1e-12, atol=0)), "locality.weight.array_outside_interval", lambda: f"{d} global index {j}: weight column {wa[:, j].tolist()} with and {wb[:, j].tolist()} without {item}")
    has_interval = item.get("interval") is not None if kind != "weights" else item["global_interval"] is not None
    tags = [f"drop:{name_of}", "linked" if base["linked"] else "unlinked", "index_dep=" + "".join("y" if x else "n" for x in _index_dep(base)), f"n_{kind}={len(base[kind])}"]
    if any(base["ds_weight"]):
        tags.append("dataset_weight")
    return {"nontrivial": bool(has_interval and 0 < n_out < n_all), "tags": tags}


# ------------------------------------------------------------------------------------------


def selfcheck():
    ref.selfcheck()
    # the enumerations are what the rule says
    assert len(grid_axes()) == 119
    assert len(bound_pairs(full_bounds(GRID[:5]))) == 17 * 17 - 2
    assert len(bound_pairs(class_bounds(GRID[:2]))) == 62 and len(bound_pairs(class_bounds(GRID[:1]))) == 23
    # the slot matcher
    assert _match_slots([1.0], [([1.0], False, 1.0)]) and not _match_slots([], [([1.0], False, 1.0)])
    assert _match_slots([], [([1.0], True, 1.0)]) and _match_slots([2.0], [([1.0], True, 1.0), ([2.0], False, 1.0)])
    assert not _match_slots([2.0, 1.0], [([1.0], False, 1.0), ([2.0], False, 1.0)])


PROPERTY = Property(
    id="C08",
    level="exploration",
    rule=(
        "Unit level, exhaustive: every strictly increasing axis that is a subset (size 1-5) of the 7-point grid "
        f"{GRID} (119 axes) x every ordered pair of bounds from {{-inf, below, every axis point, a quarter point and the exact "
        "midpoint of every gap, above, +inf}} (reversed and degenerate included, same-infinity pairs excluded) x item kind "
        "(zero / relation / only applies() with tuple and one-element-list form, weight slice, penalty area with flat and nested "
        "labels); two-interval lists over one representative bound per class (8 values -> 62^2 lists per axis) for zero, only, area; "
        "monotonicity over all comparable pairs of single intervals per axis and kind; random float axes (size 1-12) with "
        "fragile bounds through Hypothesis. System level: optimize() of 1-2 dataset verif-table schemes (each of the two megacomplexes "
        "index dependent or not, linked and unlinked, global axes subsets of the grid), zero/only constraints, 0-3 relations with "
        "their own intervals, equal-area penalties, model weights, dataset weights; affected sets decoded from "
        "Result.data[*].clp/.weight, additional_penalty, number_of_clps, plus an optimality certificate per index; differential "
        "(sys_locality): the same scheme with and without one interval item agrees at every index the item cannot reach. "
        "Non-trivial: some interval has a bound strictly between two points, infinite, reversed or outside the axis while "
        "the set of inside points is neither empty nor the whole axis."
    ),
    subs=[
        Sub("unit_single", prop=prop_unit, enumerate=unit_single_cases, exhaustive=True,
            doc="all 119 grid axes x all ordered bound pairs (3n+2 bounds per axis) x 9 item kinds/forms + items without interval"),
        Sub("unit_double", prop=prop_unit, enumerate=unit_double_cases, exhaustive=True,
            doc="all 119 grid axes x all ordered pairs of intervals over the 8 bound classes x {zero, only, penalty area}; "
                "thorough tier: the full bound set (3n+2 values) instead of the class representatives for axes of size <= 3"),
        Sub("mono", prop=prop_mono, enumerate=mono_cases, exhaustive=True,
            doc="all 119 grid axes x {zero, only, slice, area}: S(I) <= S(I') for all comparable single intervals of the bound grid"),
        Sub("unit_random", prop=prop_unit_random, strategy=random_unit_cases, budget={"quick": 6000, "thorough": 600000}),
        Sub("sys_constraints", prop=prop_sys, strategy=lambda: sys_cases("constraints"), budget={"quick": 800, "thorough": 24000}),
        Sub("sys_relations", prop=prop_sys, strategy=lambda: sys_cases("relations"), budget={"quick": 600, "thorough": 16000},
            doc="2-3 relations with pairwise different targets and sources that are no targets, each with its own interval, "
                "0-2 constraints on clps that are no relation target (relation sources included), sometimes a model weight"),
        Sub("sys_weights", prop=prop_sys, strategy=lambda: sys_cases("weights"), budget={"quick": 500, "thorough": 14000}),
        Sub("sys_penalty", prop=prop_sys, strategy=lambda: sys_cases("penalty"), budget={"quick": 600, "thorough": 16000}),
        Sub("sys_dsweight", prop=prop_sys, strategy=lambda: sys_cases("dsweight"), budget={"quick": 200, "thorough": 6000}),
        Sub("sys_locality", prop=prop_locality, strategy=locality_cases, budget={"quick": 400, "thorough": 12000},
            doc="differential: a system case (relations / weights / constraints / dsweight generator) optimised with and without one of "
                "its constraints, relations or model weights; the clps (and reported weights) at every index the item's interval cannot "
                "reach must be the same"),
    ],
    assumptions=[
        "reference semantics: inside <= S <= inside | [nearest(lo)..nearest(hi)]; bounds within 1e-9*scale of a point and nearest-point ties within 1e-9*scale are left open",
        "exhaustive grids are dyadic rationals: every sharp decision is exact in binary floating point",
        "system level: an exactly zero clp means 'constrained', target == p*source to 1e-12 relative means 'related' (data are generic seeded noise + 2)",
        "several relations: pairwise different targets, no target is a source or a constraint target (other combinations have no stated meaning where "
        "both apply); a relation whose source is constrained to zero makes its target zero",
        "sys_locality: indices of a (aligned) global axis are independent linear problems, so the clps at an index an item cannot reach are compared "
        "to 1e-9 relative between the runs with and without the item",
        "equal-area penalty compared to 1e-9*weight*(sum|clp_src|+|p|sum|clp_tgt|); overlapping interval lists may count a point once or once per interval; a penalty with an empty side may be omitted",
        "linked groups: the axis of constraints, relations and penalties is the aligned global axis (link tolerance 0); model weights act on each dataset's own axes",
        "numpy lstsq is trusted for the per-index optimality certificate (1e-9*|y| slack)",
        "all non-linear parameters are fixed and one free parameter influences nothing, so every objective evaluation is identical (independent of D24)",
    ],
    selfcheck=selfcheck,
)
