"""C16 - parameter files round-trip in every supported format; specifications load like programmatic construction.

Sub-checks
----------
csv / tsv / xlsx / ods
    A generated valid parameter set (``vlib.gen.c16_params.parameter_sets``) is built programmatically,
    saved with ``glotaran.io.save_parameters`` into a fresh temporary directory, loaded with
    ``glotaran.io.load_parameters`` and compared with the harness' own comparator; the loaded set is saved
    and loaded again (3 cycles in total) and must stay within k * RTOL of the original.
history
    The part of the quantifier that a fresh directory per save cannot reach: what a path held *before* the save,
    what happened to other paths in between, and how often a file is loaded.  A case holds 2-3 parameter sets
    (independent draws, reduced versions with fewer rows, edited versions with other cells) and a list of steps
    ``save`` / ``load`` / ``resave`` over 1-3 paths of one directory (``vlib.gen.c16_params.histories``); the
    interpreter ``prop_history`` keeps the reference model "a path holds the set last saved to it" and decides
    every load (and every file once more at the end) with the comparator of the round-trip sub-checks.  Clauses
    carry ``.fresh`` / ``.overwrite`` (the file did not / did exist before the save that is being read back);
    ``history.<fmt>.overwrite.stale_rows`` = rows of the former content of the path are loaded in addition;
    ``history.<fmt>.overwrite_protection`` = no ``FileExistsError`` for an existing file without ``allow_overwrite``.
spec
    A generated specification (list / nested dict, default option blocks, automatic numbering,
    scientific-notation strings, expressions) is loaded through ``Parameters.from_list`` /
    ``Parameters.from_dict`` and through ``load_parameters(text, format_name="yml_str")`` (and a ``.yml``
    file) and compared with the parameters built programmatically from the harness' own reading of the
    specification (``Parameter(...)`` objects); expression values are recomputed by the harness' evaluator.
spec_sci
    As ``spec`` but with scientific-notation strings as values of *unlabelled* items (automatic numbering
    combined with scientific-notation strings), kept apart because it has its own root cause.
fuzz
    Optional coverage-guided engine (atheris driving the same Hypothesis strategy through
    ``fuzz_one_input``), thorough tier only; absence of atheris is noted, not failed.

Clause ids separate root causes:  ``*.labels_numeric_column`` (label column re-typed by the reader),
``*.expression_numeric_column`` (expression column re-typed), ``*.float_precision`` (small float
deviations beyond the text round-trip tolerance), and generic ``*.load`` / ``*.labels`` / ``*.expression`` /
``*.<field>`` for everything else.
"""

from __future__ import annotations

import copy
import math
import os
import tempfile

import numpy as np

from vlib.core import Property
from vlib.core import ShardResult
from vlib.core import Sub
from vlib.core import check
from vlib.core import expect_ok
from vlib.gen import c16_params as G

RTOL = 1e-13  # "text round-trip precision" granted by the statement (per save-load cycle)
ATOL = 1e-323  # two units in the last place of a subnormal (per cycle)
EXPR_RTOL = 1e-14  # harness evaluator vs asteval on identical inputs (same IEEE operations)
FLOAT_FIELDS = ("standard_error", "minimum", "maximum")


# ------------------------------------------------------------------------------------------
# comparator


def is_real(x) -> bool:
    return isinstance(x, (int, float, np.integer, np.floating)) and not isinstance(x, (bool, np.bool_))


def close(a, b, k: int = 1, rtol: float = RTOL, atol: float = ATOL) -> bool:
    if not (is_real(a) and is_real(b)):
        return False
    a, b = float(a), float(b)
    if math.isnan(a) or math.isnan(b):
        return math.isnan(a) and math.isnan(b)
    if math.isinf(a) or math.isinf(b):
        return a == b
    return abs(a - b) <= k * rtol * max(abs(a), abs(b)) + k * atol


def same_exact(a, b) -> bool:
    if is_real(a) and is_real(b):
        a, b = float(a), float(b)
        return (math.isnan(a) and math.isnan(b)) or a == b
    return False


def rel_err(a, b) -> float:
    try:
        a, b = float(a), float(b)
        if a == b:
            return 0.0
        return abs(a - b) / max(abs(a), abs(b))
    except Exception:  # noqa: BLE001
        return math.inf


def snapshot(parameters) -> list[dict]:
    """Read a Parameters object through its public attributes, in iteration order."""
    return [
        {
            "label": p.label,
            "value": p.value,
            "standard_error": p.standard_error,
            "expression": p.expression,
            "minimum": p.minimum,
            "maximum": p.maximum,
            "non_negative": p.non_negative,
            "vary": p.vary,
        }
        for p in parameters.all()
    ]


def exact_equal(snap_a: list[dict], snap_b: list[dict]) -> bool:
    """All attributes equal (NaN = NaN), labels as a set (the documented meaning of ``Parameters.__eq__``)."""
    a = {s["label"]: s for s in snap_a}
    b = {s["label"]: s for s in snap_b}
    if sorted(a) != sorted(b) or len(a) != len(snap_a) or len(b) != len(snap_b):
        return False
    for label, x in a.items():
        y = b[label]
        for f in ("value", *FLOAT_FIELDS):
            if not same_exact(x[f], y[f]):
                return False
        if x["expression"] != y["expression"] or bool(x["vary"]) != bool(y["vary"]) or bool(x["non_negative"]) != bool(y["non_negative"]):
            return False
    return True


def numeric_looking(label: str) -> bool:
    """Would a spreadsheet / csv reader take this cell for a number or a boolean?"""
    if label.lower() in ("true", "false"):
        return True
    try:
        float(label)
        return True
    except ValueError:
        return False


def compare(pfx: str, expected: list[dict], trees: dict, loaded, k: int, rtol: float, numeric_labels: bool, numeric_exprs: bool):
    """Own comparator: labels and order, expressions, flags, floats, re-evaluated expression values."""
    got = snapshot(loaded)
    lab_clause = f"{pfx}.labels_numeric_column" if numeric_labels else f"{pfx}.labels"
    check([g["label"] for g in got] == [e["label"] for e in expected], lab_clause,
          lambda: f"cycle {k}: labels {[g['label'] for g in got]} expected {[e['label'] for e in expected]}")
    for e in expected:
        check(loaded.has(e["label"]) and loaded.get(e["label"]).label == e["label"], lab_clause, lambda: f"cycle {k}: get({e['label']!r})")
    expr_clause = f"{pfx}.expression_numeric_column" if numeric_exprs else f"{pfx}.expression"
    for e, g in zip(expected, got):
        check(g["expression"] == e["expression"] and (g["expression"] is None or isinstance(g["expression"], str)), expr_clause,
              lambda: f"cycle {k}: {e['label']}: expression {g['expression']!r} expected {e['expression']!r}")
    for e, g in zip(expected, got):
        for f in ("vary", "non_negative"):
            check(isinstance(g[f], (bool, np.bool_)) and bool(g[f]) == bool(e[f]), f"{pfx}.{f}",
                  lambda: f"cycle {k}: {e['label']}: {f} {g[f]!r} expected {e[f]!r}")
    values = {g["label"]: g["value"] for g in got}
    for e, g in zip(expected, got):
        fields = FLOAT_FIELDS if e["expression"] is not None else ("value", *FLOAT_FIELDS)
        for f in fields:
            if not close(g[f], e[f], k, rtol):
                small = is_real(g[f]) and rel_err(g[f], e[f]) < 1e-9
                clause = f"{pfx}.float_precision" if small else f"{pfx}.{f}"
                check(False, clause, lambda: f"cycle {k}: {e['label']}: {f} {g[f]!r} expected {e[f]!r} (rel. error {rel_err(g[f], e[f]):.3e}, allowed {k * rtol:.1e})")
    # expressions are re-evaluated after loading: on the loaded values, in declaration order
    for e, g in zip(expected, got):
        if e["expression"] is not None:
            want = G.evaluate(trees[e["label"]], values)
            check(close(g["value"], want, 1, EXPR_RTOL, 0.0), f"{pfx}.expression_value",
                  lambda: f"cycle {k}: {e['label']} = {e['expression']!r}: value {g['value']!r}, evaluated on the loaded values {want!r}")
    return got


# ------------------------------------------------------------------------------------------
# file round trips


def build_parameters(case):
    from glotaran.parameter import Parameter
    from glotaran.parameter import Parameters

    kwargs = []
    trees = {}
    for p in case["params"]:
        kw = {k: p[k] for k in ("label", "value", "standard_error", "minimum", "maximum", "non_negative", "vary")}
        kw["value"] = float(kw["value"])
        if p["expression"] is not None:
            kw["expression"] = G.render(p["expression"])
            trees[p["label"]] = p["expression"]
        kwargs.append(kw)
    params = Parameters({kw["label"]: Parameter(**kw) for kw in kwargs})
    return params, trees


def model_of_case(case) -> list[dict]:
    """What the generated set *is*, read from the case alone (checks the generator, not pyglotaran)."""
    out = []
    stale = dict(map(tuple, case.get("stale", [])))
    for p in case["params"]:
        e = {k: p[k] for k in ("label", "standard_error", "minimum", "maximum", "non_negative")}
        if p["expression"] is not None:
            e["expression"] = G.render(p["expression"])
            e["vary"] = False
            e["value"] = None
        else:
            e["expression"] = None
            e["vary"] = p["vary"]
            e["value"] = stale.get(p["label"], p["value"])
        out.append(e)
    return out


def prepare_set(case) -> dict:
    """Build one generated parameter set and everything the oracle needs to know about it (from the case alone)."""
    fmt = case["fmt"]
    original, trees = build_parameters(case)
    for label, value in case.get("stale", []):
        # a referenced parameter changes after construction: the value column of the file then holds an
        # outdated value for the dependent expressions, which loading has to re-evaluate
        original.get(label).value = float(value)
    snap0 = snapshot(original)
    model = model_of_case(case)
    assert [s["label"] for s in snap0] == [m["label"] for m in model], "generator: labels"
    for s, m in zip(snap0, model):
        assert s["expression"] == m["expression"] and s["vary"] == m["vary"] and s["non_negative"] == m["non_negative"], f"generator: {s} {m}"
        assert m["value"] is None or same_exact(s["value"], m["value"]), f"generator: {s} {m}"
        assert all(same_exact(s[f], m[f]) for f in FLOAT_FIELDS), f"generator: {s} {m}"

    labels = [p["label"] for p in case["params"]]
    exprs = [p["expression"] for p in case["params"] if p["expression"] is not None]
    save_kwargs, load_kwargs = {}, {}
    if fmt == "csv" and case.get("sep", ",") != ",":
        save_kwargs["sep"] = load_kwargs["sep"] = case["sep"]
    if fmt in ("csv", "tsv") and case.get("replace_inf", True) is False:
        save_kwargs["replace_infinfinity"] = False
    if case.get("explicit_format"):
        save_kwargs["format_name"] = load_kwargs["format_name"] = fmt
    return {
        "original": original, "trees": trees, "snap0": snap0, "labels": labels, "exprs": exprs,
        "numeric_labels": all(numeric_looking(x) for x in labels),
        "na_label": any(x in G.NA_TOKEN_LABELS for x in labels),
        "numeric_exprs": bool(exprs) and all(G.is_numeric_literal(t) for t in exprs),
        "save_kwargs": save_kwargs, "load_kwargs": load_kwargs,
    }


def prop_roundtrip(case):
    from glotaran.io import load_parameters
    from glotaran.io import save_parameters

    fmt = case["fmt"]
    pfx = f"{case['sub']}.{fmt}" if case.get("sub") else fmt
    prep = prepare_set(case)
    original, trees, snap0, labels, exprs = prep["original"], prep["trees"], prep["snap0"], prep["labels"], prep["exprs"]
    numeric_labels, na_label, numeric_exprs = prep["numeric_labels"], prep["na_label"], prep["numeric_exprs"]
    save_kwargs, load_kwargs = prep["save_kwargs"], prep["load_kwargs"]

    from vlib import env

    current = original
    exact = True
    loaded = None
    hostile = env.hostile_for(case)
    for k in range(1, int(case.get("cycles", 3)) + 1):
        # (a third of the cases: numpy print options / pandas display options of a user's session must not leak into the file)
        with tempfile.TemporaryDirectory(prefix="verif_c16_") as d, env.hostile_environment(hostile):
            path = os.path.join(d, f"parameters_{k}.{fmt}")
            with expect_ok(f"{pfx}.save"):
                save_parameters(current, path, **save_kwargs)
            check(os.path.isfile(path) and os.path.getsize(path) > 0, f"{pfx}.save", "no file written")
            with expect_ok(f"{pfx}.label_na_token" if na_label else f"{pfx}.labels_numeric_column" if numeric_labels else f"{pfx}.load"):
                loaded = load_parameters(path, **load_kwargs)
        got = compare(pfx, snap0, trees, loaded, k, RTOL, numeric_labels, numeric_exprs)
        # Parameters.__eq__ must agree with an exact attribute-wise comparison
        ex = exact_equal(snap0, got)
        with expect_ok(f"{pfx}.eq_call"):
            eq1, eq2 = (loaded == original), (original == loaded)
        check(bool(eq1) == ex and bool(eq2) == ex, f"{pfx}.eq_consistent", lambda: f"cycle {k}: loaded == original is {eq1}/{eq2}, exact attribute comparison says {ex}")
        exact = exact and ex
        current = loaded

    tags = [fmt, f"labels:{case.get('label_mode')}", f"expr:{case.get('expr_mode')}"] + (["changed_print_and_display_options"] if hostile else [])
    nested = any("." in x for x in labels)
    any_numeric = any(numeric_looking(x) or any(part.isdigit() for part in x.split(".")) for x in labels)
    cols = {f: [p[f] for p in case["params"]] for f in ("minimum", "maximum", "standard_error", "vary", "non_negative")}
    empty_col = all(v == -math.inf for v in cols["minimum"]) or all(v == math.inf for v in cols["maximum"]) or all(isinstance(v, float) and math.isnan(v) for v in cols["standard_error"])
    flags = any(p["non_negative"] or not p["vary"] for p in case["params"])
    mixed_flags = len(set(cols["vary"])) > 1 or len(set(cols["non_negative"])) > 1
    for cond, tag in ((nested, "nested-label"), (any_numeric, "numeric-label-part"), (numeric_labels, "all-labels-numeric"), (empty_col, "empty-column"),
                      (bool(exprs), "expression"), (numeric_exprs, "all-expressions-numeric"), (flags, "non-default-flag"), (mixed_flags, "mixed-flag-column"),
                      (bool(case.get("stale")), "stale-expression-values"), (exact, "bit-exact"), (not exact, "not-bit-identical-to-original"),
                      (any(len(G.references(t)) and any(r.split(".")[0] != lab.split(".")[0] for r in G.references(t)) for lab, t in trees.items()), "cross-group-reference")):
        if cond:
            tags.append(tag)
    return {"nontrivial": bool(nested or any_numeric or empty_col or exprs or flags), "tags": tags}


# ------------------------------------------------------------------------------------------
# histories: the same paths written and read several times


def prop_history(case):
    """Reference model of a directory of parameter files: a path holds the set that was last saved to it.

    "Saving any valid parameter set ... and loading it again yields equal parameters" does not depend on what the
    path held before, on what was saved elsewhere in between, or on how often the path was loaded: after every step
    list, every load of a path must give the set last saved there (within k * RTOL after k save-load generations).
    ``allow_overwrite=False`` on an existing file is documented to raise ``FileExistsError``; the file then still
    holds the former set.  Inapplicable steps (load of a path never written, resave without a loaded object) are skipped.
    """
    from glotaran.io import load_parameters
    from glotaran.io import save_parameters

    fmt = case["fmt"]
    base = f"{case['sub']}.{fmt}"
    preps = [prepare_set(c) for c in case["sets"]]
    files: dict[int, dict] = {}  # path index -> what the file must contain
    objects: dict[int, dict] = {}  # path index -> object last loaded from it and what it is
    seen = set()

    def load(d, j):
        entry = files[j]
        prep = preps[entry["set"]]
        pfx = f"{base}.overwrite" if entry["former"] else f"{base}.fresh"
        path = os.path.join(d, case["paths"][j])
        with expect_ok(f"{pfx}.labels_numeric_column" if prep["numeric_labels"] else f"{pfx}.load"):
            loaded = load_parameters(path, **prep["load_kwargs"])
        got_labels = [p.label for p in loaded.all()]
        extra = [x for x in got_labels if x not in prep["labels"]]
        if extra and all(x in entry["former"] for x in extra):
            check(False, f"{pfx}.stale_rows", lambda: f"{case['paths'][j]}: saved labels {prep['labels']} over a file that held {sorted(entry['former'])}; "
                                                     f"loaded labels {got_labels}: rows of the former content survive")
        got = compare(pfx, prep["snap0"], prep["trees"], loaded, entry["k"], RTOL, prep["numeric_labels"], prep["numeric_exprs"])
        ex = exact_equal(prep["snap0"], got)
        with expect_ok(f"{pfx}.eq_call"):
            eq1, eq2 = (loaded == prep["original"]), (prep["original"] == loaded)
        check(bool(eq1) == ex and bool(eq2) == ex, f"{pfx}.eq_consistent", lambda: f"loaded == original is {eq1}/{eq2}, exact attribute comparison says {ex}")
        entry["loads"] += 1
        if entry["former"]:
            seen.add("load-after-overwrite")
        if entry["loads"] > 1:
            seen.add("second-load-of-same-file")
        return loaded

    def save(d, obj, set_index, k, j, overwrite):
        prep = preps[set_index]
        path = os.path.join(d, case["paths"][j])
        os.makedirs(os.path.dirname(path), exist_ok=True)
        if j in files and not overwrite:
            try:
                save_parameters(obj, path, **prep["save_kwargs"])
            except FileExistsError:
                seen.add("refused-overwrite")
                return
            check(False, f"{base}.overwrite_protection", lambda: f"{case['paths'][j]} exists, allow_overwrite=False: no FileExistsError")
        kwargs = dict(prep["save_kwargs"], allow_overwrite=True) if overwrite else prep["save_kwargs"]
        with expect_ok(f"{base}.overwrite.save" if j in files else f"{base}.fresh.save"):
            save_parameters(obj, path, **kwargs)
        check(os.path.isfile(path) and os.path.getsize(path) > 0, f"{base}.save", "no file written")
        former = set()
        if j in files:
            old = files[j]
            former = old["former"] | set(preps[old["set"]]["labels"])
            n_old, n_new = len(preps[old["set"]]["labels"]), len(prep["labels"])
            seen.add("overwrite-smaller" if n_new < n_old else "overwrite-larger" if n_new > n_old else "overwrite-same-size")
            if old["set"] == set_index:
                seen.add("overwrite-same-set")
        files[j] = {"set": set_index, "k": k, "former": former, "loads": 0}

    with tempfile.TemporaryDirectory(prefix="verif_c16_") as d:
        for step in case["steps"]:
            if step["op"] == "save":
                save(d, preps[step["set"]]["original"], step["set"], 1, step["path"], step["overwrite"])
            elif step["op"] == "load":
                j = step["path"]
                if j in files:
                    objects[j] = {"object": load(d, j), "set": files[j]["set"], "k": files[j]["k"]}
            elif step["op"] == "resave":
                if step["from"] in objects:
                    o = objects[step["from"]]
                    if step["from"] == step["path"]:
                        seen.add("resave-to-own-path")
                    save(d, o["object"], o["set"], o["k"] + 1, step["path"], step["overwrite"])
                    seen.add("resave-loaded-object")
            elif step["op"] == "refused_edit":
                # an edit of a loaded object that is refused (an expression that cannot be evaluated), then taken back: the object
                # is what it was and can be evaluated and saved again
                o = objects.get(step["from"])
                pars = [p for p in o["object"].all() if p.expression is not None] if o else []
                if pars:
                    par, before = pars[0], snapshot(o["object"])
                    old = par.expression
                    par.expression = "1 / ($no.such_label - 1)"
                    try:
                        o["object"].update_parameter_expression()
                    except Exception:  # noqa: BLE001
                        seen.add("refused-edit-then-repair")
                    par.expression = old
                    with expect_ok(f"{base}.reevaluation_after_refused_edit"):
                        o["object"].update_parameter_expression()
                    after = snapshot(o["object"])
                    check(exact_equal(before, after), f"{base}.changed_by_refused_edit", lambda: f"{before} -> {after}")
            else:
                raise AssertionError(f"generator: step {step}")
        # every file is decided at the end (also those that were never loaded in between)
        for j in sorted(files):
            load(d, j)

    tags = [fmt, f"paths:{len(case['paths'])}", *sorted(seen)]
    return {"nontrivial": bool(seen & {"load-after-overwrite"}), "tags": tags}


# ------------------------------------------------------------------------------------------
# specifications


def _deser(name: str) -> str:
    return {"min": "minimum", "max": "maximum", "non-negative": "non_negative", "expr": "expression", "standard-error": "standard_error"}.get(name, name)


def _value_of(v):
    if v is None:
        return math.nan
    if v["t"] == "sci":
        return float(v["v"])
    return float(v["v"])


def spec_model(case):
    """The harness' reading of a specification: ordered Parameter keyword arguments + expression trees."""
    out, trees = [], {}

    def walk_items(prefix, items):
        defaults = next((it["defaults"] for it in items if "defaults" in it), [])
        index = 0
        for it in items:
            if "defaults" in it:
                continue
            index += 1
            short = it["label"] if it["label"] is not None else str(index)
            full = f"{prefix}.{short}" if prefix else short
            kw = {"label": full, "value": _value_of(it["value"])}
            for name, val in list(defaults) + list(it["options"] or []):
                key = _deser(name)
                if key == "expression":
                    trees[full] = val["tree"]
                    kw[key] = G.render(val["tree"])
                else:
                    kw[key] = val
            out.append(kw)

    def walk(prefix, node):
        if "items" in node:
            walk_items(prefix, node["items"])
        else:
            for name, child in node["children"]:
                walk(f"{prefix}.{name}" if prefix else name, child)

    walk("", case["root"])
    return out, trees


def _py_value(v):
    if v["t"] == "sci":
        return v["v"]
    if v["t"] == "int":
        return int(v["v"])
    return float(v["v"])


def spec_python(case):
    """The specification as python list / dict (what ``from_list`` / ``from_dict`` receive)."""

    def item(it):
        if "defaults" in it:
            return {n: v for n, v in it["defaults"]}
        if it["bare"]:
            return _py_value(it["value"])
        out = []
        if it["label"] is not None:
            out.append(it["label"])
        if it["value"] is not None:
            out.append(_py_value(it["value"]))
        if it["options"] is not None:
            out.append({n: (G.render(v["tree"]) if isinstance(v, dict) else v) for n, v in it["options"]})
        return out

    def node(nd):
        if "items" in nd:
            return [item(it) for it in nd["items"]]
        return {name: node(child) for name, child in nd["children"]}

    return node(case["root"])


def _yml_scalar(v, style):
    if isinstance(v, bool):
        s = "true" if v else "false"
        return s.title() if style["bools"] == "title" else s
    if isinstance(v, int):
        return str(v)
    if isinstance(v, float):
        if math.isnan(v):
            return ".nan"
        if math.isinf(v):
            return ".inf" if v > 0 else "-.inf"
        return repr(v)
    return '"' + str(v) + '"'  # strings never contain quotes or backslashes here


def spec_yaml(case) -> str:
    """The specification as YAML text, written by the harness (not by pyglotaran)."""
    style = case["style"]

    def item(it):
        if "defaults" in it:
            return "{" + ", ".join(f"{n}: {_yml_scalar(v, style)}" for n, v in it["defaults"]) + "}"
        if it["bare"]:
            v = it["value"]
            return _yml_scalar(v["v"] if v["t"] == "sci" else _py_value(v), style)
        parts = []
        if it["label"] is not None:
            parts.append(_yml_scalar(it["label"], style))
        if it["value"] is not None:
            v = it["value"]
            parts.append(_yml_scalar(v["v"] if v["t"] == "sci" else _py_value(v), style))
        if it["options"] is not None:
            opts = [f"{n}: {_yml_scalar(G.render(v['tree']) if isinstance(v, dict) else v, style)}" for n, v in it["options"]]
            parts.append("{" + ", ".join(opts) + "}")
        return "[" + ", ".join(parts) + "]"

    def key(name):
        plain = name.replace("_", "a").isalpha() and name.lower() not in ("null", "true", "false", "none", "na", "nan", "yes", "no", "on", "off", "y", "n")
        return name if (plain and not style["quote_keys"]) else f'"{name}"'

    lines = []

    def items_block(items, indent):
        if style["flow"]:
            return " [" + ", ".join(item(it) for it in items) + "]", []
        return "", [" " * indent + "- " + item(it) for it in items]

    def node(nd, indent):
        for name, child in nd["children"]:
            if "items" in child:
                inline, block = items_block(child["items"], indent + 2)
                lines.append(" " * indent + key(name) + ":" + inline)
                lines.extend(block)
            else:
                lines.append(" " * indent + key(name) + ":")
                node(child, indent + 2)

    if case["kind"] == "list":
        inline, block = items_block(case["root"]["items"], 0)
        lines.extend([inline.strip()] if inline else block)
    else:
        node(case["root"], 0)
    return "\n".join(lines) + "\n"


def has_fragile_sci(case) -> bool:
    """Unlabelled item whose value is a scientific-notation *string* (list form, or bare in a flat list)."""
    found = []

    def walk(nd):
        if "items" in nd:
            for it in nd["items"]:
                if "defaults" not in it and it["label"] is None and it["value"] is not None and it["value"]["t"] == "sci":
                    if not it["bare"] or case["kind"] == "list":
                        found.append(it)
        else:
            for _, child in nd["children"]:
                walk(child)

    walk(case["root"])
    return bool(found)


def prop_spec(case):
    from glotaran.io import load_parameters
    from glotaran.parameter import Parameter
    from glotaran.parameter import Parameters

    sub = "spec_sci" if case.get("unlabelled_sci") else "spec"
    kwargs, trees = spec_model(case)
    labels = [kw["label"] for kw in kwargs]
    assert len(set(labels)) == len(labels), "generator: duplicate labels"
    programmatic = Parameters({kw["label"]: Parameter(**kw) for kw in kwargs})
    expected = snapshot(programmatic)
    # expected values of expression parameters are never taken from the programmatic object: ``compare`` recomputes
    # them with the harness evaluator from the loaded values (declaration order)
    fragile = has_fragile_sci(case)

    def clause(front, what):
        if fragile:
            return f"{sub}.{front}.autonumber_sci_string"
        return f"{sub}.{front}.{what}"

    fronts = []
    py = spec_python(case)
    given = copy.deepcopy(py)
    with expect_ok(clause("object", "load")):
        loaded = Parameters.from_list(given) if case["kind"] == "list" else Parameters.from_dict(given)
    fronts.append(("object", loaded))
    # the specification is the caller's: it is not changed by being read, so reading the same object again gives the same set
    check(given == py, f"{sub}.object.specification_changed_by_loading", lambda: f"{py!r} -> {given!r}")
    with expect_ok(clause("object_again", "load")):
        loaded = Parameters.from_list(given) if case["kind"] == "list" else Parameters.from_dict(given)
    fronts.append(("object_again", loaded))
    text = spec_yaml(case)
    mangled = "//" in text
    yml_front = "yml_str_floordiv" if mangled else "yml_str"
    with expect_ok(clause(yml_front, "load")):
        loaded = load_parameters(text, format_name="yml_str")
    fronts.append((yml_front, loaded))
    if case["style"].get("yml_file"):
        with tempfile.TemporaryDirectory(prefix="verif_c16_") as d:
            path = os.path.join(d, "parameters.yml")
            with open(path, "w", encoding="utf8") as f:
                f.write(text)
            with expect_ok(clause("yml_file", "load")):
                loaded = load_parameters(path)
        fronts.append(("yml_file", loaded))

    for front, loaded in fronts:
        pfx = f"{sub}.{front}"
        if fragile:
            got = snapshot(loaded)
            check([g["label"] for g in got] == labels, f"{pfx}.autonumber_sci_string", lambda: f"labels {[g['label'] for g in got]} expected {labels}")
        got = compare(pfx, expected, trees, loaded, 1, 0.0, False, False)
        with expect_ok(f"{pfx}.eq_call"):
            eq = loaded == programmatic
        check(bool(eq) == exact_equal(expected, got), f"{pfx}.eq_consistent", lambda: f"== is {eq}")

    tags = [case["kind"], "flow" if case["style"]["flow"] else "block"]
    flat = []

    def walk(nd, depth):
        if "items" in nd:
            for it in nd["items"]:
                flat.append((it, depth))
        else:
            for _, child in nd["children"]:
                walk(child, depth + 1)

    walk(case["root"], 0)
    has_defaults = any("defaults" in it for it, _ in flat)
    auto = any("defaults" not in it and it["label"] is None for it, _ in flat)
    sci = any("defaults" not in it and it["value"] is not None and it["value"]["t"] == "sci" for it, _ in flat)
    nested = any(d >= 2 for _, d in flat)
    for cond, tag in ((has_defaults, "default-block"), (auto, "automatic-numbering"), (sci, "scientific-string"), (nested, "nested-groups"),
                      (bool(trees), "expression"), (fragile, "unlabelled-sci-string"), (mangled, "floordiv-in-yml-text"),
                      (case["style"].get("yml_file"), "yml-file")):
        if cond:
            tags.append(tag)
    return {"nontrivial": bool(has_defaults or auto or sci or nested or trees), "tags": tags}


# ------------------------------------------------------------------------------------------
# optional engine: atheris through hypothesis.fuzz_one_input (thorough tier, bounded)


def fuzz_custom(tier: str, seed: int) -> ShardResult:
    import json
    import subprocess
    import sys

    res = ShardResult()
    if tier != "thorough":
        res.extra["note"] = "atheris engine runs in the thorough tier only"
        return res
    runs = int(os.environ.get("VERIF_C16_FUZZ_RUNS", "15000"))
    with tempfile.TemporaryDirectory(prefix="verif_c16_fuzz_") as d:
        out = os.path.join(d, "out.json")
        proc = subprocess.run([sys.executable, "-m", "vlib.props.c16", "--fuzz", str(runs), str(seed), out], capture_output=True, text=True, timeout=3600, check=False)
        if not os.path.exists(out):
            res.extra["note"] = "atheris unavailable or fuzz driver did not finish: " + (proc.stderr or proc.stdout)[-300:]
            return res
        data = json.loads(open(out).read())
    res.evaluations = data["evaluations"]
    res.extra["note"] = data["note"]
    res.tags.update({"atheris": data["evaluations"]})
    for f in data["failures"]:
        res.failures.append(f)
        res.failure_counts[f["clause"]] += 1
    return res


def _fuzz_main(runs: int, seed: int, out: str):  # pragma: no cover - separate process
    import json
    import sys

    from hypothesis import HealthCheck
    from hypothesis import given
    from hypothesis import settings
    from hypothesis import strategies as st

    from vlib.core import Discard
    from vlib.core import Violation
    from vlib.core import to_jsonable

    state = {"evaluations": 0, "failures": [], "note": ""}

    def dump():
        with open(out, "w") as f:
            json.dump(state, f)

    try:
        import atheris
    except Exception as e:  # noqa: BLE001
        state["note"] = f"atheris unavailable: {e!r}"
        dump()
        return
    with atheris.instrument_imports(include=["glotaran.parameter", "glotaran.builtin.io.pandas", "glotaran.utils"]):
        import glotaran.builtin.io.pandas.csv  # noqa: F401
        import glotaran.parameter.parameters  # noqa: F401
        import glotaran.utils.io  # noqa: F401
        import glotaran.utils.sanitize  # noqa: F401

    strategy = st.one_of(G.parameter_sets("csv"), G.parameter_sets("tsv"), G.specifications())
    seen = set()

    @settings(database=None, deadline=None, suppress_health_check=list(HealthCheck))
    @given(strategy)
    def test(case):
        state["evaluations"] += 1
        if state["evaluations"] % 50 == 0:
            dump()  # libFuzzer leaves through os._exit: keep the result file current
        fn = prop_spec if "root" in case else prop_roundtrip
        try:
            fn(case)
        except Discard:
            pass
        except Violation as v:
            if v.clause not in seen and len(seen) < 20:
                seen.add(v.clause)
                state["failures"].append({"sub": "spec" if "root" in case else case["fmt"], "clause": v.clause, "message": v.message[:1000], "case": to_jsonable(case)})
                dump()

    state["note"] = f"atheris via hypothesis.fuzz_one_input, -runs={runs} (evaluations = inputs that decoded to a complete case)"
    dump()
    atheris.Setup([sys.argv[0], f"-runs={runs}", f"-seed={seed % 2**31}", "-max_len=4096", "-len_control=0"], test.hypothesis.fuzz_one_input)
    atheris.Fuzz()


# ------------------------------------------------------------------------------------------
# oracle self-check


def selfcheck():
    from glotaran.parameter.parameter import RESERVED_LABELS

    pool = set(G.WORDS + G.NA_WORDS + G.DIGITS + G.SCI_LOOKING + G.FLAT_NUMERIC + G.BOOL_LIKE + G.SPEC_LABELS)
    bad = pool & set(RESERVED_LABELS)
    assert not bad, f"label pool contains reserved labels {bad}"
    # evaluator and renderer on a hand-computed instance
    tree = {"op": "+", "args": [{"fn": "max", "args": [{"ref": "a.1"}, {"lit": "3"}]}, {"fn": "sqrtabs", "args": [{"op": "-", "args": [{"ref": "1.10"}, {"lit": "10.5"}]}]}]}
    assert G.render(tree) == "max($a.1, 3) + sqrt(abs($1.10 - 10.5))", G.render(tree)
    assert G.evaluate(tree, {"a.1": 2.0, "1.10": 1.5}) == 3.0 + 3.0
    tree = {"op": "//", "args": [{"op": "*", "args": [{"lit": "7"}, {"ref": "k"}]}, {"lit": "2"}]}
    assert G.render(tree) == "(7 * $k) // 2" and G.evaluate(tree, {"k": 1.5}) == 5.0
    # comparator
    assert close(1.0, 1.0 + 5e-14) and not close(1.0, 1.0 + 2e-13) and close(1.0, 1.0 + 2.5e-13, k=3)
    assert close(math.nan, math.nan) and not close(math.nan, 1.0) and close(math.inf, math.inf) and not close(math.inf, 1e308) and not close(-math.inf, math.inf)
    assert not close("1", 1.0) and not close(True, 1.0) and close(0, -0.0) and close(5e-324, 1e-323)
    assert numeric_looking("1.10") and numeric_looking("007") and numeric_looking("1e5") and numeric_looking("TRUE") and not numeric_looking("a.1") and not numeric_looking("1.10.2")
    # model / yaml writer on a hand-written specification
    case = {"kind": "dict", "unlabelled_sci": False, "style": {"flow": False, "bools": "title", "quote_keys": False, "yml_file": False},
            "root": {"children": [["a", {"items": [{"label": "foo", "value": {"t": "int", "v": 1}, "options": [["non-negative", True], ["min", -1], ["vary", False]], "bare": False},
                                                    {"label": None, "value": {"t": "sci", "v": "1e-3"}, "options": None, "bare": True},
                                                    {"defaults": [["vary", False], ["max", 8]]}]}],
                                   ["1", {"children": [["10", {"items": [{"label": "x", "value": None, "options": [["expr", {"tree": {"op": "*", "args": [{"ref": "a.2"}, {"lit": "2"}]}}]], "bare": False}]}]]}]]}}
    kwargs, trees = spec_model(case)
    assert kwargs == [
        {"label": "a.foo", "value": 1.0, "vary": False, "maximum": 8, "non_negative": True, "minimum": -1},
        {"label": "a.2", "value": 0.001, "vary": False, "maximum": 8},
        {"label": "1.10.x", "value": kwargs[2]["value"], "expression": "$a.2 * 2"},
    ] and math.isnan(kwargs[2]["value"]), kwargs
    assert spec_python(case) == {"a": [["foo", 1, {"non-negative": True, "min": -1, "vary": False}], "1e-3", {"vary": False, "max": 8}], "1": {"10": [["x", {"expr": "$a.2 * 2"}]]}}
    assert spec_yaml(case) == 'a:\n  - ["foo", 1, {non-negative: True, min: -1, vary: False}]\n  - "1e-3"\n  - {vary: False, max: 8}\n"1":\n  "10":\n    - ["x", {expr: "$a.2 * 2"}]\n', spec_yaml(case)


PROPERTY = Property(
    id="C16",
    level="exploration",
    rule=(
        "Hypothesis-generated valid parameter sets (1..10 parameters; label columns that are all flat numeric-looking "
        "('1','10','007','1e5','Infinity'), all 'digits.digits' ('1.10'), boolean-looking, words, nested 1-2 levels, or mixed; values over the "
        "finite double range incl. subnormals, DBL_MAX (|x| <= 1e300 for xlsx/ods), decimals with leading zeros; standard-error / minimum / maximum / "
        "vary / non-negative columns each all-default, all-set or mixed; expressions as trees over + - * / // abs sqrt min max referencing "
        "other groups, or purely numeric literals; optionally values changed after construction so that the file holds outdated expression values; "
        "csv with separators , ; tab |, with and without infinity replacement; 3 save-load cycles), histories of 2-7 save / load / re-save steps "
        "of 2-3 such sets (independent, reduced, edited) over 1-3 paths of one directory (overwriting existing files with smaller / larger / equally sized tables "
        "and other save options, refused overwrites, repeated loads, re-saving a loaded object to another or to its own path) and generated list / nested-dict "
        "specifications (default blocks, automatic numbering, scientific-notation strings, option names in both spellings, expressions) rendered "
        "as python objects, YAML text (yml_str) and .yml files. A case is non-trivial if it has at least one of: numeric-looking label part, "
        "nested label, entirely empty column, expression, non-default flag (round trips) / default block, automatic numbering, "
        "scientific-notation string, nested groups, expression (specifications); a file that replaced an existing file was loaded (histories); "
        "distinct = distinct case digest."
    ),
    subs=[
        Sub("csv", prop=prop_roundtrip, strategy=lambda: G.parameter_sets("csv"), budget={"quick": 1200, "thorough": 60000}),
        Sub("tsv", prop=prop_roundtrip, strategy=lambda: G.parameter_sets("tsv"), budget={"quick": 800, "thorough": 40000}),
        Sub("xlsx", prop=prop_roundtrip, strategy=lambda: G.parameter_sets("xlsx"), budget={"quick": 400, "thorough": 40000}),
        Sub("ods", prop=prop_roundtrip, strategy=lambda: G.parameter_sets("ods"), budget={"quick": 400, "thorough": 40000}),
        Sub("history", prop=prop_history, strategy=lambda: G.histories(), budget={"quick": 320, "thorough": 30000},
            doc="2-3 sets saved to / loaded from 1-3 paths of one directory in 2-7 steps (overwriting with smaller / larger / edited sets, refused "
                "overwrites, second loads, re-saving loaded objects, also to their own path); every path must load as the set last saved to it"),
        Sub("spec", prop=prop_spec, strategy=lambda: G.specifications(False), budget={"quick": 2400, "thorough": 200000},
            doc="list / dict / yml specifications vs programmatic construction"),
        Sub("spec_sci", prop=prop_spec, strategy=lambda: G.specifications(True), budget={"quick": 600, "thorough": 40000},
            doc="as spec, plus scientific-notation strings as values of unlabelled items (automatic numbering)"),
        *(
            [Sub("na_label", prop=prop_roundtrip, strategy=lambda: G.parameter_sets(None, na_labels=True), budget={"quick": 160, "thorough": 4000},
                 doc="a flat label equal to a whole-cell missing-value token of pandas (known-finding candidate D16e)")]
            if os.environ.get("VERIF_C16_NA_LABELS", "1") == "1"
            else []
        ),
        Sub("fuzz", custom=fuzz_custom, doc="atheris through hypothesis.fuzz_one_input on the csv/tsv/spec strategies (thorough only)"),
    ],
    assumptions=[
        "reference for round trips: the attributes of the programmatically built Parameters read before saving; for specifications: Parameter(...) objects "
        "built from the harness' own reading of the specification; expression values recomputed by the harness' tree evaluator (IEEE double, same operation order)",
        f"floats after a file round trip: |a-b| <= k*{RTOL}*max(|a|,|b|) + k*{ATOL} after k cycles, NaN = NaN, +-inf exact; specifications: exact; "
        f"expression values vs harness evaluator: rtol {EXPR_RTOL}",
        "xlsx / ods: |x| <= 1e300 (the third-party Excel reader overflows at DBL_MAX); flat labels equal to a missing-value token of pandas "
        "('NA', 'null', 'none', 'NaN') are not generated as whole labels (only as parts of nested labels); expressions reference only parameters "
        "without expression or expression parameters declared earlier (independent of the evaluation-order finding of C12); integer YAML keys are not generated (keys are quoted)",
        "histories: reference model 'a path holds the set last saved to it' (a refused save - FileExistsError without allow_overwrite, as documented - leaves the "
        "file as it was); tolerance k*RTOL where k counts the save-load generations of the object that was saved; steps that do not apply are skipped",
        "Parameters.__eq__ is checked for agreement with an exact attribute-wise comparison (label set, NaN = NaN), not used as the oracle",
    ],
    selfcheck=selfcheck,
)


if __name__ == "__main__":  # pragma: no cover
    import sys

    if len(sys.argv) >= 5 and sys.argv[1] == "--fuzz":
        _fuzz_main(int(sys.argv[2]), int(sys.argv[3]), sys.argv[4])
