"""C01 - the linear sub-problem is solved optimally (variable projection and NNLS).

Oracle: optimality *certificates* computed per instance, independent of LAPACK's QR path used
by the code under test (SVD least squares; exhaustive active-set enumeration for NNLS).
"""

from __future__ import annotations

import itertools

import numpy as np
from hypothesis import strategies as st

from vlib.core import Discard
from vlib.core import Property
from vlib.core import Sub
from vlib.core import check
from vlib.core import expect_ok

EPS = np.finfo(float).eps

FAMILIES = ["gauss", "spectrum", "kinetic", "kinetic_sum", "oscillation", "scaled_cols"]
DATA_KINDS = ["in_span", "orthogonal", "generic", "nonneg_mix", "nonneg_mix_noise"]
LAYOUTS = ["C", "F", "strided", "weighted_T"]


@st.composite
def instances(draw, fn="vp"):
    n = draw(st.integers(1, 8))
    m = draw(st.one_of(st.integers(n, n + 3), st.integers(n, 60), st.integers(n, 300)))
    fam = draw(st.sampled_from(FAMILIES))
    case = {
        "fn": fn,
        "m": m,
        "n": n,
        "family": fam,
        "seed": draw(st.integers(0, 2**32 - 1)),
        "log10_cond": draw(st.floats(0, 10)),
        "rate_spacing": draw(st.sampled_from([1e-4, 1e-3, 1e-2, 0.1, 0.3, 1.0])),
        "axis": draw(st.sampled_from(["uniform", "log", "irregular"])),
        "col_scale_decades": draw(st.sampled_from([0, 0, 2, 6])),
        "data_kind": draw(st.sampled_from(DATA_KINDS)),
        "log10_data_scale": draw(st.sampled_from([0, 0, 0, -100, -30, -8, 8, 30, 100])),
        "layout": draw(st.sampled_from(LAYOUTS)),
        # the data vector as measured: double / single precision / integer counts
        "data_dtype": draw(st.sampled_from(["float64", "float64", "float64", "float32", "int64"])),
    }
    if fn == "nnls" and draw(st.booleans()):
        # half of the NNLS instances are forced into the region where the pinned scipy nnls is reliable
        case["log10_cond"] = draw(st.floats(0, 3.9))
        if fam in ("kinetic", "kinetic_sum", "oscillation"):
            case["rate_spacing"] = draw(st.sampled_from([0.3, 1.0]))
            case["n"] = min(case["n"], 3)
            case["m"] = max(case["m"], case["n"])
    return case


def build(case):
    rng = np.random.default_rng(case["seed"])
    m, n = case["m"], case["n"]
    fam = case["family"]
    if case["axis"] == "uniform":
        t = np.linspace(0, 10, m)
    elif case["axis"] == "log":
        t = np.concatenate([[0.0], np.logspace(-2, 1.3, m - 1)]) if m > 1 else np.array([0.0])
    else:
        t = np.sort(rng.uniform(0, 10, m))
    if fam == "gauss":
        A = rng.standard_normal((m, n))
    elif fam == "spectrum":
        U, _ = np.linalg.qr(rng.standard_normal((m, n)))
        V, _ = np.linalg.qr(rng.standard_normal((n, n)))
        s = np.logspace(0, -case["log10_cond"], n) if n > 1 else np.ones(1)
        A = (U * s) @ V.T
    elif fam in ("kinetic", "kinetic_sum"):
        k0 = 10 ** rng.uniform(-1, 0.5)
        rates = k0 * (1 + case["rate_spacing"]) ** np.arange(n)
        A = np.exp(-np.outer(t, rates))
        if fam == "kinetic_sum":
            mix = rng.uniform(-1, 1, (n, n)) + np.eye(n) * 2
            A = A @ mix
    elif fam == "oscillation":
        cols = []
        for j in range(n):
            w = 0.5 + j // 2 * (0.3 + case["rate_spacing"])
            g = 0.1 + 0.05 * j
            cols.append(np.exp(-g * t) * (np.cos(w * t) if j % 2 == 0 else np.sin(w * t + 0.3)))
        A = np.array(cols).T
    elif fam == "scaled_cols":
        A = rng.standard_normal((m, n))
    else:
        raise ValueError(fam)
    d = case["col_scale_decades"]
    if d:
        A = A * 10 ** rng.uniform(-d, d, n)
    # data
    kind = case["data_kind"]
    if kind == "in_span":
        y = A @ rng.standard_normal(n)
    elif kind == "orthogonal":
        g = rng.standard_normal(m)
        y = g - A @ np.linalg.lstsq(A, g, rcond=None)[0]
    elif kind == "generic":
        y = rng.standard_normal(m)
    elif kind == "nonneg_mix":
        c = rng.uniform(0, 1, n) * (rng.uniform(0, 1, n) > 0.4)
        y = A @ c
    else:
        c = rng.uniform(0, 1, n) * (rng.uniform(0, 1, n) > 0.4)
        y = A @ c
        y = y + 0.05 * np.linalg.norm(y) / np.sqrt(m) * rng.standard_normal(m)
    y = y * 10.0 ** case["log10_data_scale"]
    lay = case["layout"]
    if lay == "F":
        A = np.asfortranarray(A)
    elif lay == "strided":
        big = np.zeros((m, 2 * n))
        big[:, ::2] = A
        A = big[:, ::2]
    elif lay == "weighted_T":
        w = rng.uniform(0.5, 2, m)
        A = (A.T * w).T
        y = y * w
    else:
        A = np.ascontiguousarray(A)
    y = np.ascontiguousarray(y)
    dt = case.get("data_dtype", "float64")
    if dt == "float32" and np.all(np.abs(y) < 1e30) and (np.all(y == 0) or np.abs(y[y != 0]).min() > 1e-30):
        y = y.astype(np.float32)
    elif dt == "int64" and 0 < np.abs(y).max() < 1e300:
        y = np.round(y / np.abs(y).max() * 1000.0).astype(np.int64)
    return A, y


def in_reliable_region(A, y, params=None):
    """Region in which the pinned scipy nnls was measured to be reliable (see known finding N1)."""
    params = params or {}
    sv = np.linalg.svd(A, compute_uv=False)
    if sv[-1] == 0 or sv[0] / sv[-1] >= params.get("cond", 1e4):
        return False
    lo, hi = params.get("norm_lo", 0.0), params.get("norm_hi", 1e308)
    cn = np.linalg.norm(A, axis=0)
    ny = np.linalg.norm(y)
    return bool(cn.min() >= lo and cn.max() <= hi and (ny == 0 or lo <= ny <= hi))


def exact_nnls(A, y):
    """Exact NNLS optimum by enumerating all active sets (n <= 8)."""
    m, n = A.shape
    best = (np.linalg.norm(y), np.zeros(n))
    for r in range(1, n + 1):
        for S in itertools.combinations(range(n), r):
            x, *_ = np.linalg.lstsq(A[:, S], y, rcond=None)
            if np.all(x >= 0):
                res = np.linalg.norm(y - A[:, S] @ x)
                if res < best[0]:
                    full = np.zeros(n)
                    full[list(S)] = x
                    best = (res, full)
    return best


_FIRST_CALL_IN_PROCESS = [True]


def prop(case):
    from glotaran.optimization.nnls import residual_nnls
    from glotaran.optimization.variable_projection import residual_variable_projection

    A, y_given = build(case)
    if _FIRST_CALL_IN_PROCESS[0]:
        # the very first call of the process is a single precision "preview" (matrix and data float32): what is set up on first use
        # must not decide how later double precision problems are solved
        _FIRST_CALL_IN_PROCESS[0] = False
        try:
            fn_ = residual_variable_projection if case["fn"] == "vp" else residual_nnls
            fn_(np.asarray(A, dtype=np.float32), np.asarray(y_given, dtype=np.float32))
            residual_variable_projection(np.asarray(A, dtype=np.float32), np.asarray(y_given, dtype=np.float32))
        except Exception:  # noqa: BLE001
            pass
    out = _verify(case, A, y_given, "")
    if A.flags.writeable and y_given.flags.writeable and y_given.dtype == np.float64 and A.shape[0] >= 2:
        # the same array objects again, refilled in place (a preallocated buffer while scanning a parameter): the answer is for the
        # content, not for the object
        A[...] = A[::-1].copy()
        y_given[...] = np.roll(y_given, 1)
        try:
            _verify(case, A, y_given, ":same_arrays_refilled")
            out["tags"].append("same_arrays_refilled")
        except Discard:
            pass
    return out


def _verify(case, A, y_given, sfx):
    from glotaran.optimization.nnls import residual_nnls
    from glotaran.optimization.variable_projection import residual_variable_projection

    y = y_given.astype(np.float64)  # the numbers the data hold
    m, n = A.shape
    if not (np.all(np.isfinite(A)) and np.all(np.isfinite(y))):
        raise Discard("non-finite instance")
    if case["data_kind"] == "orthogonal" and m == n:
        raise Discard("orthogonal data of a square system is rounding noise")
    if y_given.dtype != np.float64 and case["data_kind"] in ("in_span", "orthogonal", "nonneg_mix"):
        raise Discard("rounded data are no longer in the span / orthogonal to it")
    sv = np.linalg.svd(A, compute_uv=False)
    if sv[-1] == 0 or sv[0] / sv[-1] > 1e10:
        raise Discard("cond>1e10")
    cond = sv[0] / sv[-1]
    normA = sv[0]
    A0, y0 = A.copy(), y_given.copy()
    tags = [f"cond1e{int(np.log10(cond))}", case["family"], case["data_kind"], case["fn"]] + ([f"data_{y_given.dtype}"] if y_given.dtype != np.float64 else [])
    if case["fn"] == "vp":
        with expect_ok("vp.call" + sfx):
            clp, r = residual_variable_projection(A, y_given)
        clp, r = np.asarray(clp), np.asarray(r)
        check(np.array_equal(A, A0) and np.array_equal(y_given, y0) and y_given.dtype == y0.dtype, "vp.inputs_unchanged")
        check(not np.shares_memory(r, y_given) and not np.shares_memory(r, A) and not np.shares_memory(clp, A) and clp.dtype == np.float64 and r.dtype == np.float64,
              "vp.result_aliases_input_or_not_double" + sfx, lambda: f"dtypes {clp.dtype} {r.dtype}")
        check(clp.shape == (n,) and r.shape == (m,), "vp.shape" + sfx, f"{clp.shape} {r.shape}")
        check(np.all(np.isfinite(clp)) and np.all(np.isfinite(r)), "vp.finite" + sfx)
        beta = EPS * (normA * np.linalg.norm(clp) + np.linalg.norm(y))
        g = np.linalg.norm(A.T @ r)
        check(g <= 1e3 * normA * beta, "vp.orthogonal" + sfx, lambda: f"|A^T r|={g:.3e} bound={1e3*normA*beta:.3e} cond={cond:.2e}")
        d = np.linalg.norm(r - (y - A @ clp))
        check(d <= 1e3 * beta, "vp.residual_identity" + sfx, lambda: f"|r-(y-A clp)|={d:.3e} bound={1e3*beta:.3e} cond={cond:.2e}")
        xr_, *_ = np.linalg.lstsq(A, y, rcond=None)
        rr = np.linalg.norm(y - A @ xr_)
        check(np.linalg.norm(r) <= rr + 1e3 * beta, "vp.minimal" + sfx, lambda: f"|r|={np.linalg.norm(r):.6e} ref={rr:.6e}")
        return {"nontrivial": cond >= 1e3, "tags": tags}
    # NNLS
    with expect_ok("nnls.call" + sfx):
        clp, r = residual_nnls(A, y_given)
    clp, r = np.asarray(clp), np.asarray(r)
    check(np.array_equal(A, A0) and np.array_equal(y_given, y0), "nnls.inputs_unchanged")
    check(not np.shares_memory(r, y_given) and not np.shares_memory(r, A) and not np.shares_memory(clp, A), "nnls.result_aliases_input" + sfx,
          "the returned residual / clp is a view of the caller's data or matrix")
    check(clp.shape == (n,) and r.shape == (m,), "nnls.shape" + sfx)
    check(np.all(clp >= 0), "nnls.nonneg" + sfx, lambda: f"min clp {clp.min()}")
    beta = EPS * (normA * np.linalg.norm(clp) + np.linalg.norm(y))
    d = np.linalg.norm(r - (y - A @ clp))
    check(d <= 10 * beta + 1e-300, "nnls.residual_identity" + sfx, lambda: f"{d:.3e} > {10*beta:.3e}")
    check(np.linalg.norm(r) <= np.linalg.norm(y) * (1 + 1e-12), "nnls.not_worse_than_zero" + sfx, lambda: f"|r|={np.linalg.norm(r):.6e} |y|={np.linalg.norm(y):.6e}")
    w = A.T @ r
    tau = 1e4 * normA * beta
    # witness oracle (sound: a feasible point with smaller residual proves non-optimality)
    res_w, x_w = exact_nnls(A, y)
    gap = np.linalg.norm(r) - res_w
    check(gap <= 1e4 * beta, "nnls.optimal_witness" + sfx, lambda: f"|r|={np.linalg.norm(r):.9e} witness={res_w:.9e} gap={gap:.3e} bound={1e4*beta:.3e} cond={cond:.2e} scale=1e{case['log10_data_scale']}")
    # KKT (dual feasibility on the gradient scale of the residual)
    kkt_tol = tau
    check(w.max() <= kkt_tol + 1e-300, "nnls.kkt_dual" + sfx, lambda: f"max A^T r = {w.max():.3e} > {kkt_tol:.3e} cond={cond:.2e}")
    supp = clp > 0
    if supp.any():
        check(np.abs(w[supp]).max() <= kkt_tol + 1e-300, "nnls.kkt_stationary" + sfx, lambda: f"{np.abs(w[supp]).max():.3e} > {kkt_tol:.3e} cond={cond:.2e}")
    ns = int((x_w > 0).sum())
    interesting = 0 < ns < n
    tags.append("active_set_partial" if interesting else "active_set_trivial")
    tags.append("nnls_reliable_region" if in_reliable_region(A, y) else "nnls_unreliable_region")
    return {"nontrivial": bool(cond >= 1e3 or interesting), "tags": tags}


def dispatch_cases(tier):
    out = []
    for fn in ("variable_projection", "non_negative_least_squares"):
        for n in (1, 2, 3):
            for m in (2 * n + 3, 2 * n + 12):
                for seed in range(8 if tier == "quick" else 40):
                    out.append({"residual_function": fn, "n": n, "m": m, "seed": seed, "sign": 1 if seed % 3 else -1})
    return out


def prop_dispatch(case):
    """Result.data[label].clp/.residual of a one-index dataset equal the selected kernel's output."""
    import xarray as xr

    from glotaran.optimization.nnls import residual_nnls
    from glotaran.optimization.optimize import optimize
    from glotaran.optimization.variable_projection import residual_variable_projection
    from glotaran.project import Scheme
    from vlib import testmc

    rng = np.random.default_rng(case["seed"])
    n, m = case["n"], case["m"]
    t = np.linspace(0, 5, m)
    rates = [0.3 * 2.1**j for j in range(n)]
    spec = {
        "dataset_groups": {"default": {"residual_function": case["residual_function"], "link_clp": False}},
        "megacomplex": {"m": {"type": "verif-table", "labels": [f"s{j}" for j in range(n)], "rates": [f"r.{j+1}" for j in range(n)], "shape": "exp"}},
        "dataset": {"d": {"megacomplex": ["m"]}},
    }
    # a dataset scale (the linear problem is data ~ scale * matrix * clp), on the unlinked path the existing tests never scale
    scale = [1.0, 2.5, 0.4][case["seed"] % 3]
    pdict = {"r": rates}
    if scale != 1.0:
        spec["dataset"]["d"]["scale"] = "sc.1"
        pdict["sc"] = [[scale, {"vary": False}]]
    model, params = testmc.make_model(spec, pdict)
    # several global indices with a weight that differs from index to index: each index is its own linear problem
    ng = 1 + case["seed"] % 3
    gax = [1.0, 2.5, 4.0][:ng]
    Y = case.get("sign", 1) * (rng.standard_normal((m, ng)) + 2)
    W = rng.uniform(0.5, 2.0, (m, ng)) if case["seed"] % 2 else None
    ds = xr.DataArray(Y, coords=[("model", t), ("global", gax)]).to_dataset(name="data")
    if W is not None:
        ds["weight"] = (("model", "global"), W)
    scheme = Scheme(model, params, {"d": ds}, maximum_number_function_evaluations=1)
    with expect_ok("dispatch.optimize"):
        res = optimize(scheme, verbose=False, raise_exception=True)
    A = scale * np.exp(-np.outer(t, rates))
    fn = residual_variable_projection if case["residual_function"] == "variable_projection" else residual_nnls
    differs = False
    for gi, g in enumerate(gax):
        w = W[:, gi] if W is not None else np.ones(m)
        y = Y[:, gi]
        clp, r = fn((A.T * w).T, y * w)
        got_clp = res.data["d"].clp.sel({"global": g}).values
        name = "weighted_residual" if W is not None else "residual"
        got_r = res.data["d"][name].sel({"global": g}).values
        sc = np.abs(y).max()
        check(np.allclose(got_clp, clp, rtol=1e-9, atol=1e-9 * sc), "dispatch.clp", lambda: f"index {gi}: {got_clp} vs {clp}")
        check(np.allclose(got_r, r, rtol=0, atol=1e-9 * sc), "dispatch.residual", lambda: f"index {gi}")
        if case["residual_function"] == "non_negative_least_squares":
            check(np.all(got_clp >= 0), "dispatch.nnls_nonneg")
            ref_vp, _ = residual_variable_projection((A.T * w).T, y * w)
            differs = differs or bool(np.any(np.asarray(ref_vp)[:n] < -1e-9))
    return {"nontrivial": bool(n > 1), "tags": [case["residual_function"], "nnls_differs_from_vp" if differs else "same"]}


def dispatch_fault_cases(tier):
    out = []
    for rf in ("variable_projection", "non_negative_least_squares"):
        for k in range(3, 13 if tier == "quick" else 25):
            for seed in range(2 if tier == "quick" else 8):
                for method in ("TrustRegionReflection", "Levenberg-Marquardt"):
                    out.append({"residual_function": rf, "k": k, "seed": seed, "method": method})
    return out


def prop_dispatch_fault(case):
    """The clps and residuals of a Result that optimize() returns after the model raised at some evaluation (contained) are
    still the solution of the linear problem for the matrix that Result reports: residual = data - matrix clp, orthogonal to
    the columns (VP) / KKT (NNLS), at every index of every dataset."""
    import warnings

    import xarray as xr

    from glotaran.optimization.optimize import optimize
    from glotaran.project import Scheme
    from vlib import testmc

    rng = np.random.default_rng(100 + case["seed"])
    n, m = 2, 12
    t = np.linspace(0, 5, m)
    spec = {
        "dataset_groups": {"default": {"residual_function": case["residual_function"], "link_clp": False}},
        "megacomplex": {"m": {"type": "verif-table", "labels": ["s0", "s1"], "rates": ["r.1", "r.2"], "shape": "exp", "fault": True}},
        "dataset": {"d1": {"megacomplex": ["m"]}, "d2": {"megacomplex": ["m"]}},
    }
    model, params = testmc.make_model(spec, {"r": [0.3, 1.1]})
    data = {}
    for lab, gax in (("d1", [1.0, 2.5]), ("d2", [2.5, 4.0, 5.0])):
        Y = rng.standard_normal((m, len(gax))) + 2
        data[lab] = xr.DataArray(Y, coords=[("model", t), ("global", gax)]).to_dataset(name="data")
    scheme = Scheme(model, params, data, maximum_number_function_evaluations=3, optimization_method=case["method"])
    testmc.reset_fault({"kind": "raise_at", "k": case["k"]})
    try:
        with warnings.catch_warnings():
            warnings.simplefilter("ignore")
            try:
                res = optimize(scheme, verbose=False, raise_exception=False)
            except Exception as e:  # noqa: BLE001  (whether the failure is contained is C15's subject)
                raise Discard(f"optimize raised {type(e).__name__}") from None
        fired = any(not e["ok"] for e in testmc.FAULT["log"])
    finally:
        testmc.reset_fault(None)
    nnls = case["residual_function"] == "non_negative_least_squares"
    for lab in ("d1", "d2"):
        ds = res.data[lab]
        A = ds.matrix.transpose("model", "clp_label").values
        for g in ds.coords["global"].values:
            y = ds.data.sel({"global": g}).transpose("model").values
            c = ds.clp.sel({"global": g}).values
            r = ds.residual.sel({"global": g}).values
            sc = np.abs(y).max()
            check(np.abs(y - A @ c - r).max() <= 1e-9 * sc, "dispatch_fault.residual_identity", lambda: f"{lab}@{g}: |data - matrix clp - residual| = {np.abs(y - A @ c - r).max():.3e}")
            grad = A.T @ r
            if nnls:
                check(bool(np.all(c >= 0)), "dispatch_fault.nnls_nonneg", lambda: f"{lab}@{g}: {c}")
                ok = all((abs(gj) <= 1e-7 * sc * np.linalg.norm(A[:, j])) if cj > 0 else (gj <= 1e-7 * sc * np.linalg.norm(A[:, j])) for j, (cj, gj) in enumerate(zip(c, grad)))
                check(ok, "dispatch_fault.nnls_kkt", lambda: f"{lab}@{g}: clp {c} gradient {grad}")
            else:
                check(np.abs(grad).max() <= 1e-9 * sc * np.linalg.norm(A), "dispatch_fault.orthogonal", lambda: f"{lab}@{g}: |matrix^T residual| = {np.abs(grad).max():.3e}")
    return {"nontrivial": bool(fired), "tags": [case["residual_function"], case["method"], "fault_fired" if fired else "fault_not_reached", f"success={res.success}"]}


PROPERTY = Property(
    id="C01",
    level="exploration",
    rule=(
        "Hypothesis-generated m x n instances (n 1..8, m n..300; gaussian / prescribed singular spectrum / "
        "kinetic exponentials with relative rate spacing 1e-4..1 / mixtures / damped oscillations / column "
        "scalings over 12 decades; data in-span, orthogonal, generic, non-negative mixtures, scale 1e-100..1e100; "
        "C, F, strided and (M.T*w).T layouts), cond measured by SVD (discarded above 1e10). A case is non-trivial "
        "if cond(A) >= 1e3 or (NNLS) the exact optimal active set is neither empty nor full; distinct = distinct case digest."
    ),
    subs=[
        Sub("vp", prop=prop, strategy=lambda: instances("vp"), budget={"quick": 2500, "thorough": 250000}),
        Sub("nnls", prop=prop, strategy=lambda: instances("nnls"), budget={"quick": 1500, "thorough": 150000}),
        Sub("dispatch", prop=prop_dispatch, enumerate=dispatch_cases, exhaustive=False,
            doc="optimize() on a one-index dataset returns the selected kernel's clp/residual"),
        Sub("dispatch_after_fault", prop=prop_dispatch_fault, enumerate=dispatch_fault_cases, exhaustive=False,
            doc="two unlinked datasets, the model raises at the k-th evaluation (contained): the returned Result's clps/residuals solve the linear problem of its own matrix"),
    ],
    assumptions=[
        "numpy SVD least squares (LAPACK gelsd) and subset enumeration are trusted as reference",
        "tolerances: backward-error unit beta = eps(|A||clp|+|y|); VP 1e3 beta, NNLS witness/KKT 1e4 beta",
    ],
)
