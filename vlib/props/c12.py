"""C12 - expression parameters always equal their expression.

Sub-checks
----------
graphs    exhaustive: every acyclic dependency graph over <= 4 expression parameters, with <= 2 plain parameters at
          every position of the declaration order (a labelled DAG on declaration positions *is* a graph in a
          declaration order), two patterns of references to the plain parameters; construction, idempotence,
          value update, copy.
random    Hypothesis: up to 6 parameters, random expression trees (+ - * / neg exp log sqrt abs sin), nested labels,
          list / nested-dict / records / yml_str constructors, optimiser-like update vectors (logarithms for
          non-negative parameters).
machine   RuleBasedStateMachine over one parameter set: optimiser-like updates (full and partial vectors), copy,
          update_parameter_expression, csv save/load, yml_str load.
optimize  full optimize() runs of a verif-table model whose column rates are *all* parameters of the set, with
          fault=True logging every rate vector the model is evaluated with; history rows, optimised set.

Oracle: the case's expression trees evaluated in dependency order on the current values of the non-expression
parameters (``vlib.oracle.c12expr``), rtol 1e-12; a second update changes nothing.
"""

from __future__ import annotations

import copy
import hashlib
import itertools
import json
import math
import os
import shutil
import tempfile

import numpy as np
from hypothesis import strategies as st
from hypothesis.stateful import RuleBasedStateMachine
from hypothesis.stateful import initialize
from hypothesis.stateful import precondition
from hypothesis.stateful import rule

from vlib.core import Discard
from vlib.core import Property
from vlib.core import Sub
from vlib.core import Violation
from vlib.core import check
from vlib.core import digest
from vlib.core import expect_ok
from vlib.gen import params as gp
from vlib.oracle import c12expr as ex

INF = math.inf
RTOL = 1e-12


# ------------------------------------------------------------------------------------------
# shared oracle


def same_float(a, b) -> bool:
    a, b = float(a), float(b)
    return (math.isnan(a) and math.isnan(b)) or a == b


def plain_values(P, pset) -> dict:
    return {p["label"]: float(P.get(p["label"]).value) for p in pset["params"] if p.get("expr") is None}


def snapshot(P, pset) -> dict:
    return {p["label"]: float(P.get(p["label"]).value) for p in pset["params"]}


def check_expressions(P, pset, clause, what):
    """Every expression parameter of P equals its tree on P's current plain values (dependency order)."""
    exprs = gp.exprs_of(pset)
    plain = plain_values(P, pset)
    want = ex.evaluate_all(exprs, plain)  # OutOfDomain is the caller's business
    for lab, w in want.items():
        got = float(P.get(lab).value)
        check(ex.close(got, w, RTOL), clause,
              lambda: f"{what}: {lab} = {got!r} but its expression {ex.render(exprs[lab])} evaluates to {w!r} "
                      f"(plain values {plain}, all expression values expected {want})")
    return want


def check_idempotent(P, pset, clause, what):
    before = snapshot(P, pset)
    with expect_ok(clause.rsplit(".", 1)[0] + ".update_call"):
        P.update_parameter_expression()
    after = snapshot(P, pset)
    changed = {k: (before[k], after[k]) for k in before if not same_float(before[k], after[k])}
    check(not changed, clause, lambda: f"{what}: a second update_parameter_expression() changed {changed}")


def forward_reference(pset) -> bool:
    """Non-trivial: some expression references an expression parameter declared later."""
    order = gp.declaration_order(pset)
    pos = {lab: i for i, lab in enumerate(order)}
    exprs = gp.exprs_of(pset)
    return any(r in exprs and pos[r] > pos[lab] for lab, t in exprs.items() for r in ex.refs(t))


def structure_tags(pset):
    exprs = gp.exprs_of(pset)
    depth = max(ex.depth_of(exprs).values()) if exprs else 0
    tags = [f"chain_depth:{depth}", f"n_expr:{len(exprs)}"]
    if forward_reference(pset):
        tags.append("forward_reference")
    if any("." in lab for lab in exprs) or any("." in r for t in exprs.values() for r in ex.refs(t)):
        tags.append("nested_label")
    return tags


def optimiser_vector_to_values(pset, labels, vec):
    """What an optimiser-like vector means, from the statement of C11: logarithms for non-negative parameters."""
    byl = gp.by_label(pset)
    with np.errstate(all="ignore"):
        return {lab: float(np.exp(np.float64(x))) if byl[lab].get("nn") else float(x) for lab, x in zip(labels, vec)}


# ------------------------------------------------------------------------------------------
# graphs (exhaustive)

POS_LABELS = ["a", "k.1", "b.x.2", "10", "k.10", "w"]  # label of declaration position i
PLAIN_VALUES = [3.0, -1.25]
COEF = [2.0, 0.5, -3.0, 1.5, 0.25, -0.75]


def _dags(n):
    pairs = [(i, j) for i in range(n) for j in range(n) if i != j]
    out = []
    for mask in range(1 << len(pairs)):
        edges = [pairs[b] for b in range(len(pairs)) if mask >> b & 1]
        adj = {i: [j for (a, j) in edges if a == i] for i in range(n)}
        state = {}

        def cyc(u):
            state[u] = 1
            for v in adj[u]:
                if state.get(v) == 1 or (v not in state and cyc(v)):
                    return True
            state[u] = 2
            return False

        if not any(u not in state and cyc(u) for u in range(n)):
            out.append(edges)
    return out


def graph_cases(tier):
    """All (E <= 4, P <= 2): labelled DAGs on the expression parameters x positions of the plain ones x 2 variants."""
    cases = []
    for E in range(1, 5):
        dags = _dags(E)
        for Pn in range(0, 3):
            n = E + Pn
            for plain_pos in itertools.combinations(range(n), Pn):
                for edges in dags:
                    for variant in ("each", "sinks"):
                        if Pn == 0 and variant == "sinks":
                            continue
                        cases.append({"n": n, "plain_pos": list(plain_pos), "edges": [list(e) for e in edges], "variant": variant})
    if tier == "quick":
        cases = [c for c in cases if int(hashlib.sha256(json.dumps(c, sort_keys=True).encode()).hexdigest()[:8], 16) % 4 == 0]
    return cases


def graph_pset(case):
    n = case["n"]
    plain_pos = list(case["plain_pos"])
    expr_pos = [i for i in range(n) if i not in plain_pos]  # expression node e lives at declaration position expr_pos[e]
    deps = {e: [] for e in range(len(expr_pos))}
    for a, b in case["edges"]:
        deps[a].append(b)
    params = []
    for i in range(n):
        lab = POS_LABELS[i]
        if i in plain_pos:
            params.append({"label": lab, "value": PLAIN_VALUES[plain_pos.index(i)], "expr": None})
            continue
        e = expr_pos.index(i)
        tree = ["c", float(e + 1)]
        for d in deps[e]:
            tree = ["+", tree, ["*", ["c", COEF[d]], ["ref", POS_LABELS[expr_pos[d]]]]]
        if plain_pos:
            if case["variant"] == "each":
                use = [plain_pos[e % len(plain_pos)]]
            else:
                use = plain_pos if not deps[e] else []
            for q in use:
                tree = ["+", tree, ["*", ["c", COEF[4 + plain_pos.index(q)]], ["ref", POS_LABELS[q]]]]
        if tree[0] == "c":
            tree = ["+", tree, ["c", 0.5]]
        params.append({"label": lab, "value": None, "expr": tree})
    return {"construct": "list", "params": params}


def prop_graph(case):
    pset = graph_pset(case)
    with expect_ok("graphs.construct_call"):
        P = gp.build(pset)
    check_expressions(P, pset, "graphs.construct", "after construction")
    check_idempotent(P, pset, "graphs.idempotent", "after construction")
    plain = [p["label"] for p in pset["params"] if p["expr"] is None]
    if plain:
        new = [0.5 - 2.0 * i for i in range(len(plain))]
        with expect_ok("graphs.set_call"):
            P.set_from_label_and_value_arrays(plain, np.array(new))
        for lab, v in zip(plain, new):
            check(float(P.get(lab).value) == v, "graphs.plain_set", lambda: f"{lab} = {P.get(lab).value!r} after setting {v!r}")
        check_expressions(P, pset, "graphs.update", "after set_from_label_and_value_arrays")
        check_idempotent(P, pset, "graphs.idempotent_after_update", "after set_from_label_and_value_arrays")
    with expect_ok("graphs.copy_call"):
        Q = P.copy()
    check_expressions(Q, pset, "graphs.copy", "copy")
    if plain:
        snap = snapshot(P, pset)
        with expect_ok("graphs.set_call"):
            Q.set_from_label_and_value_arrays(plain, np.array([7.0 + i for i in range(len(plain))]))
        check_expressions(Q, pset, "graphs.copy_update", "copy after its own update")
        now = snapshot(P, pset)
        check(all(same_float(snap[k], now[k]) for k in snap), "graphs.copy_independent", lambda: f"updating the copy changed the original: {snap} -> {now}")
    return {"nontrivial": forward_reference(pset), "tags": structure_tags(pset) + [f"n_plain:{len(plain)}"]}


# ------------------------------------------------------------------------------------------
# random expression sets

PLAIN_VALUE = st.one_of(st.floats(-4.0, 4.0), st.sampled_from([0.0, 1.0, -1.0, 2.0, 0.5, 1e-3, 1e3]))


@st.composite
def expression_sets(draw, constructs=("list", "dict", "records", "yml_str"), max_size=6, kinds=("free", "free", "non_negative", "fixed"),
                    groups=gp.GROUPS_TEXT, n_updates=2):
    construct = draw(st.sampled_from(list(constructs)))
    base = "dict" if construct == "yml_str" and draw(st.booleans()) else ("list" if construct == "yml_str" else construct)
    n = draw(st.integers(2, max_size))
    labs = draw(gp.labels(n, base, groups=groups))
    n_expr = draw(st.integers(1, n - 1))
    hidden = list(draw(st.permutations(range(n))))  # hidden[i] < n_expr  <=> expression; also the dependency order
    is_expr = [hidden[i] < n_expr for i in range(n)]
    plain_labels = [lab for lab, e in zip(labs, is_expr) if not e]
    params = []
    for i, lab in enumerate(labs):
        if not is_expr[i]:
            k = draw(st.sampled_from(list(kinds)))
            v = draw(PLAIN_VALUE)
            p = {"label": lab, "value": v, "min": -INF, "max": INF, "nn": False, "vary": k != "fixed", "expr": None}
            if k == "non_negative":
                p["nn"] = True
                p["value"] = abs(v) if v != 0 else 1.0
            params.append(p)
        else:
            allowed = plain_labels + 3 * [labs[j] for j in range(n) if is_expr[j] and hidden[j] < hidden[i]]
            tree = draw(gp.trees(allowed, max_leaves=4, need_ref=False))
            # (bounds on a derived parameter are accepted and have no meaning: its value is that of its expression)
            lo, hi = draw(st.sampled_from([(-INF, INF), (-INF, INF), (-INF, INF), (0.0, INF), (-INF, 0.5), (-0.5, 0.5), (1.0, 2.0)]))
            # (likewise the non-negative flag - explicit or inherited from a group default - does not transform a derived value)
            params.append({"label": lab, "value": draw(st.sampled_from([None, None, 0.0, 1.0])), "min": lo, "max": hi, "nn": draw(st.integers(0, 3)) == 0,
                           "vary": True, "expr": tree})
    pset = {"construct": base, "params": params}
    free = [p["label"] for p in params if gp.is_free(p)]
    updates = [[draw(st.one_of(st.floats(-3.0, 3.0), st.sampled_from([0.0, 1.0, -1.0, 1e-10]))) for _ in free] for _ in range(n_updates)]
    return {"set": pset, "via": construct, "updates": updates}


def yml_text(pset) -> str:
    """The parameter specification as (flow style) YAML text; JSON is YAML for the value types used here."""
    return json.dumps(gp.spec(pset))


def construct(case):
    pset = case["set"]
    if case.get("via") == "yml_str":
        from glotaran.io import load_parameters

        return load_parameters(yml_text(pset), format_name="yml_str")
    return gp.build(pset)


def in_domain(pset, plain=None) -> bool:
    plain = plain if plain is not None else {p["label"]: p["value"] for p in pset["params"] if p.get("expr") is None}
    try:
        ex.evaluate_all(gp.exprs_of(pset), plain)
    except ex.OutOfDomain:
        return False
    return True


def free_labels(pset):
    byl = gp.by_label(pset)
    return [lab for lab in gp.declaration_order(pset) if gp.is_free(byl[lab])]


def prop_random(case):
    pset = case["set"]
    if not in_domain(pset):
        raise Discard("expression out of domain at the declared values")
    with expect_ok("random.construct_call"), np.errstate(all="ignore"):
        P = construct(case)
    for p in pset["params"]:
        if p["expr"] is None:
            check(same_float(P.get(p["label"]).value, p["value"]), "random.plain_kept", lambda: f"{p['label']}: {P.get(p['label']).value!r} vs {p['value']!r}")
    check_expressions(P, pset, "random.construct", f"after construction via {case.get('via')}")
    check_idempotent(P, pset, "random.idempotent", "after construction")
    free = free_labels(pset)
    tags = structure_tags(pset) + [f"via:{case.get('via')}"]
    applied = 0
    for vec in case["updates"]:
        if not free:
            break
        new = plain_values(P, pset)
        new.update(optimiser_vector_to_values(pset, free, vec))
        if not in_domain(pset, new):
            tags.append("update_skipped_out_of_domain")
            continue
        with expect_ok("random.set_call"), np.errstate(all="ignore"):
            P.set_from_label_and_value_arrays(free, np.array(vec, dtype=float))
        applied += 1
        for lab in free:
            check(ex.close(P.get(lab).value, new[lab], 1e-15), "random.plain_set", lambda: f"{lab}: {P.get(lab).value!r} vs {new[lab]!r}")
        check_expressions(P, pset, "random.update", "after an optimiser-like update")
        check_idempotent(P, pset, "random.idempotent_after_update", "after an optimiser-like update")
        with expect_ok("random.copy_call"), np.errstate(all="ignore"):
            Q = P.copy()
        check_expressions(Q, pset, "random.copy", "copy")
    if applied:
        tags.append("updated")
    with expect_ok("random.export_call"), np.errstate(all="ignore"):
        labels, values, _, _ = P.get_label_value_and_bounds_arrays()
    want = ex.evaluate_all(gp.exprs_of(pset), plain_values(P, pset))
    nn_labels = {p["label"] for p in pset["params"] if p.get("nn")}
    for lab, v in zip(labels, values):
        if lab in want and lab not in nn_labels:  # (the export is in optimiser space: logarithms for non-negative parameters, C11)
            check(ex.close(v, want[lab], RTOL), "random.export", lambda: f"exported {lab} = {v!r}, expression gives {want[lab]!r}")
    funcs = {node for t in gp.exprs_of(pset).values() for node in _node_kinds(t)}
    tags += [f"fn:{f}" for f in sorted(funcs & set(ex.FUNCS))]
    return {"nontrivial": forward_reference(pset), "tags": tags}


def _node_kinds(t):
    yield t[0]
    if t[0] not in ("ref", "c"):
        for s in t[1:]:
            yield from _node_kinds(s)


# ------------------------------------------------------------------------------------------
# state machine


class Model:
    """The harness-side account of one parameter set under a sequence of operations (also used for replay)."""

    def __init__(self, case):
        self.case = case
        self.pset = copy.deepcopy(case["set"])
        self.tmp = None
        self.olds = []  # (Parameters, snapshot) of objects that must not change any more
        self.ops = set()
        with expect_ok("machine.construct_call"), np.errstate(all="ignore"):
            self.P = construct(case)
        self.verify("init")

    def verify(self, op):
        self.ops.add(op)
        try:
            check_expressions(self.P, self.pset, f"machine.after_{op}", f"after {op}")
        except ex.OutOfDomain:  # cannot happen: every step is pre-checked
            raise Violation("machine.domain", f"oracle out of domain after {op}") from None
        for Q, snap in self.olds:
            now = snapshot(Q, self.pset)
            check(all(same_float(snap[k], now[k]) for k in snap), "machine.copy_independent", lambda: f"an earlier object changed after {op}: {snap} -> {now}")

    def step(self, s) -> bool:
        """Apply one JSON step; returns False if it was skipped (outside the domain)."""
        op = s["op"]
        pset = self.pset
        if op == "set":
            free = free_labels(pset)
            labels = [free[i] for i in s["idx"] if i < len(free)] if s.get("idx") is not None else free
            vec = [s["vec"][i % len(s["vec"])] for i in range(len(labels))]
            if not labels:
                return False
            old = plain_values(self.P, pset)
            new = dict(old)
            new.update(optimiser_vector_to_values(pset, labels, vec))
            if not in_domain(pset, new):
                # outside the domain of some expression the update may be refused (or give non-finite values): whichever it is,
                # the object must serve the next valid update - here: back to the values it held
                byl = gp.by_label(pset)
                try:
                    with np.errstate(all="ignore"):
                        # (plain python floats: 1 / 0.0 raises where numpy gives inf)
                        self.P.set_from_label_and_value_arrays(labels, [float(v) for v in vec])
                except Exception:  # noqa: BLE001
                    self.ops.add("refused_update")
                with np.errstate(all="ignore"):
                    back = [float(np.log(np.float64(old[lab]))) if byl[lab].get("nn") else old[lab] for lab in labels]
                restored = dict(old)
                restored.update(optimiser_vector_to_values(pset, labels, back))
                if not in_domain(pset, restored):
                    raise Violation("machine.domain", "oracle: restored values outside the domain")
                with expect_ok("machine.set_after_out_of_domain_update_call"), np.errstate(all="ignore"):
                    self.P.set_from_label_and_value_arrays(labels, np.array(back, dtype=float))
                self.verify("set_after_out_of_domain_update")
                return True
            with expect_ok("machine.set_call"), np.errstate(all="ignore"):
                self.P.set_from_label_and_value_arrays(labels, np.array(vec, dtype=float))
            for lab in labels:
                check(ex.close(self.P.get(lab).value, new[lab], 1e-15), "machine.plain_set", lambda: f"{lab}: {self.P.get(lab).value!r} vs {new[lab]!r}")
            self.verify("set" if s.get("idx") is None else "partial_set")
        elif op == "copy":
            with expect_ok("machine.copy_call"), np.errstate(all="ignore"):
                Q = self.P.copy()
            self.olds = [(self.P, snapshot(self.P, pset))]
            self.P = Q
            self.verify("copy")
        elif op == "update":
            check_idempotent(self.P, pset, "machine.idempotent", "explicit update_parameter_expression")
            self.verify("update")
        elif op == "edit_fixed":
            # the value of a fixed (vary: false) parameter is changed in place on the current object: its expressions follow after an
            # update, and objects copied from it earlier are not touched (a copy shares nothing with its origin)
            fixed = [p for p in pset["params"] if p.get("expr") is None and not p.get("vary", True)]
            if not fixed:
                return False
            p = fixed[s["k"] % len(fixed)]
            v = float(s["v"]) if not p.get("nn") else abs(float(s["v"])) + 0.5
            new = plain_values(self.P, pset)
            new[p["label"]] = v
            if not in_domain(pset, new):
                return False
            self.P.get(p["label"]).value = v
            with expect_ok("machine.update_call"), np.errstate(all="ignore"):
                self.P.update_parameter_expression()
            p["value"] = v
            self.verify("edit_fixed")
        elif op == "csv":
            from glotaran.io import load_parameters
            from glotaran.io import save_parameters

            if self.tmp is None:
                self.tmp = tempfile.mkdtemp(prefix="vp_c12_")
            path = os.path.join(self.tmp, "p.csv")
            before = plain_values(self.P, pset)
            with expect_ok("machine.csv_call"), np.errstate(all="ignore"):
                save_parameters(self.P, path, allow_overwrite=True)
                Q = load_parameters(path)
            after = {lab: float(Q.get(lab).value) for lab in before}
            if not in_domain(pset, after):  # a few ulp lost by the csv reader may leave the domain (e.g. log(x - y))
                return False
            bad = {k: (before[k], after[k]) for k in before if not ex.close(before[k], after[k], 1e-12)}
            check(not bad, "machine.csv_plain", lambda: f"plain values changed by csv round trip: {bad}")
            for lab, t in gp.exprs_of(pset).items():
                check(Q.get(lab).expression == ex.render(t), "machine.csv_expression", lambda: f"{lab}: expression {Q.get(lab).expression!r} after csv")
            self.P = Q
            self.olds = []
            self.verify("csv")
        elif op == "yml":
            from glotaran.io import load_parameters

            cur = copy.deepcopy(pset)
            vals = snapshot(self.P, pset)
            order = gp.declaration_order(pset)
            byl = gp.by_label(cur)
            cur["params"] = [byl[lab] for lab in order]
            for p in cur["params"]:
                if p["expr"] is None:
                    p["value"] = vals[p["label"]]
            cur["construct"] = s["as"] if all("." in p["label"] for p in cur["params"]) else "list"
            with expect_ok("machine.yml_call"), np.errstate(all="ignore"):
                Q = load_parameters(yml_text(cur), format_name="yml_str")
            for p in cur["params"]:
                if p["expr"] is None:
                    check(same_float(Q.get(p["label"]).value, p["value"]), "machine.yml_plain", lambda: f"{p['label']}: {Q.get(p['label']).value!r} vs {p['value']!r}")
            self.P, self.pset, self.olds = Q, cur, []
            self.verify("yml")
        else:
            raise ValueError(op)
        return True

    def close(self):
        if self.tmp is not None:
            shutil.rmtree(self.tmp, ignore_errors=True)
            self.tmp = None


VEC = st.lists(st.one_of(st.floats(-3.0, 3.0), st.sampled_from([0.0, 1.0, -1.0, 1e-10])), min_size=6, max_size=6)


def machine_factory():
    class ExpressionMachine(RuleBasedStateMachine):
        stats: dict = {}

        def __init__(self):
            super().__init__()
            self.model = None
            self.log = []
            self.case = None

        def _do(self, step):
            self.log.append(step)
            try:
                if step["op"] == "init":
                    self.model = Model(step["case"])
                else:
                    applied = self.model.step(step)
                    if not applied:
                        step["skipped"] = True
            except Violation:
                type(self).stats["last_fail"] = {"steps": copy.deepcopy(self.log)}
                raise

        @initialize(case=expression_sets(n_updates=0).filter(lambda c: in_domain(c["set"])))
        def init(self, case):
            self.case = case
            self._do({"op": "init", "case": case})

        @rule(vec=VEC)
        def set_vector(self, vec):
            self._do({"op": "set", "vec": vec, "idx": None})

        @rule(vec=st.lists(st.sampled_from([0.0, 1.0, -1.0, 0.5, 2.0, -0.25, 1e-10]), min_size=6, max_size=6))
        def set_round_vector(self, vec):
            self._do({"op": "set", "vec": vec, "idx": None})

        @rule(vec=VEC, idx=st.lists(st.integers(0, 5), min_size=1, max_size=3, unique=True))
        def set_partial(self, vec, idx):
            self._do({"op": "set", "vec": vec, "idx": idx})

        @rule()
        def copy(self):
            self._do({"op": "copy"})

        @rule()
        def update(self):
            self._do({"op": "update"})

        @rule(k=st.integers(0, 5), v=st.sampled_from([0.5, 2.0, -1.25, 3.0, 7.5]))
        def edit_fixed(self, k, v):
            self._do({"op": "edit_fixed", "k": k, "v": v})

        @rule()
        def csv(self):
            self._do({"op": "csv"})

        @rule(as_=st.sampled_from(["list", "dict"]))
        def yml(self, as_):
            self._do({"op": "yml", "as": as_})

        def teardown(self):
            s = type(self).stats
            if self.model is not None:
                self.model.close()
                s["runs"] += 1
                s["steps"] += len(self.log)
                tags = structure_tags(self.model.pset)
                for t in tags + [f"op:{o}" for o in sorted(self.model.ops)]:
                    s["tags"][t] += 1
                if forward_reference(self.case["set"]):
                    s["nontrivial"].add(digest(self.log))
                    s["tags"]["nontrivial"] += 1
                if len(s["samples"]) < 2:
                    s["samples"].append({"steps": copy.deepcopy(self.log)})

    return ExpressionMachine


def replay_steps(case):
    steps = case["steps"]
    model = None
    try:
        for s in steps:
            if s["op"] == "init":
                model = Model(s["case"])
            elif not s.get("skipped"):
                model.step(s)
    finally:
        if model is not None:
            model.close()


# ------------------------------------------------------------------------------------------
# optimize

RATE_EXPR = [
    lambda a, b, c: ["+", ["*", ["ref", a], ["c", c]], ["c", 0.1]],
    lambda a, b, c: ["*", ["ref", a], ["ref", b]],
    lambda a, b, c: ["+", ["ref", a], ["*", ["ref", b], ["c", c]]],
    lambda a, b, c: ["sqrt", ["+", ["*", ["ref", a], ["ref", a]], ["abs", ["ref", b]]]],
    lambda a, b, c: ["/", ["ref", a], ["+", ["c", 1.0], ["*", ["c", c], ["abs", ["ref", b]]]]],
    lambda a, b, c: ["+", ["c", 1.5], ["sin", ["*", ["ref", a], ["ref", b]]]],
    lambda a, b, c: ["log", ["+", ["c", 1.5], ["exp", ["neg", ["abs", ["ref", a]]]]]],
    lambda a, b, c: ["abs", ["-", ["ref", a], ["*", ["c", c], ["ref", b]]]],
]


@st.composite
def optimize_cases(draw):
    constructn = draw(st.sampled_from(["list", "dict", "records"]))
    n = draw(st.integers(2, 5))
    labs = draw(gp.labels(n, constructn))
    n_expr = draw(st.integers(1, min(3, n - 1)))
    hidden = list(draw(st.permutations(range(n))))
    is_expr = [hidden[i] < n_expr for i in range(n)]
    params = []
    base = list(draw(st.permutations([0.3, 0.7, 1.3, 2.1, 2.9])))
    for i, lab in enumerate(labs):
        if not is_expr[i]:
            k = draw(st.sampled_from(["free", "free", "free", "fixed"]))
            params.append({"label": lab, "value": base[i] * draw(st.floats(0.9, 1.1)), "min": -INF, "max": INF, "nn": False, "vary": k != "fixed", "expr": None})
        else:
            allowed = [labs[j] for j in range(n) if not is_expr[j]] + 3 * [labs[j] for j in range(n) if is_expr[j] and hidden[j] < hidden[i]]
            a, b = draw(st.sampled_from(allowed)), draw(st.sampled_from(allowed))
            tree = draw(st.sampled_from(RATE_EXPR))(a, b, draw(st.sampled_from([0.5, 1.5, 2.0])))
            params.append({"label": lab, "value": draw(st.sampled_from([None, 0.0])), "min": -INF, "max": INF, "nn": False, "vary": True, "expr": tree})
    if not any(gp.is_free(p) for p in params):
        next(p for p in params if p["expr"] is None)["vary"] = True
    pset = {"construct": constructn, "params": params}
    method = draw(st.sampled_from(["TrustRegionReflection", "TrustRegionReflection", "Dogbox", "Levenberg-Marquardt"]))
    nfree = sum(gp.is_free(p) for p in params)
    nfev = draw(st.integers(1, 5))
    return {
        "set": pset, "rates": list(draw(st.permutations(labs))), "shape": draw(st.sampled_from(["exp", "rat", "cos"])),
        "truth_factor": [draw(st.floats(0.8, 1.25)) for _ in range(n)], "seed": draw(st.integers(0, 2**32 - 1)), "method": method,
        "max_nfev": nfev * (nfree + 1) if method == "Levenberg-Marquardt" else nfev,
    }


def prop_optimize(case):
    import xarray as xr

    from glotaran.optimization.optimize import optimize
    from glotaran.project import Scheme
    from vlib import testmc

    pset = case["set"]
    exprs = gp.exprs_of(pset)
    plain0 = {p["label"]: p["value"] for p in pset["params"] if p["expr"] is None}
    try:
        start = dict(plain0)
        start.update(ex.evaluate_all(exprs, plain0))
        truth_plain = {lab: v * f for (lab, v), f in zip(plain0.items(), case["truth_factor"])}
        truth = dict(truth_plain)
        truth.update(ex.evaluate_all(exprs, truth_plain))
    except ex.OutOfDomain:
        raise Discard("expression out of domain") from None
    if not all(0.02 <= abs(v) <= 8.0 for v in list(start.values()) + list(truth.values())):
        raise Discard("rate outside the well-behaved range of the harness model")
    rates = case["rates"]
    rng = np.random.default_rng(case["seed"])
    t = np.linspace(0.0, 4.0, 24)
    g = [1.0, 2.0]
    A = testmc.table_matrix(case["shape"], [truth[lab] for lab in rates], t)
    y = A @ rng.uniform(0.5, 2.0, (len(rates), len(g))) + 0.01 * rng.standard_normal((t.size, len(g)))
    data = xr.DataArray(y, coords=[("model", t), ("global", g)]).to_dataset(name="data")
    spec = {
        "dataset_groups": {"default": {"residual_function": "variable_projection", "link_clp": False}},
        "megacomplex": {"m": {"type": "verif-table", "labels": [f"s{j}" for j in range(len(rates))], "rates": list(rates), "shape": case["shape"], "fault": True}},
        "dataset": {"d": {"megacomplex": ["m"]}},
    }
    with expect_ok("optimize.construct_call"):
        P = gp.build(pset)
    model, _ = testmc.make_model(spec, P)
    scheme = Scheme(model, P, {"d": data}, maximum_number_function_evaluations=case["max_nfev"], optimization_method=case["method"])
    testmc.reset_fault()
    tags = set(structure_tags(pset))
    res = None
    try:
        with np.errstate(all="ignore"):
            res = optimize(scheme, verbose=False, raise_exception=True)
    except ValueError as e:
        if "not finite" not in str(e):
            raise Violation("optimize.call", f"ValueError: {e}") from e
        tags.add("optimizer_stopped_on_non_finite_residuals")
    log = [dict(e) for e in testmc.FAULT["log"]]
    testmc.reset_fault()
    check(len(log) >= 1, "optimize.model_evaluated", "the model was never evaluated")

    def check_record(value_of, clause, what):
        plain = {lab: float(value_of(lab)) for lab in plain0}
        try:
            want = ex.evaluate_all(exprs, plain)
        except ex.OutOfDomain:
            tags.add("record_out_of_domain")
            return
        for lab, w in want.items():
            got = float(value_of(lab))
            check(ex.close(got, w, RTOL), clause,
                  lambda: f"{what}: {lab} = {got!r} but {ex.render(exprs[lab])} = {w!r} on the same record (plain {plain})")

    for e in log:
        vec = dict(zip(rates, e["rates"]))
        check_record(lambda lab: vec[lab], "optimize.model_sees_consistent", f"model evaluation {e['k']}/{len(log)}")
    if res is not None:
        hist = res.parameter_history
        hl = [str(c) for c in list(hist.parameter_labels)]
        missing = [lab for lab in start if lab not in hl]
        check(not missing, "optimize.history_labels", lambda: f"history lacks {missing}")
        for k in range(hist.number_of_records):
            row = np.asarray(hist.get_parameters(k), dtype=float)
            check_record(lambda lab: row[hl.index(lab)], "optimize.history_row", f"history record {k}/{hist.number_of_records}")
        opt = res.optimized_parameters
        check_record(lambda lab: opt.get(lab).value, "optimize.result", "optimised parameters")
        for p in pset["params"]:
            if p["expr"] is None and not p["vary"]:
                check(same_float(opt.get(p["label"]).value, p["value"]), "optimize.fixed", lambda: f"{p['label']}")
        moved = any(not same_float(opt.get(lab).value, plain0[lab]) for lab in plain0)
        if moved:
            tags.add("parameters_moved")
    tags |= {f"method:{case['method']}", f"evaluations:{min(len(log) // 5 * 5, 30)}+"}
    return {"nontrivial": forward_reference(pset), "tags": sorted(tags)}


# ------------------------------------------------------------------------------------------


def selfcheck():
    from glotaran.parameter.parameter import RESERVED_LABELS

    ex.selfcheck()
    bad = [lab for lab in gp.all_pool_labels() + POS_LABELS if lab in RESERVED_LABELS]
    assert not bad, bad
    assert len(_dags(1)) == 1 and len(_dags(2)) == 3 and len(_dags(3)) == 25 and len(_dags(4)) == 543  # OEIS A003024
    n_all = len(graph_cases("thorough"))
    assert n_all == 2 * (6 + 30 + 375 + 11403) - (1 + 3 + 25 + 543), n_all
    # D14's example as a graph case: a=$b.., b=$c..: expression at position 0 depends on the one at position 1
    ps = graph_pset({"n": 3, "plain_pos": [2], "edges": [[0, 1]], "variant": "each"})
    assert forward_reference(ps)
    want = ex.evaluate_all(gp.exprs_of(ps), {"b.x.2": 3.0})
    assert want == {"k.1": 2.0 + 0.25 * 3.0, "a": 1.0 + 0.5 * 2.75 + 0.25 * 3.0}, want


PROPERTY = Property(
    id="C12",
    level="exploration",
    rule=(
        "graphs: every labelled DAG over E <= 4 expression parameters placed with P <= 2 plain parameters at every choice of "
        "declaration positions (= every acyclic dependency graph in every declaration order), two patterns of plain references "
        "(23 056 cases, hash-sampled 1/4 in quick); random / machine: 2..6 parameters, random trees over + - * / neg exp log sqrt abs sin, "
        "flat and nested labels, list / nested dict / records / yml_str constructors, optimiser-like full and partial update vectors "
        "(logarithms for non-negative parameters), copy, explicit update, csv save/load, yml_str load; optimize: verif-table fits whose "
        "rates are all parameters of the set, every evaluated rate vector logged. Non-trivial: some expression references an "
        "expression parameter declared later; distinct = distinct case (or step-log) digest."
    ),
    subs=[
        Sub("graphs", prop=prop_graph, enumerate=graph_cases, exhaustive=True,
            doc="exhaustive over the stated sub-domain in the thorough tier; deterministic 1/4 hash sample in quick"),
        Sub("random", prop=prop_random, strategy=expression_sets, budget={"quick": 1500, "thorough": 60000}),
        Sub("machine", machine=machine_factory, replay_steps=replay_steps, budget={"quick": 320, "thorough": 30000}, steps={"quick": 10, "thorough": 30}),
        Sub("optimize", prop=prop_optimize, strategy=optimize_cases, budget={"quick": 240, "thorough": 15000}),
    ],
    assumptions=[
        "the oracle evaluates the generated expression tree (numpy double arithmetic) in dependency order; comparison rtol 1e-12",
        "cases / steps whose expressions leave the real finite domain (division by zero, log of a non-positive number, overflow) are "
        "discarded or skipped and counted",
        "csv round trip may change plain values by a few ulp (rtol 1e-12 allowed); expressions are compared on the values actually loaded",
        "labels that csv would re-type (purely numeric group, C16 D16) and bare-number expressions (C16 D17) are not generated; "
        "no non-negative parameters in the optimize sub-check (history of those is C11 D13)",
    ],
    selfcheck=selfcheck,
)
