"""C15 - failures during optimisation are contained and reported (fault enumeration)."""

from __future__ import annotations

import copy
import io
import sys
import warnings

import numpy as np

from vlib.core import Discard
from vlib.core import Property
from vlib.core import Sub
from vlib.core import Violation
from vlib.core import check
from vlib.gen import schemes

METHODS = ["TrustRegionReflection", "Dogbox", "Levenberg-Marquardt"]


def base_case(variant: int, seed: int):
    def ds(label, gax, seed, group="default"):
        return {"label": label, "group": group, "megacomplex": ["m1"], "megacomplex_scale": None, "scale": None, "global_megacomplex": None,
                "model_axis": [0.3 * j for j in range(10)], "global_axis": list(gax), "transposed": False, "dataset_weight_seed": None,
                "data_seed": seed, "noise": 0.05}

    case = {
        "groups": {"default": {"residual_function": "variable_projection", "link_clp": None}},
        "megacomplexes": {"m1": {"labels": ["a", "b"], "rates": ["r.1", "r.2"], "shape": "exp", "index_dependent": False, "fault": True}},
        "gmegacomplexes": {},
        "datasets": [ds("dsA", (0.0, 1.0, 2.0), seed)],
        "constraints": [], "relations": [], "penalties": [], "weights": [],
        "parameters": {"r": [0.4, 1.6]}, "free": ["r.1", "r.2"], "points": [],
        "clp_link_tolerance": 0.0, "clp_link_method": "nearest",
        "expr_param": variant in (0, 2, 4),  # a parameter defined by an expression: part of the caller's scheme that must stay untouched
    }
    if variant == 1:  # two datasets sharing the faulting megacomplex (two model evaluations per objective evaluation), linked
        case["datasets"].append(ds("dsB", (1.0, 2.0, 3.5), seed + 1))
        case["groups"]["default"]["link_clp"] = True
    elif variant == 2:  # unlinked, with a penalty and NNLS
        case["datasets"].append(ds("dsB", (0.0, 1.0), seed + 1))
        case["groups"]["default"].update(link_clp=False, residual_function="non_negative_least_squares")
        case["penalties"] = [{"type": "equal_area", "source": "a", "target": "b", "parameter": "pen.1", "source_intervals": [[0.0, 2.0]],
                              "target_intervals": [[0.0, 2.0]], "weight": 0.5}]
        case["parameters"]["pen"] = [1.0]
    elif variant == 4:  # non-negative rates (optimised as logarithms) and a fixed non-negative scale
        case["non_negative"] = ["r.1", "r.2", "ds.1"]
        case["parameters"]["ds"] = [2.0]
        case["datasets"][0]["scale"] = "ds.1"
    elif variant == 3:  # index dependent, three rates, one fixed
        case["megacomplexes"]["m1"].update(labels=["a", "b", "c"], rates=["r.1", "r.2", "r.3"], index_dependent=True)
        case["parameters"]["r"] = [0.3, 1.1, 2.9]
    return case


def run(case, plan, method, verbose, raise_exception, max_nfev):
    """-> dict(outcome, result|exc, log, stdout_restored)"""
    from glotaran.optimization.optimize import optimize
    from vlib import testmc

    scheme = schemes.make_scheme(case, maximum_number_function_evaluations=max_nfev, optimization_method=method, add_svd=False)
    from vlib.props.c10 import snapshot

    snap = snapshot(scheme)
    testmc.reset_fault(plan)
    sentinel = io.StringIO()
    old = sys.stdout
    sys.stdout = sentinel
    out = {}
    try:
        with warnings.catch_warnings(record=True) as w:
            warnings.simplefilter("always")
            try:
                out["result"] = optimize(scheme, verbose=verbose, raise_exception=raise_exception)
                out["outcome"] = "result"
            except Exception as e:  # noqa: BLE001
                out["exc"] = e
                out["outcome"] = "raised"
            out["warnings"] = [str(x.message) for x in w]
    finally:
        out["stdout_restored"] = sys.stdout is sentinel
        sys.stdout = old
    out["log"] = copy.deepcopy(testmc.FAULT["log"])
    out["count"] = testmc.FAULT["count"]
    out["inputs_unchanged"] = snapshot(scheme) == snap
    # "the caller's scheme is untouched" also means: what is returned does not hand the caller's own objects back
    res_ = out.get("result")
    if res_ is not None:
        mine = {id(p) for p in scheme.parameters.all()}
        out["aliases_scheme_parameters"] = res_.optimized_parameters is scheme.parameters or any(id(p) in mine for p in res_.optimized_parameters.all())
    testmc.reset_fault(None)
    return out


class Marker(Exception):
    pass


def via(e):
    """Which stage of optimize() the exception escaped from."""
    import traceback

    names = [fr.name for fr in traceback.extract_tb(e.__traceback__)]
    return "via create_result" if "create_result" in names else "via " + (names[2] if len(names) > 2 else "?")


def fault_free(case, method, max_nfev):
    r = run(case, None, method, False, True, max_nfev)
    if r["outcome"] != "result":
        raise Discard(f"fault-free run fails: {type(r['exc']).__name__}")
    return r


def enumerate_cases(tier):
    out = []
    variants = [0, 1, 2, 3, 4]
    import os

    off = int(os.environ.get("VERIF_SEED", "1")) % 1000
    seeds = [10 + off] if tier == "quick" else [10 + off + i for i in range(6)]
    for v in variants:
        for s in seeds:
            case = base_case(v, s)
            for method in METHODS:
                max_nfev = 4 if tier == "quick" else 6
                try:
                    ff = fault_free(case, method, max_nfev)
                except Discard:
                    continue
                n = ff["count"]
                per_eval = 2 if v in (1, 2) else 1
                for k in range(1, n + 1):
                    # Dogbox + non-finite Jacobian can make LAPACK's dgelsd (numpy lstsq inside scipy's dogbox) loop forever:
                    # not pyglotaran code and not recoverable from Python, so non-finite faults are enumerated for TRF and LM only
                    nonfinite = [] if method == "Dogbox" else [("nan_at", [(False, False)]), ("inf_at", [(False, False), (False, True)])]
                    for kind, cfgs in [("raise_at", [(False, True), (False, False), (True, False), (True, True)])] + nonfinite:
                        for verbose, rexc in cfgs:
                            if tier == "quick" and verbose and k % 3 != 1:
                                continue
                            out.append({"variant": v, "seed": s, "method": method, "max_nfev": max_nfev, "k": k, "n": n, "per_eval": per_eval,
                                        "kind": kind, "verbose": verbose, "raise_exception": rexc})
                            if kind == "raise_at" and not verbose and (tier != "quick" or k % 2 == 0):
                                out.append(dict(out[-1], text=["empty", "multi", "leading_break"][(k // 2 + len(out)) % 3]))
                # persistent region fault
                for below in (0.39, 0.3):
                    for rexc in (False, True):
                        out.append({"variant": v, "seed": s, "method": method, "max_nfev": max_nfev, "k": 0, "n": n, "per_eval": per_eval,
                                    "kind": "raise_region", "below": below, "verbose": False, "raise_exception": rexc})
    return out


def prop(c):
    from glotaran.optimization.optimizer import InitialParameterError
    from glotaran.project import Result
    from vlib import capture
    from vlib import testmc

    case = c["scheme"] if "scheme" in c else base_case(c["variant"], c["seed"])
    if "k_frac" in c:
        # random sub-check: the fault-free run fixes N, then k is placed at the drawn fraction of it
        with warnings.catch_warnings():
            warnings.simplefilter("ignore")
            ff = fault_free(case, c["method"], c["max_nfev"])
        c = dict(c, n=ff["count"], per_eval=sum(len(d["megacomplex"]) for d in case["datasets"]))
        c["k"] = 1 + int(c["k_frac"] * (c["n"] - 1))
        c.setdefault("variant", "random")
    # the text of the error: one line, none at all (bare ``raise ValueError``), several lines (issue lists), leading line break
    text_kind = c.get("text", "line")
    marker = Marker(*{"line": [f"injected fault at evaluation {c['k']}"], "empty": [],
                      "multi": [f"injected fault at evaluation {c['k']}:\n * first issue\n * second issue"],
                      "leading_break": [f"\ninjected fault at evaluation {c['k']}"]}[text_kind])
    plan = {"kind": c["kind"], "k": c["k"]}
    if c["kind"] == "raise_at":
        plan["exc_obj"] = marker
    if c["kind"] == "raise_region":
        plan["below"] = c["below"]
    r = run(case, plan, c["method"], c["verbose"], c["raise_exception"], c["max_nfev"])
    n, k, pe = c["n"], c["k"], c["per_eval"]
    post_fit = c["kind"] != "raise_region" and k > n - 2 * pe
    first = c["kind"] != "raise_region" and k <= pe
    phase = "post_fit" if post_fit else ("first_evaluation" if first else "during_least_squares")
    tags = [c["kind"], c["method"], phase, f"variant{c['variant']}", "verbose" if c["verbose"] else "quiet", "raise" if c["raise_exception"] else "contain"]
    if c["kind"] == "raise_at":
        tags.append(f"error_text_{text_kind}")
    fired = any(not e["ok"] for e in r["log"])
    if not fired:
        tags.append("fault_not_reached")
    check(r["stdout_restored"], "always.stdout_restored", lambda: f"{c}")
    check(r["inputs_unchanged"], "always.scheme_unchanged", lambda: f"{c}")
    check(not r.get("aliases_scheme_parameters"), "always.result_holds_the_callers_parameter_objects", lambda: f"{c}")
    if fired and c["raise_exception"] and c["kind"] == "raise_at" and (k % 2 == 0 or "k_frac" in c):
        # the failure that was let through must not leave anything behind in the process: a following verbose run of the same scheme
        # still records its iterations (stdout is tee'd again)
        after = run(case, None, c["method"], True, True, c["max_nfev"])
        if after["outcome"] == "result" and c["method"] != "Levenberg-Marquardt":
            hist = after["result"].optimization_history
            check(len(getattr(hist, "data", hist)) > 0, "propagate.later_verbose_run_records_no_iterations", lambda: f"{c}")
    suffix = ".post_fit" if post_fit else ""
    if c["kind"] in ("raise_at", "raise_region") and fired:
        if c["raise_exception"]:
            check(r["outcome"] == "raised", "propagate.no_exception", lambda: f"{c}")
            if c["kind"] == "raise_at":
                check(r["exc"] is marker, "propagate.not_the_original_exception", lambda: f"got {type(r['exc']).__name__}: {r['exc']}")
            else:
                check(isinstance(r["exc"], testmc.InjectedFault), "propagate.not_the_original_exception", lambda: f"got {type(r['exc']).__name__}: {r['exc']}")
            return {"nontrivial": 1 < k < n, "tags": tags}
        any_ok = any(e["ok"] for e in r["log"][: max(0, (k if c["kind"] == "raise_at" else 10**9))])
        ok_before = [e for e in r["log"] if e["ok"]]
        if not ok_before or (c["kind"] == "raise_at" and k <= pe):
            check(r["outcome"] == "raised" and isinstance(r["exc"], InitialParameterError), "contain.initial_parameter_error_expected",
                  lambda: f"outcome {r['outcome']} {type(r.get('exc')).__name__ if 'exc' in r else ''}")
            return {"nontrivial": False, "tags": tags}
        check(r["outcome"] == "result", "contain.exception_escaped" + suffix,
              lambda: f"raise_exception=False but {type(r['exc']).__name__}: {r['exc']} propagated {via(r['exc'])} (fault at k={k} of {n}, phase {phase})")
        res = r["result"]
        check(isinstance(res, Result) and res.success is False, "contain.success_not_false" + suffix, lambda: f"success={getattr(res, 'success', None)}")
        text = str(marker) if c["kind"] == "raise_at" else "injected fault"
        check(text in str(res.termination_reason), "contain.termination_reason" + suffix, lambda: f"{res.termination_reason!r}")
        _check_result_from_good_vector(case, c, r, res, capture, suffix)
        return {"nontrivial": 1 < k < n, "tags": tags}
    if c["kind"] in ("nan_at", "inf_at") and fired:
        if c["raise_exception"]:
            # whatever the numerical code raises on a non-finite matrix may propagate; nothing else to check
            return {"nontrivial": 1 < k < n, "tags": tags + ["nonfinite_with_raise_exception:" + r["outcome"]]}
        if r["outcome"] == "raised":
            # an evaluation is good iff all of its model evaluations were: the first objective evaluation is calls 1..per_eval
            good_evals = [e for e in r["log"] if e["ok"] and e["k"] > pe] if first else [e for e in r["log"] if e["ok"]]
            check(isinstance(r["exc"], InitialParameterError) and (first or not good_evals), "nonfinite.exception_escaped" + suffix,
                  lambda: f"{type(r['exc']).__name__}: {r['exc']} propagated {via(r['exc'])} (fault at k={k} of {n}, phase {phase})")
            return {"nontrivial": False, "tags": tags}
        res = r["result"]
        check(isinstance(res, Result), "nonfinite.no_result")
        finite = all(np.all(np.isfinite(res.data[d["label"]].residual.values)) for d in case["datasets"]) and all(
            np.isfinite(p.value) for p in res.optimized_parameters.all())
        check(finite, "nonfinite.result_not_finite" + suffix, lambda: f"fault at k={k} of {n}, phase {phase}, success={res.success}")
        _check_result_from_good_vector(case, c, r, res, capture, suffix)
        return {"nontrivial": 1 < k < n, "tags": tags}
    # fault never reached (e.g. region never entered): the run must equal the fault-free run
    check(r["outcome"] == "result" and r["result"].success, "nofault.run_differs", lambda: f"{r['outcome']}")
    return {"nontrivial": False, "tags": tags}


def _check_result_from_good_vector(case, c, r, res, capture, suffix):
    from vlib import testmc

    # "a parameter set that was evaluated without error": one of the evaluations of the optimisation itself, i.e. before the
    # fault for a one-off fault (the post-fit re-evaluation of whatever was restored does not count as evidence)
    good = [e["rates"] for e in r["log"] if e["ok"] and (c["kind"] != "raise_at" or e["k"] < c["k"])]
    used = {m for d in case["datasets"] for m in d["megacomplex"]}
    for mname, m in case["megacomplexes"].items():
        if not m.get("fault") or mname not in used:
            continue
        rates = [float(res.optimized_parameters.get(l).value) for l in m["rates"]]
        check(any(len(g) == len(rates) and np.allclose(rates, g, rtol=1e-12, atol=0) for g in good), "contain.parameters_not_from_a_good_evaluation" + suffix,
              lambda: f"optimized rates {rates} of {mname} were never evaluated without error (good: {good[-4:]})")
    # datasets equal a fault-free evaluation at exactly those parameters
    c2 = copy.deepcopy(case)
    for m in c2["megacomplexes"].values():
        m["fault"] = False
    for grp, vs in c2["parameters"].items():
        c2["parameters"][grp] = [float(res.optimized_parameters.get(f"{grp}.{j+1}").value) for j in range(len(vs))]
    with warnings.catch_warnings():
        warnings.simplefilter("ignore")
        cap = capture.open_objective(schemes.make_scheme(c2))
        obj = cap(cap.x0)
    got = []
    for d in case["datasets"]:
        ds = res.data[d["label"]]
        v = ds["weighted_residual"] if "weighted_residual" in ds else ds["residual"]
        got.append(v.values.ravel())
    got = np.sort(np.concatenate(got))
    want = np.sort(obj)  # data entries of all groups plus the penalties: got must be a sub-multiset
    ok = got.size <= want.size
    jj = 0
    # tolerance on the scale of the vector (a non-negative parameter of value exactly 1 is moved by 1e-10 by the documented guard)
    atol = 1e-8 * max(float(np.abs(want).max()) if want.size else 0.0, 1e-300)
    for v in got:
        while jj < want.size and want[jj] < v - atol:
            jj += 1
        if jj >= want.size or abs(want[jj] - v) > atol:
            ok = False
            break
        jj += 1
    check(ok, "contain.datasets_not_from_those_parameters" + suffix,
          lambda: "result datasets are not the evaluation at the reported parameters")


# ------------------------------------------------------------------------------------------


def invalid_cases(tier):
    out = []
    for kind in ("missing_data", "unknown_method", "unknown_residual_function", "no_parameters"):
        for v in (0, 1, 2, 3, 4):
            for rexc in (False, True):
                out.append({"kind": kind, "variant": v, "raise_exception": rexc})
    # r6c15A: only one of several dataset groups names an unknown residual function (the valid group declared first / last)
    for v in (0, 1, 2, 3, 4):
        for bad_first in (False, True):
            for rexc in (False, True):
                out.append({"kind": "unknown_residual_function_one_group_of_two", "variant": v, "bad_first": bad_first, "raise_exception": rexc})
    return out


def prop_invalid(c):
    from glotaran.optimization.estimation_provider import UnsupportedResidualFunctionError
    from glotaran.optimization.optimize import optimize
    from glotaran.optimization.optimizer import MissingDatasetsError
    from glotaran.optimization.optimizer import ParameterNotInitializedError
    from glotaran.optimization.optimizer import UnsupportedMethodError
    from glotaran.project import Scheme
    from vlib import testmc

    case = base_case(c["variant"], 11)
    kw = {}
    expected = None
    if c["kind"] == "unknown_residual_function":
        case["groups"]["default"]["residual_function"] = "least_absolute_deviation"
        expected = UnsupportedResidualFunctionError
    if c["kind"] == "unknown_residual_function_one_group_of_two":
        extra = dict(case["datasets"][0], label="dsZ", group="gz", global_axis=[0.0, 1.5, 2.5], data_seed=5)
        case["datasets"].append(extra)
        good = dict(case["groups"]["default"])
        bad = {"residual_function": "least_absolute_deviation", "link_clp": None}
        # which of the two groups is the bad one, and the declaration order of the groups
        if c["bad_first"]:
            case["groups"] = {"default": bad, "gz": good}
        else:
            case["groups"] = {"default": good, "gz": bad}
        expected = UnsupportedResidualFunctionError
    model, params, data = schemes.build(case)
    if c["kind"] == "missing_data":
        data.pop(case["datasets"][-1]["label"])
        expected = MissingDatasetsError
    if c["kind"] == "unknown_method":
        kw["optimization_method"] = "SteepestDescent"
        expected = UnsupportedMethodError
    if c["kind"] == "no_parameters":
        expected = ParameterNotInitializedError
    testmc.reset_fault(None)
    old = sys.stdout
    with warnings.catch_warnings():
        warnings.simplefilter("ignore")
        try:
            scheme = Scheme(model, params, data, **kw)
            if c["kind"] == "no_parameters":
                scheme.parameters = None  # Scheme() itself refuses None; this is the state the documented error is for
            optimize(scheme, verbose=False, raise_exception=c["raise_exception"])
            outcome = None
        except Exception as e:  # noqa: BLE001
            outcome = e
    check(sys.stdout is old, "invalid.stdout_restored")
    check(outcome is not None, "invalid.accepted", lambda: f"{c['kind']} was optimised")
    check(isinstance(outcome, expected), "invalid.wrong_exception", lambda: f"{c['kind']}: {type(outcome).__name__}: {outcome}")
    check(testmc.FAULT["count"] == 0, "invalid.evaluated_before_rejection", lambda: f"{testmc.FAULT['count']} model evaluations before rejecting {c['kind']}")
    return {"nontrivial": True, "tags": [c["kind"]]}


def random_fault_cases():
    from hypothesis import strategies as st

    @st.composite
    def cases(draw):
        scheme = draw(schemes.schemes(allow_full=False, max_datasets=2, labels="neutral"))
        for m in scheme["megacomplexes"].values():
            m["fault"] = True
        scheme["expr_param"] = draw(st.booleans())
        # non-negative parameters are optimised as logarithms: recorded / restored values must be the actual ones
        scheme["non_negative"] = [l for l in scheme["free"] if l.startswith("r.") and draw(st.booleans())] + [
            f"{g}.{j+1}" for g in ("s", "ds") for j in range(len(scheme["parameters"].get(g, []))) if draw(st.booleans())]
        kind = draw(st.sampled_from(["raise_at", "raise_at", "nan_at", "inf_at"]))
        method = draw(st.sampled_from(METHODS if kind == "raise_at" else [m for m in METHODS if m != "Dogbox"]))
        return {"scheme": scheme, "method": method, "max_nfev": draw(st.integers(2, 5)), "kind": kind,
                "text": draw(st.sampled_from(["line", "line", "empty", "multi", "leading_break"])),
                "k_frac": draw(st.floats(0, 1)), "verbose": draw(st.integers(0, 3)) == 0,
                "raise_exception": draw(st.booleans()) if kind == "raise_at" else False}

    return cases()


PROPERTY = Property(
    id="C15",
    level="fault_enumeration",
    rule=(
        "For small schemes built on a harness megacomplex with a fault plan (1 or 2 datasets, linked/unlinked, VP/NNLS, penalty, index dependent): the "
        "fault-free run is executed to learn its number N of model evaluations; then a fault is injected at EVERY k = 1..N (custom exception object, "
        "NaN matrix, Inf matrix) and as a persistent region fault (raise whenever a rate leaves a region), for each of the three methods and the "
        "verbose / raise_exception combinations; plus every kind of invalid scheme. Non-trivial = 1 < k < N (classified by phase: first "
        "evaluation, during least squares, post-fit evaluations)."
    ),
    subs=[
        Sub("faults", prop=prop, enumerate=enumerate_cases, exhaustive=True, doc="fault position k enumerated exhaustively for each scheme/method"),
        Sub("faults_random", prop=prop, strategy=random_fault_cases, budget={"quick": 320, "thorough": 20000},
            doc="random schemes of the C02 space (every megacomplex faulting), fault position drawn as a fraction of the fault-free run"),
        Sub("invalid", prop=prop_invalid, enumerate=invalid_cases, exhaustive=True),
    ],
    assumptions=[
        "a 'model evaluation' is one calculate_matrix call of the faulting megacomplex (1 or 2 per objective evaluation)",
        "the log of the harness megacomplex defines which parameter vectors were evaluated without error",
        "non-finite matrix faults are not injected under Dogbox: numpy.linalg.lstsq (LAPACK dgelsd) inside scipy's dogbox can loop forever on a "
        "non-finite Jacobian (observed; outside pyglotaran, not interruptible from Python)",
    ],
)
