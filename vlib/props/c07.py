"""C07 - oscillation, artifact and spectral basis functions obey their definitions.

Oracles (``vlib/oracle/c07.py``, mpmath at 50 digits, written from the property statement):

* DOAS without IRF: Re / Im of exp(-gamma t - i omega t), omega = 0.03 * 2 pi * nu.
* DOAS / PFID with a Gaussian IRF: ``C * sum_g s_g conv_g(t - mu_g) / sum_g s_g`` with the causal (DOAS) resp.
  anti-causal (PFID, frequency relative to the probe wavenumber) convolution in closed form (complex erfc, validated
  against ``mpmath.quad`` of the defining integral at start-up).  The constant ``C`` is *not* asserted: it is estimated
  once per megacomplex type on a canonical case (offset-invariant affine fit) and required everywhere.
* Effective IRF position per index: centre - shift_i + dispersion, the decay model's rule; the decay model of the
  *same dataset* is evaluated by the code and compared with the closed form at that position in every case.
* Coherent artifact: unit-height Gaussian at that position and its first / second derivative (``mpmath.diff``).
* Spectral shapes: documented Gaussian / skewed-Gaussian formulae, evaluated on the *interval* of arguments that
  floating point rounding of the axis admits (so decisions at theta = 0 are left open).
* Whole dataset ("the same effective IRF position per index as the decay model of the dataset"): several IRF-using
  megacomplexes in one dataset, every list order, evaluated repeatedly on one filled dataset model through
  ``MatrixProvider.calculate_dataset_matrix``; each column must be the column of its megacomplex evaluated alone on a
  freshly built model (state kept on the filled IRF / dataset model between megacomplexes or calls must not leak).

A failing case is bucketed under the clause of its root cause: the verdict always comes from "code != oracle";
alternative hypotheses (constant offset, opposite shift sign) are only used to choose the clause id.
"""

from __future__ import annotations

import math

import numpy as np
from hypothesis import strategies as st

from vlib.core import Discard
from vlib.core import Property
from vlib.core import Sub
from vlib.core import Violation
from vlib.core import check
from vlib.core import expect_ok

EPS = float(np.finfo(float).eps)
W2A = 0.03 * 2 * math.pi  # cm^-1 -> rad/ps
TOL_REL = 1e-9  # of the true column scale, inside the region the code evaluates
TOL_TRUNC = 5e-6  # of the true column scale, where the code truncates to zero (beyond 5 sigma)
TOL_VANISH = 1e-5
# region in which the literal exp()*(1+erf()) kernels were measured to be accurate to 1e-9 of the column scale
D8_REGION = {"sigma_gamma": 1.5, "sigma_k": 30.0}

_MODELS: dict = {}
_CONST: dict = {}


# ------------------------------------------------------------------------------------------
# building glotaran objects from cases


def _model_class():
    if "cls" not in _MODELS:
        from glotaran.builtin.megacomplexes.coherent_artifact import CoherentArtifactMegacomplex
        from glotaran.builtin.megacomplexes.damped_oscillation import DampedOscillationMegacomplex
        from glotaran.builtin.megacomplexes.decay import DecayParallelMegacomplex
        from glotaran.builtin.megacomplexes.pfid import PFIDMegacomplex
        from glotaran.builtin.megacomplexes.spectral import SpectralMegacomplex
        from glotaran.model import Model

        _MODELS["cls"] = Model.create_class_from_megacomplexes(
            [DampedOscillationMegacomplex, PFIDMegacomplex, DecayParallelMegacomplex, CoherentArtifactMegacomplex]
        )
        _MODELS["spectral"] = Model.create_class_from_megacomplexes([SpectralMegacomplex])
    return _MODELS["cls"]


class _Params:
    def __init__(self):
        self.rows = []

    def add(self, value) -> str:
        self.rows.append([str(len(self.rows) + 1), float(value), {"vary": False, "non-negative": False}])
        return f"p.{len(self.rows)}"

    def build(self):
        from glotaran.parameter import Parameters

        return Parameters.from_dict({"p": self.rows})


def _irf_spec(irf, P):
    t = irf["type"]
    spec = {"type": t}
    if t in ("gaussian", "spectral-gaussian"):
        spec["center"] = P.add(irf["center"][0])
        spec["width"] = P.add(irf["width"][0])
    else:
        spec["center"] = [P.add(c) for c in irf["center"]]
        spec["width"] = [P.add(w) for w in irf["width"]]
    if irf.get("scale") is not None:
        spec["scale"] = [P.add(s) for s in irf["scale"]]
    if irf.get("shift") is not None:
        spec["shift"] = [P.add(s) for s in irf["shift"]]
    if t.startswith("spectral"):
        spec["dispersion_center"] = P.add(irf["dispersion_center"])
        spec["center_dispersion_coefficients"] = [P.add(c) for c in irf.get("center_disp") or []]
        spec["width_dispersion_coefficients"] = [P.add(c) for c in irf.get("width_disp") or []]
        spec["model_dispersion_with_wavenumber"] = bool(irf.get("wavenumber"))
    return spec


def build_time_model(case):
    """dataset with [main megacomplex, decay-parallel twin] sharing the IRF (if any)."""
    from glotaran.model import fill_item

    cls = _model_class()
    P = _Params()
    kind = case["kind"]
    mcs = {}
    if kind in ("doas", "pfid"):
        osc = case["osc"]
        mcs["main"] = {
            "type": "damped-oscillation" if kind == "doas" else "pfid",
            "labels": [o["label"] for o in osc],
            "frequencies": [P.add(o["nu"]) for o in osc],
            "rates": [P.add(o["gamma"]) for o in osc],
        }
    elif kind == "artifact":
        mcs["main"] = {"type": "coherent-artifact", "order": int(case["order"])}
        if case.get("own_width") is not None:
            mcs["main"]["width"] = P.add(case["own_width"])
    else:
        raise ValueError(kind)
    names = ["main"]
    spec = {"megacomplex": mcs, "dataset": {"d": {"megacomplex": names}}}
    if case.get("irf") is not None:
        spec["irf"] = {"i": _irf_spec(case["irf"], P)}
        spec["dataset"]["d"]["irf"] = "i"
        mcs["dec"] = {"type": "decay-parallel", "compartments": ["s1"], "rates": [P.add(case["decay_rate"])]}
        names.append("dec")
    model = cls(**spec)
    params = P.build()
    dm = fill_item(model.dataset["d"], model, params)
    return model, params, dm


# ------------------------------------------------------------------------------------------
# strategies


def _log_uniform(lo, hi):
    return st.floats(math.log10(lo), math.log10(hi)).map(lambda x: float(10.0**x))


@st.composite
def irf_cases(draw, gaxis, allow_plain=True):
    """A Gaussian IRF of any documented kind with 1-3 Gaussians, shift, dispersion."""
    kinds = ["gaussian", "multi-gaussian", "spectral-gaussian", "spectral-multi-gaussian"]
    t = draw(st.sampled_from(kinds if allow_plain else kinds[2:] + ["shifted"]))
    want_shift = False
    if t == "shifted":
        t = draw(st.sampled_from(kinds[:2]))
        want_shift = True
    sigma = draw(_log_uniform(1e-3, 5.0))
    c0 = draw(st.floats(-2.0, 2.0)) * max(1.0, 4 * sigma)
    n_g = 1
    if "multi" in t and draw(st.integers(0, 3)) > 0:
        n_g = draw(st.integers(2, 3))
    pattern = draw(st.sampled_from(["nn", "1n", "n1"])) if n_g > 1 else "nn"
    centers = [c0] + [c0 + draw(st.floats(-3.0, 3.0)) * sigma for _ in range(n_g - 1)]
    widths = [sigma] + [min(5.0, max(1e-3, sigma * draw(st.floats(0.5, 2.0)))) for _ in range(n_g - 1)]
    if pattern == "1n":
        centers = centers[:1]
    elif pattern == "n1":
        widths = widths[:1]
    irf = {"type": t, "center": centers, "width": widths, "scale": None, "shift": None}
    if n_g > 1 and draw(st.booleans()):
        irf["scale"] = [draw(st.floats(0.2, 3.0)) for _ in range(n_g)]
    if want_shift or draw(st.integers(0, 2)) == 0:
        irf["shift"] = [draw(st.sampled_from([0.0, 1.0, -1.0])) * draw(st.floats(0.05, 3.0)) * sigma for _ in gaxis]
    if t.startswith("spectral"):
        wn = draw(st.booleans())
        irf["wavenumber"] = wn
        lc = draw(st.floats(min(gaxis) * 0.8, max(gaxis) * 1.2))
        irf["dispersion_center"] = lc
        dmax = max(abs(1e3 / g - 1e3 / lc) if wn else abs(g - lc) / 100 for g in gaxis) or 1.0
        order = draw(st.integers(0, 3))
        irf["center_disp"] = [draw(st.floats(-2.0, 2.0)) * sigma / dmax ** (j + 1) for j in range(order)]
        worder = draw(st.integers(0, 2))
        wmin = min(widths)
        irf["width_disp"] = [draw(st.floats(-0.4, 0.4)) * wmin / max(1, worder) / dmax ** (j + 1) for j in range(worder)]
    return irf


def _irf_extent(irf, gaxis):
    """(lowest position, highest position, smallest width, largest width) over indices and Gaussians (floats)."""
    import mpmath as mp

    from vlib.oracle import c07 as O

    mp.mp.dps = O.DPS
    idx = list(range(len(gaxis))) if (irf.get("shift") is not None or irf["type"].startswith("spectral")) else [None]
    pos, wid = [], []
    for i in idx:
        gs, _ = O.effective_irf(irf, gaxis, i)
        pos += [float(g[0]) for g in gs]
        wid += [float(g[1]) for g in gs]
    return min(pos), max(pos), min(wid), max(wid)


@st.composite
def time_axis(draw, lo, hi, smin, smax, omega_max, gamma_abs, anticausal=False):
    """strictly increasing time axis covering the pulse, its far side, and some of the free evolution."""
    sgn = -1.0 if anticausal else 1.0
    ref = lo if not anticausal else hi
    us = draw(st.lists(st.one_of(st.floats(-8, 8), st.floats(-8, 8), st.floats(-30, 60), st.sampled_from([-5.0, 5.0, 0.0, -6.5, 7.0])), min_size=6, max_size=20))
    sig = draw(st.sampled_from([smin, smax]))
    ts = [ref + sgn * u * sig for u in us]
    span = min(40.0, max(10 * smax, 3.0 / (gamma_abs + 0.05)))
    ts += [(hi if not anticausal else lo) + sgn * (5 * smax + v * span) for v in draw(st.lists(st.floats(0, 1), min_size=0, max_size=8))]
    # one point well on the side where the signal has to vanish
    ts.append((lo - 7.5 * smax) if not anticausal else (hi + 7.5 * smax))
    if draw(st.booleans()):
        n = draw(st.integers(5, 25))
        step = draw(st.floats(0.1, 1.0)) * (smin if draw(st.booleans()) else smax)
        if omega_max > 1e-9:
            step = min(step, 0.8 / (0.06 * omega_max))
        ts += [ref - sgn * 2 * sig + j * step for j in range(n)]
    ts = sorted({round(float(x), 9) + 0.0 for x in ts})
    if omega_max > 1e-9 and len(ts) >= 2:
        need = 0.8 / (0.06 * omega_max)
        if min(b - a for a, b in zip(ts, ts[1:])) > need:
            j = draw(st.integers(0, len(ts) - 2))
            ts.append(round(ts[j] + min(need, 0.5 * (ts[j + 1] - ts[j])), 10))
            ts = sorted(set(ts))
    return ts


@st.composite
def osc_list(draw, sigma_max, regime, pfid=False, gaxis=None):
    n = draw(st.integers(1, 3))
    out = []
    for j in range(n):
        if regime == "well":
            sg = draw(st.one_of(st.just(0.0), st.floats(0, 1.45))) if not pfid else draw(st.floats(1e-3, 1.45))
            sw = draw(st.one_of(st.just(0.0), st.floats(0, 29.0), st.floats(0, 3.0)))
            gamma = sg / sigma_max
            dnu = min(2000.0, sw / sigma_max / W2A)
        else:
            gamma = draw(st.one_of(st.just(0.0), _log_uniform(1e-3, 1e3))) if not pfid else draw(_log_uniform(1e-3, 1e3))
            dnu = draw(st.one_of(st.just(0.0), _log_uniform(1e-3, 2000.0), st.floats(0, 2000.0)))
        if pfid:
            gref = draw(st.sampled_from(gaxis))
            if regime == "well":
                # every probe wavenumber has to stay in the well-behaved region
                spread = max(abs(g - gref) for g in gaxis)
                dnu = max(0.0, dnu - spread)
            nu = gref + draw(st.sampled_from([1.0, -1.0])) * dnu
            out.append({"label": "abc"[j], "nu": float(nu), "gamma": -float(gamma)})
        else:
            out.append({"label": "abc"[j], "nu": float(dnu), "gamma": float(gamma)})
    return out


TIME_REPRS = st.fixed_dictionaries({"order": st.sampled_from(["ascending", "ascending", "descending", "shuffled"]), "seed": st.integers(0, 10**6)})


def _time_perm(case, n):
    rep = case.get("time_repr") or {}
    if rep.get("order") == "descending":
        return np.arange(n)[::-1]
    if rep.get("order") == "shuffled":
        return np.random.default_rng([rep.get("seed", 0), n]).permutation(n)
    return np.arange(n)


@st.composite
def doas_irf_cases(draw):
    ng = draw(st.integers(1, 3))
    gaxis = sorted({float(draw(st.floats(300, 800))) for _ in range(ng)})
    irf = draw(irf_cases(gaxis))
    lo, hi, smin, smax = _irf_extent(irf, gaxis)
    regime = draw(st.sampled_from(["well", "well", "any"]))
    osc = draw(osc_list(smax, regime))
    om = max(o["nu"] for o in osc) * W2A
    times = draw(time_axis(lo, hi, smin, smax, om, min(o["gamma"] for o in osc)))
    case = {"kind": "doas", "gaxis": gaxis, "irf": irf, "osc": osc, "times": times, "regime": regime,
            "decay_rate": float(min(1e3, max(1e-3, 0.5 / smax))), "time_repr": draw(TIME_REPRS)}
    if len(osc) >= 2 and draw(st.integers(0, 4)) == 0:
        # rates of mixed sign next to each other (rising oscillations are convolved anti-causally): no closed form is claimed
        # for them here, but what a label denotes must not depend on where it stands in the list
        k = draw(st.integers(0, len(osc) - 1))
        if osc[k]["gamma"] > 0:
            osc[k]["gamma"] = -osc[k]["gamma"]
            case["mixed_sign"] = True
    return case


@st.composite
def pfid_cases(draw):
    ng = draw(st.integers(1, 3))
    g0 = draw(st.floats(1000, 3000))
    gaxis = sorted({float(g0 + draw(st.floats(0, 60))) for _ in range(ng)})
    irf = draw(irf_cases(gaxis))
    lo, hi, smin, smax = _irf_extent(irf, gaxis)
    regime = draw(st.sampled_from(["well", "well", "any"]))
    osc = draw(osc_list(smax, regime, pfid=True, gaxis=gaxis))
    times = draw(time_axis(lo, hi, smin, smax, 0.0, min(abs(o["gamma"]) for o in osc), anticausal=True))
    return {"kind": "pfid", "gaxis": gaxis, "irf": irf, "osc": osc, "times": times, "regime": regime,
            "decay_rate": float(min(1e3, max(1e-3, 0.5 / smax))), "time_repr": draw(TIME_REPRS)}


@st.composite
def artifact_cases(draw):
    ng = draw(st.integers(1, 3))
    gaxis = sorted({float(draw(st.floats(300, 800))) for _ in range(ng)})
    irf = draw(irf_cases(gaxis))
    lo, hi, smin, smax = _irf_extent(irf, gaxis)
    own = draw(st.one_of(st.none(), _log_uniform(1e-3, 5.0)))
    w = own if own is not None else smax
    times = draw(time_axis(lo, hi, min(smin, w), max(smax, w), 0.0, 1.0))
    return {"kind": "artifact", "gaxis": gaxis, "irf": irf, "order": draw(st.integers(1, 3)), "own_width": own,
            "times": times, "decay_rate": float(min(1e3, max(1e-3, 0.5 / smax)))}


@st.composite
def doas_noirf_cases(draw):
    n = draw(st.integers(1, 3))
    osc = []
    for j in range(n):
        nu = draw(st.one_of(st.just(0.0), _log_uniform(1e-3, 2000.0), st.floats(0, 2000.0)))
        gamma = draw(st.one_of(st.just(0.0), _log_uniform(1e-3, 50.0))) * draw(st.sampled_from([1.0, 1.0, -1.0]))
        osc.append({"label": "abc"[j], "nu": float(nu), "gamma": float(gamma)})
    om = max(o["nu"] for o in osc) * W2A
    gmax = max(abs(o["gamma"]) for o in osc)
    span = min(50.0, 30.0 / gmax) if gmax > 0 else 50.0
    ts = [draw(st.floats(-1, 1)) * span for _ in range(draw(st.integers(2, 25)))] + [0.0]
    if draw(st.booleans()):
        step = draw(st.floats(1e-3, 0.5))
        if om > 1e-9:
            step = min(step, 0.8 / (0.06 * om))
        t0 = draw(st.floats(-1, 1)) * span / 2
        ts += [t0 + j * step for j in range(draw(st.integers(3, 30)))]
    ts = sorted({round(float(x), 9) + 0.0 for x in ts})
    if len(ts) < 2:
        ts.append(ts[0] + 0.01)
    if om > 1e-9:
        need = 0.8 / (0.06 * om)
        if min(b - a for a, b in zip(ts, ts[1:])) > need:
            j = draw(st.integers(0, len(ts) - 2))
            ts.append(round(ts[j] + min(need, 0.5 * (ts[j + 1] - ts[j])), 10))
            ts = sorted(set(ts))
    return {"kind": "doas", "gaxis": [1.0, 2.0], "irf": None, "osc": osc, "times": ts}


SHAPE_SCALES = [1.0, 1.0, 2.5, 0.5, 1e-3, 1e7]


@st.composite
def shape_cases(draw):
    inverted = draw(st.booleans())
    scale = draw(st.sampled_from(SHAPE_SCALES))
    if not inverted and scale == 1e7:
        scale = 2.0
    n = draw(st.integers(1, 3))
    shapes, xs = [], []
    for j in range(n):
        # shape parameters live on the *transformed* axis x
        x0 = draw(st.one_of(st.floats(1.0, 50.0), st.floats(300.0, 2e4)))
        fwhm = x0 * draw(_log_uniform(1e-3, 0.5))
        sh = {"label": f"s{j + 1}", "type": "gaussian", "amplitude": draw(st.one_of(st.none(), st.floats(0.1, 10.0), st.floats(-10.0, -0.1))),
              "location": float(x0), "width": float(fwhm)}
        if draw(st.booleans()):
            sh["type"] = "skewed-gaussian"
            b = draw(st.one_of(_log_uniform(1e-9, 1e-6), _log_uniform(1e-8, 1e-2), _log_uniform(1e-2, 20.0), st.sampled_from([0.5, 0.25, 1.0, 2.0, 1.2e-8, 0.9e-8]),
                                _log_uniform(1e-18, 1e-9), st.sampled_from([1e-12, 1e-15, 1e-17, 1e-30, 1e-300])))
            sh["skewness"] = float(b * draw(st.sampled_from([1.0, -1.0])))
        shapes.append(sh)
        # targets: location, half maximum, generic points
        xs += [x0, x0 + fwhm / 2, x0 - fwhm / 2]
        xs += [x0 + fwhm * u for u in draw(st.lists(st.floats(-3, 3), min_size=2, max_size=8))]
        if sh["type"] == "skewed-gaussian":
            b = sh["skewness"]
            xz = x0 - fwhm / (2 * b)  # theta = 0
            xs += [xz]
            for _ in range(draw(st.integers(1, 4))):
                d = draw(_log_uniform(1e-15, 1.0)) * draw(st.sampled_from([1.0, -1.0]))
                xs.append(xz + d * abs(fwhm / (2 * b)))
            xs += [xz - draw(st.floats(0, 2)) * fwhm * np.sign(b), xz + draw(st.floats(0, 2)) * fwhm * np.sign(b)]
    xs = [float(x) for x in xs if math.isfinite(x) and 1e-3 < x < 1e9]
    axis = sorted({(scale / x) if inverted else (x / scale) for x in xs})
    return {"inverted": inverted, "scale": float(scale), "shapes": shapes, "axis": [float(a) for a in axis]}


# ------------------------------------------------------------------------------------------
# DOAS without IRF


def prop_doas_noirf(case):
    import mpmath as mp

    from vlib.oracle import c07 as O

    mp.mp.dps = O.DPS
    times = np.array(case["times"], dtype=float)
    _no_fold(case, times)
    _, _, dm = build_time_model(case)
    with expect_ok("doas_noirf.call"):
        labels, mat = dm.megacomplex[0].calculate_matrix(dm, np.array(case["gaxis"]), times)
    mat = np.asarray(mat)
    n = len(case["osc"])
    check(mat.shape == (times.size, 2 * n), "doas_noirf.shape", lambda: f"{mat.shape}")
    want = [f"{o['label']}_cos" for o in case["osc"]] + [f"{o['label']}_sin" for o in case["osc"]]
    check(sorted(labels) == sorted(want), "doas_noirf.labels", lambda: f"{labels}")
    ref = np.zeros((times.size, n), dtype=complex)
    tol = np.zeros((times.size, n))
    for j, o in enumerate(case["osc"]):
        k = mp.mpc(o["gamma"], O.omega_of(o["nu"]))
        for a, t in enumerate(times):
            v = mp.exp(-k * mp.mpf(float(t)))
            ref[a, j] = complex(v)
            # rounding of the complex argument of exp: |k t| eps, plus a few ulp
            tol[a, j] = abs(ref[a, j]) * (16 * EPS * (1 + abs(o["gamma"] * t) + abs(o["nu"] * W2A * t))) + 1e-300

    def col(lbl):
        return mat[:, list(labels).index(lbl)]

    bad = []
    for j, o in enumerate(case["osc"]):
        ec = np.abs(col(f"{o['label']}_cos") - ref[:, j].real)
        es = np.abs(col(f"{o['label']}_sin") - ref[:, j].imag)
        if not (np.all(ec <= tol[:, j]) and np.all(es <= tol[:, j])):
            bad.append((o["label"], float(np.nanmax(ec)), float(np.nanmax(es))))
    if bad:
        # clause selection only: do the columns hold the right functions under the wrong labels?
        flat = np.concatenate([ref.real, ref.imag], axis=1)
        tl = np.concatenate([tol, tol], axis=1)
        perm_ok = all(any(np.all(np.abs(mat[:, c] - flat[:, r]) <= tl[:, r]) for c in range(2 * n)) for r in range(2 * n))
        if perm_ok and n > 1:
            raise Violation("doas_noirf.column_labels", f"columns are the right quadratures but not under their labels {labels}: (label, max |cos err|, max |sin err|)={bad}")
        sign_flip = all(np.all(np.abs(col(f"{o['label']}_sin") + ref[:, j].imag) <= tol[:, j]) for j, o in enumerate(case["osc"]))
        raise Violation("doas_noirf.quadratures", f"(label, max |cos err|, max |sin err|)={bad} sine sign flipped={sign_flip}")
    tags = [f"n{n}", "neg_rate" if any(o["gamma"] < 0 for o in case["osc"]) else "pos_rate"]
    return {"nontrivial": n >= 2 or any(o["gamma"] < 0 for o in case["osc"]), "tags": tags}


def _no_fold(case, times):
    if times.size < 2:
        raise Discard("time axis with < 2 points")
    dmin = float(np.min(np.diff(times)))
    if dmin <= 0:
        raise Discard("time axis not strictly increasing")
    fmax = 1 / (2 * 0.03 * dmin)
    if any(o["nu"] * W2A >= 0.95 * fmax for o in case["osc"]):
        raise Discard("frequency would be folded by the megacomplex (outside the statement)")


# ------------------------------------------------------------------------------------------
# DOAS / PFID with Gaussian IRF


def _indices(case):
    irf = case["irf"]
    if case["kind"] == "pfid" or irf.get("shift") is not None or irf["type"].startswith("spectral"):
        # PFID: the oscillation frequency is relative to the probe wavenumber, so every index has its own matrix
        return list(range(len(case["gaxis"])))
    return [None]


def d8_measures(case):
    """(max sigma*|gamma|, max sigma*max(|gamma|,|omega|)) over indices, Gaussians, oscillations."""
    import mpmath as mp

    from vlib.oracle import c07 as O

    mp.mp.dps = O.DPS
    sg, sk = 0.0, 0.0
    for i in _indices(case):
        gs, _ = O.effective_irf(case["irf"], case["gaxis"], i)
        for _, w, _ in gs:
            for o in case["osc"]:
                om = o["nu"] * W2A if case["kind"] == "doas" else abs(case["gaxis"][i if i is not None else 0] - o["nu"]) * W2A
                sg = max(sg, float(w) * abs(o["gamma"]))
                sk = max(sk, float(w) * max(abs(o["gamma"]), om))
    return sg, sk


def in_d8_region(case, params=None):
    p = {**D8_REGION, **(params or {})}
    sg, sk = d8_measures(case)
    return sg > p["sigma_gamma"] or sk > p["sigma_k"]


def _osc_reference(case, times, sign_shift=-1):
    """complex oracle (I, T, n), true scale (I, n), truncated mask (I, T), conditioning (I, T, n).

    sign_shift=-1: the decay model's position  centre - shift;  +1: the opposite convention (clause selection only).
    """
    import mpmath as mp

    from vlib.oracle import c07 as O

    mp.mp.dps = O.DPS
    causal = case["kind"] == "doas"
    conv = O.causal_conv if causal else O.anticausal_conv
    idx = _indices(case)
    n = len(case["osc"])
    ref = np.zeros((len(idx), times.size, n), dtype=complex)
    scale = np.zeros((len(idx), n))
    trunc = np.zeros((len(idx), times.size), dtype=bool)
    before = np.ones((len(idx), times.size), dtype=bool)
    cond = np.zeros((len(idx), times.size, n))
    mt = [mp.mpf(float(t)) for t in times]
    for a, i in enumerate(idx):
        gs, shift = O.effective_irf(case["irf"], case["gaxis"], i)
        if sign_shift == +1:
            gs = [(mu + 2 * shift, w, s) for mu, w, s in gs]
        ssum = sum(s for _, _, s in gs)
        for mu, w, _ in gs:
            d = np.array([float((t - mu) / w) for t in mt])
            if causal:
                trunc[a] |= d <= -5 * (1 - 1e-9)
                before[a] &= d <= -5
            else:
                trunc[a] |= d >= 5 * (1 - 1e-9)
                before[a] &= d >= 5
        for j, o in enumerate(case["osc"]):
            if causal:
                k = mp.mpc(o["gamma"], O.omega_of(o["nu"]))
            else:
                k = mp.mpc(o["gamma"], O.omega_of(mp.mpf(case["gaxis"][i if i is not None else 0]) - mp.mpf(o["nu"])))
            for b, t in enumerate(mt):
                v = sum((s * conv(t - mu, k, w) for mu, w, s in gs), mp.mpc(0)) / ssum
                ref[a, b, j] = complex(v)
            sc = float(np.max(np.abs(ref[a, :, j]))) if times.size else 0.0
            for mu, w, _ in gs:
                for u in np.linspace(-5, 5, 21):
                    v = sum((s * conv(mu + w * mp.mpf(float(u)) - m2, k, w2) for m2, w2, s in gs), mp.mpc(0)) / ssum
                    sc = max(sc, float(abs(v)))
            scale[a, j] = sc
            wmin = min(float(w) for _, w, _ in gs)
            pos = max(abs(float(mu)) for mu, _, _ in gs) + abs(float(shift))
            cond[a, :, j] = 16 * EPS * (np.abs(times) + pos) * (float(abs(k)) + 1.0 / wmin)
    return ref, scale, trunc, before, cond


def _stack(ref, C):
    return np.concatenate([C * ref.real, C * ref.imag], axis=-1)


def _code_matrix(case, dm, times, clause_prefix):
    idx = _indices(case)
    n = len(case["osc"])
    gaxis = np.array(case["gaxis"], dtype=float)
    perm = _time_perm(case, times.size)  # the axis as handed over (descending / acquisition order); rows are put back below
    if times.size >= 3 and times.max() > times.min():
        # first a decoy: another time axis of the same length and end points (quadratic spacing) - whatever the code remembers
        # about an axis must identify it
        lo_, hi_ = float(times.min()), float(times.max())
        decoy = lo_ + (hi_ - lo_) * ((times - lo_) / (hi_ - lo_)) ** 2
        uniform = np.linspace(lo_, hi_, times.size)
        if not np.allclose(np.sort(times), uniform, rtol=0, atol=1e-9 * (hi_ - lo_)):
            decoy = uniform  # (the coarsest sampling with these end points: a remembered sampling interval would fold too early)
        try:
            with np.errstate(all="ignore"):
                dm.megacomplex[0].calculate_matrix(dm, gaxis, decoy)
        except Exception:  # noqa: BLE001
            pass
    with np.errstate(all="ignore"):
        with expect_ok(f"{clause_prefix}.call"):
            labels, mat = dm.megacomplex[0].calculate_matrix(dm, gaxis, times[perm].copy())
    mat = np.asarray(mat, dtype=float)
    if mat.ndim >= 2 and mat.shape[-2] == times.size:
        back = np.empty_like(mat)
        back[..., perm, :] = mat
        mat = back
    want = (times.size, 2 * n) if idx == [None] else (gaxis.size, times.size, 2 * n)
    check(mat.shape == want, f"{clause_prefix}.shape", lambda: f"{mat.shape} != {want}")
    want_l = [f"{o['label']}_cos" for o in case["osc"]] + [f"{o['label']}_sin" for o in case["osc"]]
    check(sorted(labels) == sorted(want_l), f"{clause_prefix}.labels", lambda: f"{labels}")
    order = [list(labels).index(x) for x in want_l]
    mat = mat[..., order]
    return mat


def _decay_position_check(case, dm, times, clause):
    """the decay model of the same dataset sits at centre - shift_i + dispersion (closed form, C05)."""
    import mpmath as mp

    from vlib.oracle import c07 as O

    idx = _indices(case)
    gaxis = np.array(case["gaxis"], dtype=float)
    with expect_ok(clause + "_call"):
        _, dmat = dm.megacomplex[1].calculate_matrix(dm, gaxis, times)
    dmat = np.asarray(dmat, dtype=float)
    if dmat.ndim == 2:
        dmat = dmat[None]
    # a handful of points around each pulse is enough to pin the position
    for a, i in enumerate(idx):
        gs, _ = O.effective_irf(case["irf"], case["gaxis"], i)
        near = [b for b, t in enumerate(times) if any(abs(float((mp.mpf(float(t)) - mu) / w)) <= 6 for mu, w, _ in gs)][:8]
        for b in near:
            r = float(O.decay_column(float(times[b]), case["decay_rate"], gs))
            got = dmat[a if dmat.shape[0] > 1 else 0, b, 0]
            check(abs(got - r) <= 1e-9 + 1e-7 * abs(r), clause,
                  lambda: f"decay column at index {i} t={times[b]!r}: code {got!r} closed form at centre-shift+dispersion {r!r}")


def _constant(kind):
    """the proportionality constant of the megacomplex type, estimated once on a canonical case."""
    if kind in _CONST:
        return _CONST[kind]
    g = 0.1 if kind == "doas" else -0.5
    case = {"kind": kind, "gaxis": [1500.0], "irf": {"type": "gaussian", "center": [0.3], "width": [0.1], "scale": None, "shift": None},
            "osc": [{"label": "a", "nu": 25.0 if kind == "doas" else 1480.0, "gamma": g}], "decay_rate": 1.0}
    # inside the region the kernels evaluate (|t - centre| < 4 sigma on the truncated side)
    times = np.linspace(-0.1, 3.0, 41) if kind == "doas" else np.linspace(-3.0, 0.7, 41)
    _, _, dm = build_time_model(case)
    mat = _code_matrix(case, dm, times, f"{kind}_irf.canonical" if kind == "doas" else "pfid.canonical")
    mat = mat.reshape(-1, times.size, 2)[0]
    ref, scale, *_ = _osc_reference(case, times)
    o = np.stack([ref[0, :, 0].real, ref[0, :, 0].imag], axis=1)
    check(bool(np.all(np.isfinite(mat))), _cl(kind, "constant_canonical"), "non-finite canonical matrix")
    oc, mc = o - o.mean(axis=0), mat - mat.mean(axis=0)
    C = float(np.sum(oc * mc) / np.sum(oc * oc))
    res = float(np.max(np.abs(mc - C * oc)))
    check(res <= 1e-9 * abs(C) * scale[0, 0], _cl(kind, "constant_canonical"),
          lambda: f"canonical case is not proportional to the convolution: C={C!r} residual={res:.3e}")
    _CONST[kind] = C
    return C


def _cl(kind, what):
    return f"{'doas_irf' if kind == 'doas' else 'pfid'}.{what}"


def prop_osc_irf(case):
    kind = case["kind"]
    times = np.array(case["times"], dtype=float)
    pre = "doas_irf" if kind == "doas" else "pfid"
    if len(case["osc"]) >= 2:
        # what a label denotes does not depend on where the oscillation stands in the list
        import copy as _copy

        rev = _copy.deepcopy(case)
        rev["osc"] = rev["osc"][::-1]
        _, _, dm_a = build_time_model(case)
        _, _, dm_b = build_time_model(rev)
        a = _code_matrix(case, dm_a, times, pre + ".order")
        b = _code_matrix(rev, dm_b, times, pre + ".order")
        n_ = len(case["osc"])
        idx = [n_ - 1 - j for j in range(n_)]
        b = b[..., idx + [n_ + j for j in idx]]  # back into the label order of ``case``
        fin = np.isfinite(a) & np.isfinite(b)
        scale_ = max(float(np.abs(a[fin]).max()) if fin.any() else 0.0, 1e-300)
        check(bool(np.array_equal(np.isfinite(a), np.isfinite(b))) and float(np.abs(a[fin] - b[fin]).max() if fin.any() else 0.0) <= 1e-12 * scale_,
              _cl(kind, "column_depends_on_list_order"),
              lambda: f"columns by label differ by {float(np.abs(a[fin] - b[fin]).max()):.3e} (scale {scale_:.3e}) when the list of oscillations is reversed; rates {[o['gamma'] for o in case['osc']]}")
    if case.get("mixed_sign"):
        return {"nontrivial": True, "tags": [kind, "mixed_sign_rates_order_check_only", f"time_axis_{(case.get('time_repr') or {}).get('order', 'ascending')}"]}
    if kind == "doas":
        _no_fold(case, times)
        if any(o["gamma"] < 0 for o in case["osc"]):
            raise Discard("negative DOAS rate with IRF is outside the statement")
    elif any(o["gamma"] >= 0 for o in case["osc"]):
        raise Discard("PFID rates are negative")
    _, _, dm = build_time_model(case)
    C = _constant(kind)
    _decay_position_check(case, dm, times, _cl(kind, "decay_position_formula"))
    mat = _code_matrix(case, dm, times, "doas_irf" if kind == "doas" else "pfid")
    n = len(case["osc"])
    # a refused evaluation leaves no trace: an evaluation of the same shape that the code gives up half-way (floating point
    # errors raised, one rate of the other sign, axis far before the pulse) and then the same evaluation again, bit for bit
    import copy as _copy

    bad = _copy.deepcopy(case)
    bad["osc"][-1]["gamma"] = -bad["osc"][-1]["gamma"]
    wmax = max(case["irf"]["width"])
    refused = False
    try:
        _, _, bad_dm = build_time_model(bad)
        with np.errstate(all="raise"):
            c0 = float(case["irf"]["center"][0])
            bad_times = np.linspace(c0 + 10.0 * wmax, c0 - 60.0 * wmax, times.size)  # (descending: the rows written first are the early ones)
            bad_dm.megacomplex[0].calculate_matrix(bad_dm, np.array(case["gaxis"], dtype=float), bad_times)
    except Exception:  # noqa: BLE001
        refused = True
    again = _code_matrix(case, dm, times, "doas_irf" if kind == "doas" else "pfid")
    check(np.array_equal(mat, again, equal_nan=True), _cl(kind, "depends_on_an_earlier_refused_evaluation"),
          lambda: f"refused={refused}: max difference {np.nanmax(np.abs(mat - again)):.3e}")
    mat_i = mat[None] if mat.ndim == 2 else mat
    region = in_d8_region(case)
    ref, scale, trunc, before, cond = _osc_reference(case, times)

    def expected(reference):
        ref_, scale_, trunc_, _, cond_ = reference
        sc_ = np.concatenate([scale_, scale_], axis=-1)[:, None, :]
        cond2 = np.concatenate([cond_, cond_], axis=-1)
        return _stack(ref_, C), sc_ * abs(C) * (TOL_REL + cond2 + TOL_TRUNC * trunc_[:, :, None]), sc_

    want, tol, sc2 = expected((ref, scale, trunc, before, cond))

    def explain(w, tl):
        """None if the code matches ``w``; else ('offset', b) if it matches up to one constant; else ('no', worst)."""
        e = mat_i - w
        if np.all(np.abs(e) <= tl):
            return None
        b = float(np.median(e))
        if np.all(np.abs(e - b) <= tl):
            return ("offset", b)
        r = np.abs(e) / np.where(tl > 0, tl, 1e-300)
        p = np.unravel_index(int(np.argmax(np.nan_to_num(r, nan=np.inf))), r.shape)
        return ("no", p)

    finite = bool(np.all(np.isfinite(mat_i)))
    verdict = explain(want, tol) if finite else ("nonfinite", None)
    tags = [kind, case["irf"]["type"], f"n{n}", f"gauss{max(len(case['irf']['center']), len(case['irf']['width']))}",
            "d8_region" if region else "well_behaved"]
    shifted = case["irf"].get("shift") is not None and any(s != 0 for s in case["irf"]["shift"])
    if shifted:
        tags.append("shift")
    if case["irf"]["type"].startswith("spectral") and (case["irf"].get("center_disp") or case["irf"].get("width_disp")):
        tags.append("dispersion")
    if verdict is not None:
        sg, sk = d8_measures(case)
        where = f"sigma*gamma={sg:.3g} sigma*max(gamma,omega)={sk:.3g}"
        if finite and shifted:
            want_p, tol_p, _ = expected(_osc_reference(case, times, sign_shift=+1))
            alt = explain(want_p, tol_p)
            if alt is None or alt[0] == "offset":
                raise Violation(_cl(kind, "irf_position"),
                                f"columns sit at centre + shift_i, the decay model of the dataset at centre - shift_i (shift={case['irf']['shift']}); {where}")
        if verdict[0] == "offset":
            raise Violation(_cl(kind, "vanish_before_pulse" if kind == "doas" else "vanish_after_pulse"),
                            f"columns = C*convolution + constant {verdict[1]!r} (C={C!r}): they do not vanish on the far side of the pulse; {where}")
        if verdict[0] == "nonfinite":
            msg = f"non-finite entries ({int(np.sum(~np.isfinite(mat_i)))} of {mat_i.size}); {where}"
        else:
            p = verdict[1]
            msg = (f"index {p[0]} t={times[p[1]]!r} column {p[2]}: code {mat_i[p]!r} C*oracle {want[p]!r} tol {tol[p]:.3e} "
                   f"scale {sc2[p[0], 0, p[2]]:.3e} C={C!r}; {where}")
        if region:
            raise Violation(_cl(kind, "irf_precision_region"), msg)
        raise Violation(_cl(kind, "finite" if verdict[0] == "nonfinite" else "convolution"), msg)
    # explicit: vanishing on the far side of the pulse
    far = before[:, :, None] & np.ones_like(mat_i, dtype=bool)
    if far.any():
        worst = float(np.max(np.abs(mat_i[far]) / (abs(C) * np.broadcast_to(sc2, mat_i.shape)[far] + 1e-300)))
        check(worst <= TOL_VANISH, _cl(kind, "vanish_before_pulse" if kind == "doas" else "vanish_after_pulse"), lambda: f"{worst:.3e} of the column scale")
        tags.append("far_side_point")
    if refused:
        tags.append("after_refused_evaluation")
    tags.append(f"time_axis_{(case.get('time_repr') or {}).get('order', 'ascending')}")
    nontrivial = shifted or "dispersion" in tags or n >= 2
    return {"nontrivial": bool(nontrivial), "tags": tags}


# ------------------------------------------------------------------------------------------
# coherent artifact


def prop_artifact(case):
    import mpmath as mp

    from vlib.oracle import c07 as O

    mp.mp.dps = O.DPS
    times = np.array(case["times"], dtype=float)
    order = int(case["order"])
    _, _, dm = build_time_model(case)
    _decay_position_check(case, dm, times, "artifact.decay_position_formula")
    gaxis = np.array(case["gaxis"], dtype=float)
    with expect_ok("artifact.call"):
        labels, mat = dm.megacomplex[0].calculate_matrix(dm, gaxis, times)
    mat = np.asarray(mat, dtype=float)
    idx = _indices(case)
    want_shape = (times.size, order) if idx == [None] else (gaxis.size, times.size, order)
    check(mat.shape == want_shape, "artifact.shape", lambda: f"{mat.shape} != {want_shape}")
    check(list(labels) == [f"coherent_artifact_{q}_main" for q in range(1, order + 1)], "artifact.labels", lambda: f"{labels}")
    if mat.ndim == 2:
        mat = mat[None]
    shifted = case["irf"].get("shift") is not None and any(s != 0 for s in case["irf"]["shift"])
    mt = [mp.mpf(float(t)) for t in times]

    def reference(sign_shift):
        ref = np.zeros(mat.shape)
        tol = np.zeros(mat.shape)
        loose = np.zeros(mat.shape)
        for a, i in enumerate(idx):
            gs, shift = O.effective_irf(case["irf"], case["gaxis"], i)
            c = gs[0][0] + (2 * shift if sign_shift == +1 else 0)
            w = mp.mpf(case["own_width"]) if case.get("own_width") is not None else gs[0][1]
            for q in range(1, order + 1):
                col = np.array([float(O.artifact_column(q, t, c, w)) for t in mt])
                sc = max([abs(float(O.artifact_column(q, c + w * mp.mpf(float(u)), c, w))) for u in np.linspace(-5, 5, 21)] + [float(np.max(np.abs(col)))])
                ref[a, :, q - 1] = col
                # backward error of t - c: 16 eps (|t| + |c| + |shift|) times the largest slope ~ 2 scale / w
                tol[a, :, q - 1] = sc * (TOL_REL + 16 * EPS * (np.abs(times) + abs(float(c)) + abs(float(shift))) * 2 / float(w))
                if q == 3:
                    # rounding of the *expanded* polynomial c^2 - w^2 - 2 c t + t^2 (clause selection only)
                    loose[a, :, 2] = 16 * EPS * (np.abs(times) + abs(float(c)) + abs(float(shift))) ** 2 / float(w) ** 4 * np.abs(ref[a, :, 0])
        return ref, tol, loose

    ref, tol, loose = reference(-1)
    err = np.abs(mat - ref)
    if not np.all(err <= tol):
        p = np.unravel_index(int(np.argmax(np.nan_to_num(err / tol, nan=np.inf))), err.shape)
        msg = f"index {p[0]} t={times[p[1]]!r} order {p[2] + 1}: code {mat[p]!r} oracle {ref[p]!r} tol {tol[p]:.3e}"
        if shifted:
            ref_p, tol_p, loose_p = reference(+1)
            if np.all(np.abs(mat - ref_p) <= tol_p + loose_p):
                raise Violation("artifact.irf_position", "artifact sits at centre + shift_i; " + msg)
        bad_orders = sorted({int(q) + 1 for q in np.argwhere(~(err <= tol))[:, 2]})
        if bad_orders == [1]:
            raise Violation("artifact.gaussian", msg)
        if bad_orders == [3] and np.all(err <= tol + loose):
            raise Violation("artifact.order3_cancellation",
                            "second-derivative column loses precision by cancellation in the expanded polynomial c^2 - w^2 - 2ct + t^2 "
                            f"(error {float(err[p] / tol[p] * TOL_REL):.2e} of the column scale, bound eps (|t|+|c|)^2 / w^2); " + msg)
        raise Violation(f"artifact.derivative_order{bad_orders[-1]}" if 1 not in bad_orders else "artifact.gaussian", msg)
    tags = [f"order{order}", "own_width" if case.get("own_width") is not None else "irf_width", case["irf"]["type"]]
    if shifted:
        tags.append("shift")
    disp = case["irf"]["type"].startswith("spectral") and bool(case["irf"].get("center_disp") or case["irf"].get("width_disp"))
    if disp:
        tags.append("dispersion")
    return {"nontrivial": bool(shifted or disp or (order == 3 and case.get("own_width") is not None)), "tags": tags}


# ------------------------------------------------------------------------------------------
# a whole dataset: several IRF-using megacomplexes, every list order, repeated evaluation


DATASET_KINDS = ["doas", "doas", "pfid", "artifact", "decay"]


@st.composite
def dataset_cases(draw):
    """2-4 megacomplexes (any kinds, kinds may repeat) sharing one IRF, evaluated as one dataset in several list orders."""
    ng = draw(st.integers(1, 3))
    g0 = draw(st.floats(1000, 3000))
    gaxis = sorted({float(g0 + draw(st.floats(0, 60))) for _ in range(ng)})
    # 2/3 of the cases with a per-index position (shift and / or dispersion)
    irf = draw(irf_cases(gaxis, allow_plain=draw(st.integers(0, 2)) == 0))
    lo, hi, smin, smax = _irf_extent(irf, gaxis)
    kinds = draw(st.lists(st.sampled_from(DATASET_KINDS), min_size=2, max_size=4))
    mcs = []
    om, gam, wmin, wmax = 0.0, [1.0], smin, smax
    for j, kind in enumerate(kinds):
        name = f"m{j}"
        if kind in ("doas", "pfid"):
            osc = draw(osc_list(smax, "well", pfid=kind == "pfid", gaxis=gaxis))
            for o in osc:
                o["label"] = f"{name}{o['label']}"
            if kind == "doas":
                om = max([om] + [o["nu"] * W2A for o in osc])
            gam += [abs(o["gamma"]) for o in osc]
            mcs.append({"name": name, "kind": kind, "osc": osc})
        elif kind == "artifact":
            own = draw(st.one_of(st.none(), _log_uniform(1e-3, 5.0)))
            if own is not None:
                wmin, wmax = min(wmin, own), max(wmax, own)
            mcs.append({"name": name, "kind": kind, "order": draw(st.integers(1, 3)), "own_width": own})
        else:
            mcs.append({"name": name, "kind": kind, "rate": float(min(1e3, max(1e-3, draw(st.floats(0.1, 2.0)) / smax)))})
    times = draw(time_axis(lo, hi, wmin, wmax, om, min(gam), anticausal=draw(st.booleans()) and "pfid" in kinds))
    n = len(mcs)
    perms = _permutations(n)
    if len(perms) > 6:
        picks = draw(st.lists(st.integers(0, len(perms) - 1), min_size=6, max_size=6, unique=True))
        perms = [perms[p] for p in sorted(picks)]
    return {"gaxis": gaxis, "irf": irf, "mcs": mcs, "orders": perms, "times": times, "repeat": 2}


def _permutations(n):
    import itertools

    return [list(p) for p in itertools.permutations(range(n))]


def build_dataset_model(case, names, irf=None):
    """one dataset with the megacomplexes ``names`` (in that order) of the case and the IRF; freshly built and filled."""
    from glotaran.model import fill_item

    cls = _model_class()
    P = _Params()
    by_name = {m["name"]: m for m in case["mcs"]}
    mcs = {}
    for name in names:
        m = by_name[name]
        if m["kind"] in ("doas", "pfid"):
            mcs[name] = {
                "type": "damped-oscillation" if m["kind"] == "doas" else "pfid",
                "labels": [o["label"] for o in m["osc"]],
                "frequencies": [P.add(o["nu"]) for o in m["osc"]],
                "rates": [P.add(o["gamma"]) for o in m["osc"]],
            }
        elif m["kind"] == "artifact":
            mcs[name] = {"type": "coherent-artifact", "order": int(m["order"])}
            if m.get("own_width") is not None:
                mcs[name]["width"] = P.add(m["own_width"])
        elif m["kind"] == "decay":
            mcs[name] = {"type": "decay-parallel", "compartments": [f"s_{name}"], "rates": [P.add(m["rate"])]}
        else:
            raise ValueError(m["kind"])
    spec = {
        "megacomplex": mcs,
        "irf": {"i": _irf_spec(irf if irf is not None else case["irf"], P)},
        "dataset": {"d": {"megacomplex": list(names), "irf": "i"}},
    }
    model = cls(**spec)
    return fill_item(model.dataset["d"], model, P.build())


def _alone(case, name, times, irf=None):
    """labels and (I or 1, T, n) matrix of one megacomplex evaluated as the only one of a freshly built dataset."""
    dm = build_dataset_model(case, [name], irf=irf)
    with np.errstate(all="ignore"):
        labels, mat = dm.megacomplex[0].calculate_matrix(dm, np.array(case["gaxis"], dtype=float), times)
    mat = np.array(mat, dtype=float)
    return list(labels), (mat[None] if mat.ndim == 2 else mat)


def prop_dataset(case):
    """Every column of a dataset with several IRF-using megacomplexes is the column the megacomplex has on its own.

    The statement defines each column by the parameters of its megacomplex and the effective IRF position of the
    dataset alone - so neither the other megacomplexes of the dataset, nor their order in the list, nor an earlier
    evaluation of the same dataset model can change it.  Reference: the same megacomplex evaluated alone on a freshly
    built model (which the other sub-checks tie to the closed forms); compared at TOL_REL of the column scale.
    """
    from glotaran.optimization.matrix_provider import MatrixProvider

    times = np.array(case["times"], dtype=float)
    gaxis = np.array(case["gaxis"], dtype=float)
    oscs = [o for m in case["mcs"] if m["kind"] == "doas" for o in m["osc"]]
    if oscs:
        _no_fold({"osc": oscs}, times)
    elif times.size < 2 or float(np.min(np.diff(times))) <= 0:
        raise Discard("time axis not strictly increasing")
    for m in case["mcs"]:
        if m["kind"] == "doas" and any(o["gamma"] < 0 for o in m["osc"]):
            raise Discard("negative DOAS rate with IRF is outside the statement")
        if m["kind"] == "pfid" and any(o["gamma"] >= 0 for o in m["osc"]):
            raise Discard("PFID rates are negative")
    labels_all = [o["label"] for m in case["mcs"] if m["kind"] in ("doas", "pfid") for o in m["osc"]]
    if len(set(labels_all)) != len(labels_all) or len({m["name"] for m in case["mcs"]}) != len(case["mcs"]):
        raise Discard("labels shared between megacomplexes (columns would be summed)")
    names = [m["name"] for m in case["mcs"]]
    kind_of = {m["name"]: m["kind"] for m in case["mcs"]}
    shifted = case["irf"].get("shift") is not None and any(s != 0 for s in case["irf"]["shift"])

    alone = {}
    for name in names:
        with expect_ok("dataset.alone_call"):
            alone[name] = _alone(case, name, times)
    owner = {}
    for name in names:
        for lbl in alone[name][0]:
            owner[lbl] = name

    def compare(order, labels, mat):
        """None, or (label, megacomplex name, message) of the worst column that differs from the megacomplex alone."""
        worst = None
        for name in order:
            a_labels, a_mat = alone[name]
            for k, lbl in enumerate(a_labels):
                got = mat[..., labels.index(lbl)]
                got = got[None] if got.ndim == 1 else got
                ref = a_mat[..., k]
                check(got.shape[0] in (1, ref.shape[0]) or ref.shape[0] == 1, "dataset.shape", lambda: f"{mat.shape} vs alone {a_mat.shape}")
                ref_b, got_b = np.broadcast_arrays(ref, got)
                open_ = ~np.isfinite(ref_b)  # outcomes the megacomplex alone leaves non-finite are not decided here
                finite_ref = np.where(open_, 0.0, ref_b)
                scale = float(np.max(np.abs(finite_ref))) if finite_ref.size else 0.0
                err = np.where(open_, 0.0, np.abs(got_b - finite_ref))
                err = np.where(np.isnan(err), np.inf, err)
                e = float(np.max(err)) if err.size else 0.0
                if e > TOL_REL * scale + 1e-300:
                    rel = e / (scale + 1e-300)
                    if worst is None or rel > worst[0]:
                        p = np.unravel_index(int(np.argmax(err)), err.shape)
                        worst = (rel, lbl, name,
                                 f"column {lbl!r} of {name} ({kind_of[name]}) at index {p[0]} t={times[p[1]]!r}: in the dataset {got_b[p]!r}, "
                                 f"alone {ref_b[p]!r} (max deviation {rel:.3e} of the column scale)")
        return worst

    def position_hypothesis(name, lbl, labels, mat):
        """clause selection only: does the column equal the megacomplex alone at centre - m * shift_i for another m?"""
        if not shifted:
            return None
        for mult in (2.0, 3.0, 0.0, -1.0, 4.0):
            irf2 = dict(case["irf"], shift=[mult * s for s in case["irf"]["shift"]])
            try:
                l2, m2 = _alone(case, name, times, irf=irf2)
            except Exception:  # noqa: BLE001 - hypothesis only
                continue
            got = mat[..., labels.index(lbl)]
            got = got[None] if got.ndim == 1 else got
            ref = m2[..., l2.index(lbl)]
            ref_b, got_b = np.broadcast_arrays(ref, got)
            ok = np.isfinite(ref_b) & np.isfinite(got_b)
            sc = float(np.max(np.abs(ref_b[ok]))) if ok.any() else 0.0
            if ok.any() and float(np.max(np.abs(ref_b[ok] - got_b[ok]))) <= 1e-7 * sc + 1e-300:
                return mult
        return None

    tags = set()
    for order_idx in case["orders"]:
        order = [names[j] for j in order_idx]
        dm = build_dataset_model(case, order)
        first_ok = True
        for rep in range(int(case.get("repeat", 1))):
            with np.errstate(all="ignore"):
                with expect_ok("dataset.call"):
                    res = MatrixProvider.calculate_dataset_matrix(dm, gaxis, times)
            labels, mat = list(res.clp_labels), np.asarray(res.matrix, dtype=float)
            want_labels = [lbl for name in order for lbl in alone[name][0]]
            check(sorted(labels) == sorted(want_labels), "dataset.labels", lambda: f"order {order}: {labels} != {want_labels}")
            check(mat.shape[-1] == len(labels) and mat.shape[-2] == times.size and mat.ndim in (2, 3), "dataset.shape", lambda: f"{mat.shape}")
            worst = compare(order, labels, mat)
            if worst is None:
                continue
            _, lbl, name, msg = worst
            before = [f"{n_}({kind_of[n_]})" for n_ in order[: order.index(name)]]
            ctx = f"megacomplex list {[f'{n_}({kind_of[n_]})' for n_ in order]}, evaluation #{rep + 1} of the same dataset model; "
            mult = position_hypothesis(name, lbl, labels, mat)
            if mult is not None:
                where = f"sits at centre - {mult:g}*shift_i instead of the effective IRF position centre - shift_i of the dataset (shift={case['irf']['shift']}); "
                if rep > 0 and first_ok:
                    raise Violation("dataset.irf_position_repeated_evaluation", ctx + where + msg)
                raise Violation("dataset.irf_position_shared", ctx + where + f"evaluated after {before}; " + msg)
            if rep > 0 and first_ok:
                raise Violation("dataset.repeated_evaluation", ctx + "the first evaluation agreed with the megacomplexes alone; " + msg)
            raise Violation("dataset.column_depends_on_neighbours", ctx + f"evaluated after {before}; " + msg)
        kinds_in_order = [kind_of[n_] for n_ in order]
        if "doas" in kinds_in_order and kinds_in_order.index("doas") < len(kinds_in_order) - 1:
            tags.add("doas_before_other")
        if "pfid" in kinds_in_order and kinds_in_order.index("pfid") < len(kinds_in_order) - 1:
            tags.add("pfid_before_other")
    tags |= {f"n{len(names)}", case["irf"]["type"], "+".join(sorted({kind_of[n_] for n_ in names}))}
    if shifted:
        tags.add("shift")
    disp = case["irf"]["type"].startswith("spectral") and bool(case["irf"].get("center_disp") or case["irf"].get("width_disp"))
    if disp:
        tags.add("dispersion")
    return {"nontrivial": bool(shifted or disp), "tags": sorted(tags)}


# ------------------------------------------------------------------------------------------
# spectral shapes


def prop_shape(case):
    import mpmath as mp

    from glotaran.model import fill_item
    from vlib.oracle import c07 as O

    mp.mp.dps = O.DPS
    _model_class()
    P = _Params()
    shapes_spec = {}
    for sh in case["shapes"]:
        s = {"type": sh["type"], "location": P.add(sh["location"]), "width": P.add(sh["width"])}
        if sh.get("amplitude") is not None:
            s["amplitude"] = P.add(sh["amplitude"])
        if sh["type"] == "skewed-gaussian":
            s["skewness"] = P.add(sh["skewness"])
        shapes_spec["sh_" + sh["label"]] = s
    spec = {
        "megacomplex": {"m": {"type": "spectral", "shape": {sh["label"]: "sh_" + sh["label"] for sh in case["shapes"]}}},
        "shape": shapes_spec,
        "dataset": {"d": {"megacomplex": ["m"], "spectral_axis_inverted": bool(case["inverted"]), "spectral_axis_scale": case["scale"]}},
    }
    model = _MODELS["spectral"](**spec)
    dm = fill_item(model.dataset["d"], model, P.build())
    axis = np.array(case["axis"], dtype=float)
    if axis.size == 0:
        raise Discard("empty axis")
    if case["inverted"] and np.any(axis == 0):
        raise Discard("zero on an inverted axis")
    with np.errstate(all="ignore"):
        with expect_ok("shape.call"):
            labels, mat = dm.megacomplex[0].calculate_matrix(dm, np.array([0.0]), axis)
    mat = np.asarray(mat, dtype=float)
    check(mat.shape == (axis.size, len(case["shapes"])), "shape.shape", lambda: f"{mat.shape}")
    check(list(labels) == [sh["label"] for sh in case["shapes"]], "shape.labels", lambda: f"{labels}")
    sc = mp.mpf(case["scale"])
    tags = ["inverted" if case["inverted"] else ("scaled" if case["scale"] != 1 else "plain")]
    nontrivial = False
    for j, sh in enumerate(case["shapes"]):
        A = mp.mpf(sh["amplitude"]) if sh.get("amplitude") is not None else mp.mpf(1)
        x0, fw = mp.mpf(sh["location"]), mp.mpf(sh["width"])
        skew = sh["type"] == "skewed-gaussian"
        b = mp.mpf(sh["skewness"]) if skew else None
        sides = set()
        for a, lam in enumerate(axis):
            x = sc / mp.mpf(float(lam)) if case["inverted"] else mp.mpf(float(lam)) * sc
            # rounding of the axis transform and of x - x0
            dx = 4 * EPS * (abs(x) + abs(x0))
            got = float(mat[a, j])
            base = 1e-12 * abs(float(A))
            u = (x - x0) / fw

            def gauss_interval():
                vals = [O.shape_gaussian(xx, A, x0, fw) for xx in (x - dx, x, x + dx)]
                if x - dx <= x0 <= x + dx:
                    vals.append(A)
                return float(min(vals)), float(max(vals))

            if not skew:
                lo, hi = gauss_interval()
                if abs(u) <= mp.mpf("1e-9"):
                    clause = "shape.amplitude_at_location"
                elif abs(abs(u) - mp.mpf("0.5")) <= mp.mpf("1e-9"):
                    clause = "shape.half_maximum"
                    hm = float(A) / 2  # stated directly: half the amplitude at +-FWHM/2
                    lo, hi = min(lo, hm), max(hi, hm)
                    lo, hi = max(lo, hm - 1e-8 * abs(hm)), min(hi, hm + 1e-8 * abs(hm))
                else:
                    clause = "shape.gaussian_formula"
                check(lo - base <= got <= hi + base, clause,
                      lambda: f"{sh} x={float(x)!r} (axis {lam!r}): code {got!r} admissible [{lo!r}, {hi!r}]")
                continue
            th = [O.skew_theta(xx, x0, fw, b) for xx in (x - dx, x, x + dx)]
            dth = 4 * EPS * (1 + abs(th[1] - 1))
            tlo, thi = min(th) - dth, max(th) + dth
            vals = [O.shape_skewed_of_theta(tlo, A, b), O.shape_skewed_of_theta(th[1], A, b), O.shape_skewed_of_theta(thi, A, b)]
            if tlo <= 1 <= thi:
                vals.append(A)
            lo, hi = float(min(vals)), float(max(vals))
            sides.add("neg" if thi <= 0 else ("pos" if tlo > 0 else "edge"))
            if abs(b) <= mp.mpf("1e-6"):
                # continuity: close to the Gaussian limit, and on one of the two documented formulae (an implementation
                # may switch to the limit for tiny |b|; where it switches is not part of the statement)
                g0 = float(O.shape_gaussian(x, A, x0, fw))
                check(abs(got - g0) <= 1e-6 * abs(float(A)) + base, "shape.skew_continuity",
                      lambda: f"{sh} x={float(x)!r}: skewed {got!r} gaussian limit {g0!r}")
                glo, ghi = gauss_interval()
                check(lo - base <= got <= hi + base or glo - base <= got <= ghi + base, "shape.skew_continuity",
                      lambda: f"{sh} x={float(x)!r}: code {got!r} neither skewed formula [{lo!r}, {hi!r}] nor gaussian limit [{glo!r}, {ghi!r}]")
                continue
            if thi <= 0:
                clause = "shape.skewed_zero_branch"
            elif abs(u) <= mp.mpf("1e-9"):
                clause = "shape.amplitude_at_location"
            else:
                clause = "shape.skewed_formula"
            check(lo - base <= got <= hi + base, clause,
                  lambda: f"{sh} x={float(x)!r} (axis {lam!r}) theta in [{float(tlo)!r}, {float(thi)!r}]: code {got!r} admissible [{lo!r}, {hi!r}]")
        if skew:
            tags.append("skew_tiny" if abs(b) <= mp.mpf("1e-6") else "skew")
            if {"neg", "pos"} <= sides:
                tags.append("both_sides_of_theta0")
                nontrivial = True
            if "edge" in sides:
                tags.append("theta0_within_rounding")
        else:
            tags.append("gaussian")
    if case["inverted"] or case["scale"] != 1:
        nontrivial = True
    return {"nontrivial": nontrivial, "tags": tags}


# ------------------------------------------------------------------------------------------


def selfcheck():
    from vlib.oracle import c07 as O

    O.selfcheck()


PROPERTY = Property(
    id="C07",
    level="exploration",
    rule=(
        "Hypothesis-generated cases: DOAS without IRF (1-3 oscillations, 0..2000 cm^-1, rates of either sign, irregular time axes "
        "fine enough that the megacomplex does not fold the frequency); DOAS (rates >= 0) and PFID (rates < 0, frequency relative to "
        "the probe wavenumber) with gaussian / multi-gaussian (1-3 Gaussians, all broadcast patterns, scales) / spectral-(multi-)gaussian "
        "IRFs, widths 1e-3..5, per-index shifts, centre dispersion order 0-3 and width dispersion order 0-2 in wavelength or wavenumber "
        "mode, 1-3 global indices, 2/3 of the cases in the well-behaved region sigma*gamma < 1.5, sigma*max(gamma,omega) < 30; coherent "
        "artifact order 1-3 with own or IRF width on the same IRF family; gaussian / skewed-gaussian shapes (skewness 1e-9..20 of either "
        "sign, points at the location, at +-FWHM/2, and on both sides of / within rounding of theta = 0) on plain, scaled and inverted axes. "
        "Non-trivial: IRF with non-zero shift or dispersion, >= 2 oscillations, negative rate without IRF, order-3 artifact with own width, "
        "skewed shape evaluated on both sides of theta = 0, inverted / scaled axis; distinct = distinct case digest. "
        "Whole datasets: 2-4 megacomplexes of any kinds (damped oscillation, PFID, coherent artifact, decay; kinds may repeat) sharing one "
        "IRF (2/3 with per-index shift / dispersion), evaluated through MatrixProvider.calculate_dataset_matrix on one filled dataset model "
        "in every list order (6 drawn orders for 4 megacomplexes), twice per model; each column is compared with the same megacomplex "
        "evaluated alone on a freshly built model."
    ),
    subs=[
        Sub("doas_noirf", prop=prop_doas_noirf, strategy=doas_noirf_cases, budget={"quick": 240, "thorough": 12000}),
        Sub("doas_irf", prop=prop_osc_irf, strategy=doas_irf_cases, budget={"quick": 288, "thorough": 16000}),
        Sub("pfid", prop=prop_osc_irf, strategy=pfid_cases, budget={"quick": 224, "thorough": 12000}),
        Sub("artifact", prop=prop_artifact, strategy=artifact_cases, budget={"quick": 208, "thorough": 10000}),
        Sub("shape", prop=prop_shape, strategy=shape_cases, budget={"quick": 240, "thorough": 10000}),
        Sub("dataset", prop=prop_dataset, strategy=dataset_cases, budget={"quick": 160, "thorough": 8000}),
    ],
    assumptions=[
        "mpmath (50 digits) closed forms are trusted after the start-up self-check against mpmath.quad of the defining integrals",
        "DOAS/PFID tolerance: (1e-9 + 16 eps (|t|+|position|)(|k|+1/sigma)) * |C| * true column scale (max |oracle| over sampled times and "
        "the probe grid centre +- 5 sigma, modulus over both quadratures), plus 5e-6 * scale where the code truncates beyond 5 sigma; "
        "vanishing on the far side of the pulse: 1e-5 * scale",
        "the proportionality constant C is estimated on a canonical case (offset-invariant fit) and required everywhere, never asserted",
        "artifact tolerance (1e-9 + 32 eps (|t|+|c|)/w) * column scale; shapes: admissible interval under 4 eps rounding of the axis "
        "transform, x - x0 and theta, +- 1e-12 |A|; continuity |f_b - f_0| <= 1e-6 |A| for |b| <= 1e-6",
        "the frequency folding rule of the damped-oscillation megacomplex is outside the statement: time axes are generated so that no "
        "frequency is folded (cases that would fold are discarded)",
        "dataset sub-check: a column is defined by its megacomplex and the effective IRF position of the dataset only, so it equals the "
        "column of the megacomplex alone (tied to the closed forms by the other sub-checks) within 1e-9 of the column scale whatever the "
        "other megacomplexes, their order, or earlier evaluations of the same dataset model; entries the megacomplex alone leaves "
        "non-finite are left open; megacomplexes of one dataset have distinct clp labels (shared labels are summed by design)",
    ],
    selfcheck=selfcheck,
)
