"""C06 - labelled outputs follow their labels: declaration order and composition.

Oracles (all independent of the order-handling code under test):

* permutation twins - a model and the same model with its declarations permuted (``vlib.gen.c06_models.apply_perm``)
  must give the same matrix column under every clp label and, through optimize() on the same seeded data, the same
  cost and the same labelled result arrays at the same parameters (start values; optimum of the model), compared
  BY LABEL, and the same first optimisation step (up to the noise of the optimiser's forward differences);
* split twins - an oscillation / spectral megacomplex with k labels versus k single-label megacomplexes: what a
  label denotes is unchanged, so its column is;
* composition - the per-index dataset matrix column of label L equals the sum over the dataset's megacomplexes of
  megacomplex_scale x (their own column L), obtained by calling each megacomplex's ``calculate_matrix`` alone.
"""

from __future__ import annotations

import itertools
import re
import warnings
import zlib

import numpy as np

from vlib.core import Discard
from vlib.core import Property
from vlib.core import Sub
from vlib.core import check
from vlib.core import expect_ok
from vlib.gen import c06_models as gen
from vlib.gen import kinetic

MATRIX_TOL = 1e-12  # of the column scale
FIT_TOL = 1e-7  # cost and parameters after one optimisation step: floor of the relative tolerance (see prop_twin_fit)
ARRAY_TOL = 1e-6  # default of the by-label array comparison (the fit twins use SAME_POINT_TOL)
SAME_POINT_TOL = 1e-8  # cost and labelled result arrays of the twin evaluated at the same parameters
COND_MAX = 1e6
NFEV = 4


# ------------------------------------------------------------------------------------------
# building


_MODEL_CLASSES: dict = {}


def build_model(spec):
    """Model from a JSON spec; the (attrs) model class of a set of megacomplex types is created once per process."""
    from glotaran.model import Model
    from glotaran.plugin_system.megacomplex_registration import get_megacomplex

    spec = kinetic._convert_spec(spec)
    types = tuple(sorted({m["type"] for m in spec["megacomplex"].values()}))
    if types not in _MODEL_CLASSES:
        _MODEL_CLASSES[types] = Model.create_class_from_megacomplexes({get_megacomplex(t) for t in types})
    return _MODEL_CLASSES[types](**spec)


def build_parameters(parameters, perturb=None):
    """Parameters from the case; with ``perturb`` the free parameters are multiplied by 1 + (factor - 1) * opts["_rel"]."""
    from glotaran.parameter import Parameters

    d, k = {}, 0
    for grp, items in parameters.items():
        out = []
        for label, value, opts in items:
            opts = dict(opts)
            rel = opts.pop("_rel", 1.0)
            if perturb is not None and opts.get("vary", True):
                value = value * (1.0 + (perturb[k % len(perturb)] - 1.0) * rel)
                k += 1
            out.append([label, value, opts])
        d[grp] = out
    return Parameters.from_dict(d)


def build(spec, parameters, perturb=None):
    return build_model(spec), build_parameters(parameters, perturb)


def axes_of(case, ds):
    """(global_dimension, global_axis, model_dimension, model_axis) of a dataset."""
    d = case["datasets"][ds]
    t, s = np.asarray(d["time"], dtype=float), np.asarray(d["spectral"], dtype=float)
    if t.size and all(float(v).is_integer() for v in t):
        t = t.astype(np.int64)  # a time axis of whole numbers is handed over as np.arange would give it
    if case["family"] == "spectral":
        return "time", t, "spectral", s
    return "spectral", s, "time", t


def labelled_matrix(model, params, case, ds, global_matrix=False):
    """{clp label: per-index columns, shape (n_global or 1, n_model)} from the public matrix calculation."""
    from glotaran.model.item import fill_item
    from glotaran.optimization.matrix_provider import MatrixProvider

    _, gax, _, max_ = axes_of(case, ds)
    dm = fill_item(model.dataset[ds], model, params)
    mc = MatrixProvider.calculate_dataset_matrix(dm, gax, max_, global_matrix=global_matrix)
    labels = list(mc.clp_labels)
    m = np.asarray(mc.matrix)
    cols = {}
    for j, lab in enumerate(labels):
        cols.setdefault(lab, []).append(m[..., j] if m.ndim == 3 else m[None, :, j])
    return labels, cols, m.ndim


def compare_labelled_columns(a, b, clause, where, tol=MATRIX_TOL):
    labels_a, cols_a, nd_a = a
    labels_b, cols_b, nd_b = b
    check(len(set(labels_a)) == len(labels_a), f"{clause}.labels_unique", lambda: f"{where}: duplicate clp labels {labels_a}")
    check(len(set(labels_b)) == len(labels_b), f"{clause}.labels_unique", lambda: f"{where}: duplicate clp labels {labels_b}")
    check(set(labels_a) == set(labels_b), f"{clause}.label_set", lambda: f"{where}: {sorted(labels_a)} vs {sorted(labels_b)}")
    check(nd_a == nd_b, f"{clause}.index_dependence", lambda: f"{where}: matrix ndim {nd_a} vs {nd_b}")
    worst = (0.0, None)
    for lab in labels_a:
        x, y = cols_a[lab][0], cols_b[lab][0]
        check(x.shape == y.shape, f"{clause}.shape", lambda: f"{where}: {lab}: {x.shape} vs {y.shape}")
        scale = max(float(np.abs(x).max()), float(np.abs(y).max()))
        err = float(np.abs(x - y).max())
        if scale > 0 and err / scale > worst[0]:
            worst = (err / scale, lab)
        check(err <= tol * scale, f"{clause}.column_by_label",
              lambda: f"{where}: column '{lab}' differs by {err:.3e} (column scale {scale:.3e}); labels {labels_a} vs {labels_b}")
    return worst


# ------------------------------------------------------------------------------------------
# sub-check: permutation / split twins, matrix level


def tags_of(case):
    spec = case["spec"]
    t = [f"family:{case['family']}"] + sorted({"mc:" + m["type"] for m in spec["megacomplex"].values()})
    irfs = {i["type"] for i in spec.get("irf", {}).values() if any(d.get("irf") for d in spec["dataset"].values())}
    t += [f"irf:{k}" for k in sorted(irfs)] or ["irf:none"]
    t.append(f"datasets:{len(spec['dataset'])}")
    t.append(f"max_mc_per_dataset:{max(len(d['megacomplex']) for d in spec['dataset'].values())}")
    if any("megacomplex_scale" in d for d in spec["dataset"].values()):
        t.append("megacomplex_scale")
    t += gen.perm_tags(case.get("perm", {}))
    return t


def perm_nontrivial(case):
    """non-identity permutation over >= 2 labels (or a split)"""
    return not gen.perm_is_identity(case.get("perm", {}))


def prop_twin_matrix(case):
    refused = False
    with warnings.catch_warnings():
        warnings.simplefilter("ignore")
        with expect_ok("twin.build"):
            model, params = build(case["spec"], case["parameters"])
            twin_spec = gen.apply_perm(case["spec"], case["perm"])
            twin, tparams = build(twin_spec, case["parameters"])
        check(set(twin_spec["dataset"]) == set(case["spec"]["dataset"]), "twin.selfcheck", "datasets changed")
        for ds in case["spec"]["dataset"]:
            with expect_ok("twin.matrix_call"):
                a = labelled_matrix(model, params, case, ds)
            # between the twins: an evaluation of the same shape that is refused half-way (all plain parameters at -1e4: overflowing
            # exponentials, non-finite concentrations) - what a label denotes does not depend on an earlier refused evaluation
            bad = params.copy()
            for p_ in bad.all():
                if p_.expression is None:
                    p_.value = -1e4
            try:
                with np.errstate(all="ignore"):
                    labelled_matrix(model, bad, case, ds)
            except Exception:  # noqa: BLE001
                refused = True
            with expect_ok("twin.matrix_call_after_refused_evaluation"):
                b = labelled_matrix(twin, tparams, case, ds)
            compare_labelled_columns(a, b, "twin.matrix", ds)
            if case["spec"]["dataset"][ds].get("global_megacomplex"):
                with expect_ok("twin.matrix_call"):
                    a = labelled_matrix(model, params, case, ds, global_matrix=True)
                    b = labelled_matrix(twin, tparams, case, ds, global_matrix=True)
                compare_labelled_columns(a, b, "twin.global_matrix", ds)
    return {"nontrivial": perm_nontrivial(case), "tags": tags_of(case) + (["refused_evaluation_between_twins"] if refused else [])}


# ------------------------------------------------------------------------------------------
# sub-check: composition


def reference_composition(dm, gax, max_):
    """label -> (per-index columns (n_global, n_model), scale of the largest contribution, ndim flags).

    Written from the statement: column L = sum over megacomplexes of megacomplex_scale x (their own column L);
    an index-independent contribution is the same at every index."""
    ref: dict[str, np.ndarray] = {}
    mag: dict[str, float] = {}
    any3d = False
    n_shared = 0
    scales = dm.megacomplex_scale if dm.megacomplex_scale is not None else [None] * len(dm.megacomplex)
    for scale, mc in zip(scales, dm.megacomplex):
        labels, m = mc.calculate_matrix(dm, gax, max_)
        m = np.array(m, dtype=float)
        f = 1.0 if scale is None else float(scale)
        any3d = any3d or m.ndim == 3
        assert len(set(labels)) == len(labels)
        for j, lab in enumerate(labels):
            col = m[..., j] if m.ndim == 3 else np.broadcast_to(m[:, j], (gax.size, max_.size))
            if lab in ref:
                n_shared += 1
                ref[lab] = ref[lab] + f * col
            else:
                ref[lab] = f * np.array(col)
            mag[lab] = mag.get(lab, 0.0) + abs(f) * float(np.abs(col).max())
    return ref, mag, any3d, n_shared


def prop_compose(case):
    from glotaran.model.item import fill_item
    from glotaran.optimization.matrix_provider import MatrixProvider

    shared = mixed = False
    n_orders = 0
    with warnings.catch_warnings():
        warnings.simplefilter("ignore")
        for ds, d in case["spec"]["dataset"].items():
            _, gax, _, max_ = axes_of(case, ds)
            n = len(d["megacomplex"])
            orders = itertools.permutations(range(n)) if n <= 4 else [tuple(range(n)), tuple(range(n))[::-1], tuple(range(1, n)) + (0,)]
            for pi in orders:
                spec = gen.apply_perm(case["spec"], {"ds_mc": {ds: list(pi)}})
                with expect_ok("compose.build"):
                    model, params = build(spec, case["parameters"])
                    dm = fill_item(model.dataset[ds], model, params)
                with expect_ok("compose.single_megacomplex_call"):
                    ref, mag, any3d, n_shared = reference_composition(dm, gax, max_)
                    dims = {np.ndim(mc.calculate_matrix(dm, gax, max_)[1]) for mc in dm.megacomplex}
                with expect_ok("compose.matrix_call"):
                    got = MatrixProvider.calculate_dataset_matrix(dm, gax, max_)
                labels = list(got.clp_labels)
                m = np.asarray(got.matrix)
                where = f"{ds} order {[d['megacomplex'][i] for i in pi]}"
                check(len(set(labels)) == len(labels), "compose.one_column_per_label", lambda: f"{where}: {labels}")
                check(set(labels) == set(ref), "compose.label_set", lambda: f"{where}: {sorted(labels)} vs {sorted(ref)}")
                check((m.ndim == 3) == any3d, "compose.index_dependence", lambda: f"{where}: ndim {m.ndim}, contributions {sorted(dims)}")
                check(m.shape[-2:] == (max_.size, len(labels)) and (m.ndim == 2 or m.shape[0] == gax.size), "compose.shape", lambda: f"{where}: {m.shape}")
                for j, lab in enumerate(labels):
                    col = m[..., j] if m.ndim == 3 else np.broadcast_to(m[:, j], (gax.size, max_.size))
                    err = np.abs(col - ref[lab]).max(axis=1)
                    i = int(np.argmax(err))
                    check(err[i] <= MATRIX_TOL * mag[lab], "compose.column_is_scaled_sum",
                          lambda: f"{where}: column '{lab}' at global index {i}: |got - sum scale*col| = {err[i]:.3e} (scale {mag[lab]:.3e})")
                shared = shared or n_shared > 0
                mixed = mixed or len(dims) == 2
                n_orders += 1
    tags = tags_of(case) + (["shared_label"] if shared else []) + (["mixed_2d_3d"] if mixed else [])
    return {"nontrivial": bool(shared or mixed), "tags": tags}


# ------------------------------------------------------------------------------------------
# sub-check: permutation twins through optimize()


def make_clp(labels, dim, axis, seed, family):
    """One smooth function of the absolute global-axis value per clp label (so linked datasets share clps)."""
    import xarray as xr

    x = np.asarray(axis, dtype=float)
    u = (x + 2.0) / 14.0 if family == "spectral" else (x - 1480.0) / 40.0
    arr = np.zeros((x.size, len(labels)))
    for j, lab in enumerate(labels):
        rng = np.random.default_rng([seed, zlib.crc32(str(lab).encode())])
        c, w, a = rng.uniform(0.1, 0.9), rng.uniform(0.25, 0.7), rng.uniform(0.5, 2.0)
        arr[:, j] = a * np.exp(-((u - c) / w) ** 2) + 0.15 * rng.uniform(0.3, 1.0)
        if rng.uniform() < 0.3:
            arr[:, j] *= -1
    return xr.DataArray(arr, coords=[(dim, x), ("clp_label", list(labels))])


def simulate_data(case, model, params):
    from glotaran.simulation import simulate

    data = {}
    for ds, d in case["datasets"].items():
        gdim, gax, mdim, max_ = axes_of(case, ds)
        coords = {mdim: max_, gdim: gax}
        noise = dict(noise=d["noise"] > 0, noise_std_dev=d["noise"] or 1.0, noise_seed=d["noise_seed"])
        if case["spec"]["dataset"][ds].get("global_megacomplex"):
            data[ds] = simulate(model, ds, params, coords, **noise)
        else:
            labels, _, _ = labelled_matrix(model, params, case, ds)
            data[ds] = simulate(model, ds, params, coords, clp=make_clp(labels, gdim, gax, case["clp_seed"], case["family"]), **noise)
    return data


def worst_condition(case, model, params):
    worst = 1.0
    for ds in case["spec"]["dataset"]:
        labels, cols, _ = labelled_matrix(model, params, case, ds)
        stack = np.stack([cols[lab][0] for lab in labels], axis=-1)  # (n_idx, n_model, n_label)
        c = 1.0
        for m in stack:
            sv = np.linalg.svd(m, compute_uv=False)
            c = max(c, sv[0] / max(sv[-1], 1e-300))
        if case["spec"]["dataset"][ds].get("global_megacomplex"):
            glabels, gcols, _ = labelled_matrix(model, params, case, ds, global_matrix=True)
            g = np.stack([gcols[lab][0][0] for lab in glabels], axis=-1)
            sv = np.linalg.svd(g, compute_uv=False)
            c *= sv[0] / max(sv[-1], 1e-300)
        worst = max(worst, c)
    return worst


SKIP_VARIABLES = re.compile(r"singular_vectors$|^component_")  # component numbers are positions, not labels


def _is_label_dim(arr, dim):
    return dim in arr.coords and arr.coords[dim].dims == (dim,)


def align_to(a, b, where):
    """Reorder ``b`` so that every dimension follows ``a``: by coordinate label, components by rate."""
    for dim in a.dims:
        if dim.startswith("component_"):
            rate = "rate_" + dim[len("component_"):]
            if rate in a.coords and rate in b.coords:
                ia, ib = np.argsort(a.coords[rate].values, kind="stable"), np.argsort(b.coords[rate].values, kind="stable")
                inv = np.empty_like(ia)
                inv[ia] = np.arange(ia.size)
                b = b.isel({dim: ib[inv]})
            continue
        if _is_label_dim(a, dim) and _is_label_dim(b, dim):
            la, lb = list(a.coords[dim].values), list(b.coords[dim].values)
            check(len(set(lb)) == len(lb) and len(set(la)) == len(la), "fit.labels_unique", lambda: f"{where}: duplicate labels on '{dim}': {la} / {lb}")
            check(sorted(map(str, la)) == sorted(map(str, lb)), "fit.label_set", lambda: f"{where}: dimension '{dim}': {la} vs {lb}")
            b = b.sel({dim: la})
    return b.transpose(*a.dims)


def compare_arrays(name, a, b, where, clause, mc_labels, tol=None, weight=None, floor_scale=0.0):
    tol = ARRAY_TOL if tol is None else tol
    check(set(a.dims) == set(b.dims), "fit.dims", lambda: f"{where}: {name}: dims {a.dims} vs {b.dims}")
    b = align_to(a, b, f"{where}: {name}")
    check(a.shape == b.shape, "fit.shape", lambda: f"{where}: {name}: {a.shape} vs {b.shape}")
    x, y = a.values, b.values
    if x.dtype.kind in "OUS" or y.dtype.kind in "OUS":
        check(bool(np.array_equal(x.astype(str), y.astype(str))), clause, lambda: f"{where}: {name}: {x.tolist()} vs {y.tolist()}")
        return 0.0
    x, y = x.astype(float), y.astype(float)
    both_nan = np.isnan(x) & np.isnan(y)
    check(bool(np.array_equal(np.isnan(x), np.isnan(y))), clause, lambda: f"{where}: {name}: NaN pattern differs")
    x, y = np.where(both_nan, 0.0, x), np.where(both_nan, 0.0, y)
    if name.endswith("_phase"):
        # the branch of the phase (multiples of 2 pi) is not part of the statement; a phase is as well defined as
        # the amplitude it belongs to is large (weight = amplitude / largest amplitude, same dims)
        d = np.abs(np.angle(np.exp(1j * (x - y))))
        w = np.ones_like(d) if weight is None else np.abs(weight.transpose(*a.dims).values) / max(float(np.abs(weight.values).max()), 1e-300)
        worst = float((d * w).max()) if d.size else 0.0
        if worst > 10 * tol:
            idx = np.unravel_index(int(np.argmax(d * w)), d.shape)
            at = {dname: (a.coords[dname].values[i].item() if dname in a.coords else int(i)) for dname, i in zip(a.dims, idx)}
            check(False, clause, lambda: f"{where}: '{name}' differs between the twins by {d[idx]:.3e} rad (relative amplitude {w[idx]:.3e}) at {at}")
        return worst
    var_scale = max(float(np.abs(x).max(initial=0.0)), float(np.abs(y).max(initial=0.0)), float(floor_scale))
    # scale of each labelled slice (along the label-like dimensions), floored at 1e-3 of the variable's scale
    label_dims = [i for i, dname in enumerate(a.dims) if (_is_label_dim(a, dname) and a.coords[dname].dtype.kind in "OUS") or dname.startswith("component_")]
    other = tuple(i for i in range(x.ndim) if i not in label_dims)
    slice_scale = np.maximum(np.abs(x), np.abs(y)).max(axis=other, keepdims=True) if x.size else np.zeros_like(x)
    scale = np.maximum(slice_scale, 1e-3 * var_scale)
    err = np.abs(x - y)
    rel = np.where(scale > 0, err / np.where(scale > 0, scale, 1.0), np.where(err > 0, np.inf, 0.0))
    worst = float(rel.max()) if rel.size else 0.0
    if worst > tol:
        idx = np.unravel_index(int(np.argmax(rel)), rel.shape)
        sc = float(np.broadcast_to(scale, rel.shape)[idx])
        at = {dname: (a.coords[dname].values[i].item() if dname in a.coords else int(i)) for dname, i in zip(a.dims, idx)}
        labels = {d_: a.coords[d_].values.tolist() for d_ in a.dims if _is_label_dim(a, d_) and a.coords[d_].dtype.kind in "OUS"}
        check(False, clause, lambda: f"{where}: '{name}' differs between the twins by {err[idx]:.3e} (slice scale {sc:.3e}) at {at}; "
              f"base value {x[idx]!r}, twin value {y[idx]!r}; labels {labels}")
    return worst


def clause_of(name, mc_labels, prefix="fit.by_label"):
    for lab in sorted(mc_labels, key=len, reverse=True):
        name = name.replace(lab, "*")
    return f"{prefix}:{name}"


def compare_result_datasets(ra, rb, where, mc_labels, tol=None, prefix="fit.by_label"):
    names_a = {n for n in list(ra.data_vars) + list(ra.coords) if not SKIP_VARIABLES.search(n)}
    names_b = {n for n in list(rb.data_vars) + list(rb.coords) if not SKIP_VARIABLES.search(n)}
    check(names_a == names_b, "fit.variables", lambda: f"{where}: only in base {sorted(names_a - names_b)}, only in twin {sorted(names_b - names_a)}")
    worst = 0.0
    for n in sorted(names_a):
        weight = None
        if n.endswith("_phase") and n[: -len("_phase")] + "_associated_spectra" in ra:
            weight = ra[n[: -len("_phase")] + "_associated_spectra"]
        # a residual is as accurate as the data it is the small difference of
        floor = 1e3 * float(np.abs(ra["data"].values).max()) if ("residual" in n and "data" in ra) else 0.0
        worst = max(worst, compare_arrays(n, ra[n], rb[n], where, clause_of(n, mc_labels, prefix), mc_labels, tol, weight, floor))
    return worst


def internal_label_consistency(r, where):
    """Within one result: what is reported under a species / oscillation label is the clp / matrix column of that label."""
    def same(x, y, clause, what):
        x, y = np.asarray(x, dtype=float), np.asarray(y, dtype=float)
        check(x.shape == y.shape and bool(np.allclose(x, y, rtol=1e-12, atol=0.0, equal_nan=True)), clause, lambda: f"{where}: {what}")

    if "species" in r.coords and "clp" in r and "clp_label" in r.clp.dims:
        for name in r.data_vars:
            if name.startswith("species_associated_") and "species" in r[name].dims:
                for s in r.species.values:
                    same(r[name].sel(species=s), r.clp.sel(clp_label=s), "fit.species_associated_is_clp_of_label", f"{name}[{s}] != clp[{s}]")
        if "species_concentration" in r and "matrix" in r:
            for s in r.species.values:
                same(r.species_concentration.sel(species=s), r.matrix.sel(clp_label=s), "fit.species_concentration_is_column_of_label", f"species_concentration[{s}] != matrix[{s}]")
    for prefix_dim in [d for d in r.dims if d.endswith("damped_oscillation") or d.endswith("pfid")]:
        for o in r.coords[prefix_dim].values:
            for part in ("cos", "sin"):
                if f"{prefix_dim}_{part}" in r:
                    same(r[f"{prefix_dim}_{part}"].sel({prefix_dim: o}), r.matrix.sel(clp_label=f"{o}_{part}"), "fit.oscillation_profile_is_column_of_label", f"{prefix_dim}_{part}[{o}] != matrix[{o}_{part}]")
            if f"{prefix_dim}_associated_spectra" in r:
                amp = np.hypot(r.clp.sel(clp_label=f"{o}_cos").values, r.clp.sel(clp_label=f"{o}_sin").values)
                same(r[f"{prefix_dim}_associated_spectra"].sel({prefix_dim: o}), amp, "fit.oscillation_spectrum_is_amplitude_of_label", f"{prefix_dim}_associated_spectra[{o}]")
    if "baseline" in r and "clp_label" in r.clp.dims:
        labs = [l for l in r.clp_label.values if str(l).endswith("_baseline")]
        if len(labs) == 1:
            same(r.baseline, r.clp.sel(clp_label=labs[0]), "fit.baseline_is_clp_of_label", "baseline")


def run_fit(case, spec, data, ds_order, start=None, nfev=NFEV):
    from glotaran.optimization.optimize import optimize
    from glotaran.project import Scheme

    model, perturbed = build(spec, case["parameters"], perturb=case["perturb"])
    scheme = Scheme(model, perturbed if start is None else start, {ds: data[ds] for ds in ds_order}, maximum_number_function_evaluations=nfev)
    return optimize(scheme, verbose=False, raise_exception=True)


def _decade(v):
    return "0" if v == 0 else f"1e{int(np.floor(np.log10(v)))}"


def _base_fit(case, data, order, nfev):
    """The fit of the (unpermuted) model; an optimiser that walks out of the model's domain is not a verdict."""
    try:
        return run_fit(case, case["spec"], data, order, nfev=nfev)
    except ValueError as e:
        if str(e).startswith("Non-finite concentrations") or "infs or NaNs" in str(e):
            raise Discard("optimiser left the domain of the model (non-finite rates / concentrations)") from e
        raise


def _values(result):
    return {p.label: p.value for p in result.optimized_parameters.all()}


def _same_point(ra, rc, where, cond, dnorm2, mc_labels):
    """The twin evaluated at the same parameters: cost and every labelled result array, tight tolerance."""
    pa, pc = _values(ra), _values(rc)
    check(set(pa) == set(pc), "fit.parameter_labels", "")
    if not all(abs(pa[k] - pc[k]) <= 1e-9 * max(abs(pa[k]), 1e-3) for k in pa):
        # (scipy moves start values lying on a bound into the interior by a relative 1e-10; anything larger is not "the same point")
        raise Discard("one evaluation moved the parameters")
    cdiff = abs(ra.cost - rc.cost) / max(ra.cost, rc.cost, 1e-300)
    check(abs(ra.cost - rc.cost) <= SAME_POINT_TOL * max(ra.cost, rc.cost) + 1e-13 * dnorm2, "fit.cost_at_same_parameters",
          lambda: f"{where}: cost {ra.cost!r} vs {rc.cost!r} (relative {cdiff:.2e}; cond {cond:.1e})")
    check(set(ra.data) == set(rc.data), "fit.datasets", "")
    worst = 0.0
    for ds in ra.data:
        internal_label_consistency(ra.data[ds], f"{ds} (base, {where})")
        internal_label_consistency(rc.data[ds], f"{ds} (twin, {where})")
        worst = max(worst, compare_result_datasets(ra.data[ds], rc.data[ds], f"{ds} ({where})", mc_labels, SAME_POINT_TOL))
    return cdiff, worst


def prop_twin_fit(case):
    """optimize() on the same seeded data, model and twin:
    (a) one evaluation at the same perturbed start values, and the twin at the optimum the model reached after
        NFEV evaluations: cost and every labelled result array agree (by label) to SAME_POINT_TOL;
    (b) one optimisation step (2 evaluations) from the same start values: cost and parameters agree to a tolerance
        derived from the forward-difference noise of the Jacobian (>= FIT_TOL), skipped when that exceeds 1e-3."""
    with warnings.catch_warnings():
        warnings.simplefilter("ignore")
        with expect_ok("fit.build"):
            model, truth = build(case["spec"], case["parameters"])
            twin_spec = gen.apply_perm(case["spec"], case["perm"])
            build(twin_spec, case["parameters"])
        with expect_ok("fit.simulate"):
            cond = worst_condition(case, model, truth)
            if not np.isfinite(cond) or cond > COND_MAX:
                raise Discard("clp matrix cond > 1e6")
            _, start = build(case["spec"], case["parameters"], perturb=case["perturb"])
            cond_start = worst_condition(case, model, start)
            if not np.isfinite(cond_start) or cond_start > COND_MAX:
                raise Discard("clp matrix cond > 1e6 at the start values")
            data = simulate_data(case, model, truth)
        for ds, d in data.items():
            if not np.all(np.isfinite(d.data.values)):
                raise Discard("non-finite simulated data")
        base_order, twin_order = list(case["spec"]["dataset"]), list(twin_spec["dataset"])
        dnorm2 = 0.5 * sum(float((d.data.values**2).sum()) for d in data.values())
        mc_labels = list(case["spec"]["megacomplex"])
        # (a1) same start values
        with expect_ok("fit.optimize"):
            r0 = run_fit(case, case["spec"], data, base_order, nfev=1)
        with expect_ok("fit.optimize_twin"):
            t0 = run_fit(case, twin_spec, data, twin_order, nfev=1)
        cdiff0, worst0 = _same_point(r0, t0, "start values", max(cond, cond_start), dnorm2, mc_labels)
        # (a2) the optimum of the model
        with expect_ok("fit.optimize"):
            ra = _base_fit(case, data, base_order, NFEV)
        pa = _values(ra)
        if not all(np.isfinite(v) for v in pa.values()) or not np.isfinite(ra.cost):
            raise Discard("fit of the base model diverged")
        cond_opt = worst_condition(case, model, ra.optimized_parameters)
        if not np.isfinite(cond_opt) or cond_opt > COND_MAX:
            raise Discard("clp matrix cond > 1e6 at the optimised parameters")
        with expect_ok("fit.optimize_twin"):
            rc = run_fit(case, twin_spec, data, twin_order, start=ra.optimized_parameters, nfev=1)
        cdiff1, worst1 = _same_point(ra, rc, "optimised values", max(cond, cond_opt), dnorm2, mc_labels)
        moved = max((abs(pa[p.label] - p.value) / max(abs(p.value), 1e-12) for p in ra.initial_parameters.all()), default=0.0)
        # (b) one optimisation step from the same start values.  The optimiser differentiates the objective by forward
        # differences (step h >= 1.5e-8 in its internal parameters).  The rounding differences between the twins' objectives
        # (eps x cond of the clp problem x |data|) become relative errors  eps cond |data| / (h |J_j|)  of column j of the
        # Jacobian and, amplified by cond(J) (column-normalised), of the step.  Tolerance: ten times that estimate, from the
        # Jacobian the fit reports at the start values; the comparison is skipped when it exceeds 1e-3.
        J = np.asarray(r0.jacobian, dtype=float) if r0.jacobian is not None else np.zeros((0, 0))
        cond_j, tol_fit = 1.0, FIT_TOL
        if J.size:
            nrm = np.linalg.norm(J, axis=0)
            if np.any(nrm == 0) or not np.all(np.isfinite(J)):
                cond_j = tol_fit = np.inf
            else:
                sv = np.linalg.svd(J / nrm, compute_uv=False)
                cond_j = float(sv[0] / sv[-1]) if sv[-1] > 0 else np.inf
                noise = 1e-16 * max(10.0, cond, cond_start) * np.sqrt(2 * dnorm2) / (1.5e-8 * float(nrm.min()))
                tol_fit = max(FIT_TOL, 10.0 * noise * cond_j)
        compared = tol_fit <= 1e-3
        if compared:
            with expect_ok("fit.optimize"):
                ra2 = _base_fit(case, data, base_order, 2)
            with expect_ok("fit.optimize_twin"):
                rb2 = run_fit(case, twin_spec, data, twin_order, nfev=2)
            p2, q2, p0 = _values(ra2), _values(rb2), _values(r0)
            tdiff = abs(ra2.cost - rb2.cost) / max(ra2.cost, rb2.cost, 1e-300)
            check(abs(ra2.cost - rb2.cost) <= tol_fit * max(ra2.cost, rb2.cost, r0.cost) + 1e-13 * dnorm2, "fit.cost",
                  lambda: f"cost after one step {ra2.cost!r} vs {rb2.cost!r} (relative {tdiff:.2e}, tolerance {tol_fit:.1e}; cond J {cond_j:.1e})")
            pdiff = 0.0
            for lab in p2:
                rel = abs(p2[lab] - q2[lab]) / max(abs(p2[lab]), abs(q2[lab]), abs(p0[lab]), 1e-3)
                pdiff = max(pdiff, rel)
                check(rel <= tol_fit, "fit.parameters", lambda: f"{lab} after one step: {p2[lab]!r} vs {q2[lab]!r} (relative {rel:.2e}, tolerance {tol_fit:.1e}; cond J {cond_j:.1e})")
    tags = tags_of(case) + [f"cond:1e{int(np.log10(max(cond, cond_opt, cond_start)))}", "moved" if moved > 1e-3 else "not_moved",
                            f"observed_same_point_cost_difference:{_decade(max(cdiff0, cdiff1))}",
                            f"observed_same_point_array_difference:{_decade(max(worst0, worst1))}",
                            "steps_compared" if compared else "steps_not_compared(tolerance > 1e-3)"]
    if compared:
        tags += [f"observed_step_cost_difference:{_decade(tdiff)}", f"observed_step_parameter_difference:{_decade(pdiff)}",
                 f"observed_step_parameter_difference_over_tolerance:{_decade(pdiff / tol_fit)}"]
    return {"nontrivial": perm_nontrivial(case), "tags": tags}


# ------------------------------------------------------------------------------------------
# self-check of the oracle machinery (exit 2 when it fails)


def selfcheck():
    import xarray as xr

    from vlib.core import Violation

    # 1. apply_perm keeps label <-> parameter pairs and changes nothing but order
    b, ds, (key, item) = gen.base_single("damped-oscillation", 3, "none")
    spec = b.spec
    twin = gen.apply_perm(spec, {"mc_labels": {"mc1": [2, 0, 1]}, "sections": {"megacomplex": [0]}})
    m0, m1 = spec["megacomplex"]["mc1"], twin["megacomplex"]["mc1"]
    assert m1["labels"] == ["osc3", "osc1", "osc2"], m1
    assert dict(zip(m0["labels"], zip(m0["frequencies"], m0["rates"]))) == dict(zip(m1["labels"], zip(m1["frequencies"], m1["rates"])))
    assert gen.perm_is_identity({"mc_labels": {"a": [0, 1]}, "split": []}) and not gen.perm_is_identity({"ic": {"j": [1, 0]}})
    b, _, _ = gen.base_combo("par+doas+base", "none")
    twin = gen.apply_perm(b.spec, {"ds_mc": {"dataset_1": [2, 0, 1]}, "split": ["mc_b"]})
    d0, d1 = b.spec["dataset"]["dataset_1"], twin["dataset"]["dataset_1"]
    assert d1["megacomplex"] == ["mc_c", "mc_a", "mc_b__osc1", "mc_b__osc2", "mc_b__osc3"], d1
    assert d1["megacomplex_scale"] == [d0["megacomplex_scale"][i] for i in (2, 0, 1, 1, 1)]
    # 2. the by-label comparison sees a swap of two labelled slices and accepts a consistent permutation
    a = xr.DataArray(np.array([[1.0, 2.0, 3.0], [4.0, 5.0, 6.0]]), coords=[("spectral", [1.0, 2.0]), ("species", ["a", "b", "c"])])
    good = a.isel(species=[2, 0, 1])
    bad = xr.DataArray(a.values, coords=[("spectral", [1.0, 2.0]), ("species", ["b", "a", "c"])])
    assert compare_arrays("x", a, good, "selfcheck", "c", []) == 0.0
    try:
        compare_arrays("x", a, bad, "selfcheck", "c", [])
    except Violation:
        pass
    else:
        raise AssertionError("swap not detected")
    la = (["p", "q"], {"p": [np.array([[1.0, 2.0]])], "q": [np.array([[3.0, 4.0]])]}, 2)
    lb = (["q", "p"], {"q": [np.array([[3.0, 4.0]])], "p": [np.array([[1.0, 2.0]])]}, 2)
    lc = (["q", "p"], {"q": [np.array([[1.0, 2.0]])], "p": [np.array([[3.0, 4.0]])]}, 2)
    compare_labelled_columns(la, lb, "s", "selfcheck")
    try:
        compare_labelled_columns(la, lc, "s", "selfcheck")
    except Violation:
        pass
    else:
        raise AssertionError("column swap not detected")
    # 3. reference composition on a hand-computed instance (two stub megacomplexes, one 2-D, one 3-D, label 'b' shared)
    class Stub:
        def __init__(self, labels, m):
            self.labels, self.m = labels, m

        def calculate_matrix(self, dm, g, t):
            return list(self.labels), self.m.copy()

    class DM:
        megacomplex_scale = [2.0, 0.5]
        megacomplex = [Stub(["a", "b"], np.array([[1.0, 10.0], [2.0, 20.0]])),
                       Stub(["b", "c"], np.array([[[1.0, 3.0], [1.0, 3.0]], [[2.0, 5.0], [4.0, 7.0]]]))]

    ref, mag, any3d, n_shared = reference_composition(DM, np.array([0.0, 1.0]), np.array([0.0, 1.0]))
    assert any3d and n_shared == 1
    assert np.array_equal(ref["a"], [[2.0, 4.0], [2.0, 4.0]])
    assert np.array_equal(ref["b"], [[20.5, 40.5], [21.0, 42.0]])
    assert np.array_equal(ref["c"], [[1.5, 1.5], [2.5, 3.5]])


# ------------------------------------------------------------------------------------------


PROPERTY = Property(
    id="C06",
    level="exploration",
    rule=(
        "Built-in megacomplex models as spec dicts (decay with K-matrices + initial concentration in chain / branch / parallel "
        "topologies, decay-parallel, decay-sequential, damped-oscillation, pfid, spectral incl. full models, baseline, "
        "coherent-artifact, clp-guide; <= 3 megacomplexes per dataset sharing labels or not; none / Gaussian / multi-Gaussian / "
        "dispersed Gaussian IRF; 1-3 datasets, linked or not, with megacomplex and dataset scales) paired with a declaration "
        "permutation (label lists with their parameters, initial-concentration lists, K-matrix entries and lists, megacomplex "
        "lists with megacomplex_scale, dict order of every model section, dataset order; or a split of an oscillation / spectral "
        "megacomplex into single-label megacomplexes). decay-sequential compartments are never permuted. Exhaustive grids: every "
        "permutation of 2-4 labels per permutable type x 4 IRF settings, every order of 3 megacomplexes x every inner label "
        "order, every order of 3 datasets x megacomplex section; every ordered selection of 1-3 megacomplexes out of a pool of 8 "
        "for the composition oracle; every non-identity order of 3 labels / megacomplexes / datasets through optimize(). "
        "Non-trivial = non-identity permutation or split (twins) or a shared label / mixed 2-D + 3-D contributions (composition); "
        "distinct = distinct case digest."
    ),
    subs=[
        Sub("twin_matrix_grid", prop=prop_twin_matrix, enumerate=gen.grid_twin_matrix, exhaustive=True,
            doc="all permutations up to 4 labels / 3 megacomplexes / 3 datasets of the base models; matrix columns by label"),
        Sub("twin_matrix", prop=prop_twin_matrix, strategy=lambda: gen.twin_cases(), budget={"quick": 1600, "thorough": 60000},
            doc="random models x random declaration permutations or splits; matrix columns by label"),
        Sub("compose_grid", prop=prop_compose, enumerate=gen.grid_compose, exhaustive=True,
            doc="every ordered selection of <= 3 megacomplexes from a pool with shared labels and 2-D / 3-D contributions"),
        Sub("compose", prop=prop_compose, strategy=lambda: gen.compose_cases(), budget={"quick": 600, "thorough": 20000},
            doc="random models, every order of each dataset's megacomplex list against the scaled-sum reference"),
        Sub("twin_fit_grid", prop=prop_twin_fit, enumerate=gen.grid_twin_fit, exhaustive=True,
            doc="optimize() twins for every non-identity order of 3 labels / 3 megacomplexes / 3 datasets of the base models"),
        Sub("twin_fit", prop=prop_twin_fit, strategy=lambda: gen.twin_cases(for_fit=True), budget={"quick": 320, "thorough": 10000},
            doc="optimize() twins on seeded simulated data: cost and every labelled result array by label at the same parameters; one optimisation step"),
    ],
    assumptions=[
        f"matrix columns compared by label with tolerance {MATRIX_TOL:g} of the column scale (max |column|; composition: sum of the scaled contributions' max)",
        "fit twins run optimize() on seeded data (glotaran.simulation.simulate with explicit clp and noise_seed, or the full model) from perturbed start values. "
        f"(a) model and twin evaluated at the same parameters (the start values; the optimum the model reaches after {NFEV} evaluations): cost and every labelled "
        f"result array agree by label to {SAME_POINT_TOL:g} of the labelled slice's scale (floored at 1e-3 of the variable's scale; residuals: of the data scale); "
        "phases compared modulo 2 pi weighted by the relative amplitude; decay-associated data and A-matrices compared after ordering components by rate; "
        "singular vectors and component numbers not compared. "
        f"(b) one optimisation step from the same start values: cost and parameters agree to max({FIT_TOL:g}, 10 x eps x cond(clp) x |data| / (1.5e-8 x min |J_j|) x cond(J)) "
        "- the optimiser's forward-difference Jacobian amplifies the rounding differences between the twins' objectives, so longer trajectories are not compared "
        "(DESIGN's 1e-7 on the optimised parameters is not attainable); skipped when the tolerance exceeds 1e-3",
        f"fit cases whose per-index clp matrix has cond > {COND_MAX:g} (at the generating, start or optimised parameters) are discarded and counted, as are fits in which the optimiser "
        "leaves the model's domain (non-finite concentrations); variable projection only",
        "K-matrix models are generated outside the region of C04 finding D4 (chains excited at the head only, no rings / reversible pairs); "
        "a dataset's initial concentration lists exactly the species of its decay megacomplexes; pfid rates are bounded below zero",
        "splitting is asserted for oscillation and spectral megacomplexes only (decay-parallel normalises its inputs by the number of compartments)",
    ],
    selfcheck=selfcheck,
)
