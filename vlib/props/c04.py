"""C04 - decay matrices are the solution of the compartmental rate equations.

Oracle: c(t) = exp(K t) j with K and the normalised j assembled by ``vlib.oracle.c04_expm`` from
the *spec* (never from glotaran objects) and evaluated with ``mpmath.expm`` at 50 digits.

Sub-checks
  decay         general ``decay`` megacomplex (1-3 combined K-matrices, any declaration order) vs oracle
  seqpar        ``decay-sequential`` / ``decay-parallel`` vs oracle and vs the general megacomplex
                with the equivalent K / j (declared in another order)
  conservation  closed systems (no loss channel): total population constant
  reported      one-evaluation ``optimize()``: species_concentration, a_matrix / rates / lifetimes,
                DAS = SAS x A^T, k_matrix  (component order is never assumed: rows of A are paired
                with the rate coordinate of the same component index only)
"""

from __future__ import annotations

import functools
import warnings

import numpy as np
from hypothesis import assume
from hypothesis import strategies as st

from vlib.core import Discard
from vlib.core import Property
from vlib.core import Sub
from vlib.core import check
from vlib.core import expect_ok
from vlib.oracle import c04_expm as ora

EPS = ora.EPS
LABELS = ["s1", "s2", "s3", "s4", "s5"]
TOPOLOGIES = ["chain", "dag", "reversible", "parallel", "ring", "random"]
MAX_COND = 1e6
MAX_KT = 1e7
MIN_GAP = 1e-2

# ------------------------------------------------------------------------------------------
# generators


def _sig(x, digits=4):
    return float(f"{x:.{digits}g}")


@st.composite
def _rate(draw, near=None):
    """log-uniform over 1e-3..1e3 (4 significant digits); sometimes close to an earlier rate."""
    if near and draw(st.integers(0, 9)) == 0:
        base = draw(st.sampled_from(near))
        r = _sig(base * (1 + draw(st.floats(0.011, 0.2))), 6)
        if 1e-3 <= r <= 1e3:
            return r
    return _sig(10 ** draw(st.floats(-3, 3)))


@st.composite
def _entries(draw, n, topo, closed=False):
    """List of [to, from, rate] in flow labels LABELS[:n]; every compartment is involved."""
    f = LABELS[:n]
    ent = {}
    used = []

    def put(to, fr):
        r = draw(_rate(near=used))
        used.append(r)
        ent[(to, fr)] = r

    if topo == "parallel":
        for c in f:
            put(c, c)
    elif topo == "chain":
        for i in range(n - 1):
            put(f[i + 1], f[i])
    elif topo == "dag":
        for b in range(1, n):
            for a in range(b):
                if draw(st.integers(0, 9)) < 4:
                    put(f[b], f[a])
    elif topo == "reversible":
        for i in range(n - 1):
            put(f[i + 1], f[i])
        back = [i for i in range(n - 1) if draw(st.booleans())]
        if not back and n > 1:
            back = [draw(st.integers(0, n - 2))]
        for i in back:
            put(f[i], f[i + 1])
    elif topo == "ring":
        for i in range(n - 1):
            put(f[i + 1], f[i])
        if n > 1:
            put(f[0], f[n - 1])
    elif topo == "random":
        for i in range(n - 1):
            put(f[i + 1], f[i])
            if draw(st.integers(0, 9)) < 4:
                put(f[i], f[i + 1])
        for b in range(2, n):
            for a in range(b - 1):
                if draw(st.integers(0, 9)) < 3:
                    put(f[b], f[a])
    else:
        raise ValueError(topo)
    if not closed:
        outgoing = {c: sum(1 for (to, fr) in ent if fr == c) for c in f}
        involved = {c for k in ent for c in k}
        for c in f:
            if c not in involved:
                put(c, c)  # an isolated compartment needs at least its own loss entry
            elif outgoing[c] == 0:
                if draw(st.integers(0, 9)) < 8:
                    put(c, c)
            elif (c, c) not in ent and draw(st.integers(0, 9)) < 3:
                put(c, c)
    return [[to, fr, r] for (to, fr), r in ent.items()]


@st.composite
def _split(draw, entries):
    """Distribute the final entries over 1-3 K-matrices; earlier matrices may hold overridden decoys."""
    m = draw(st.sampled_from([1, 1, 2, 3]))
    m = min(m, len(entries))
    perm = draw(st.permutations(list(range(len(entries)))))
    mats = [[] for _ in range(m)]
    # every matrix gets at least one final entry
    for idx, e in enumerate(perm):
        home = idx if idx < m else draw(st.integers(0, m - 1))
        mats[home].append(list(entries[e]))
        for earlier in range(home):
            if draw(st.integers(0, 9)) < 3:
                to, fr, _ = entries[e]
                mats[earlier].append([to, fr, draw(_rate())])
    out = []
    for mt in mats:
        p = draw(st.permutations(list(range(len(mt)))))
        out.append([mt[i] for i in p])
    return out


@st.composite
def _initial(draw, comps):
    n = len(comps)
    mode = draw(st.sampled_from(["first", "one", "several", "all"]))

    def val():
        return draw(st.sampled_from([1.0, 1.0, None])) or _sig(draw(st.floats(0.05, 20.0)), 3)

    j = [0.0] * n
    if mode == "first":
        j[0] = val()
    elif mode == "one":
        j[draw(st.integers(0, n - 1))] = val()
    elif mode == "several" and n >= 2:
        k = draw(st.integers(2, n))
        for i in draw(st.permutations(list(range(n))))[:k]:
            j[i] = val()
    else:
        j = [val() for _ in range(n)]
    exclude = []
    if draw(st.integers(0, 9)) < 4:
        exclude = [c for c in comps if draw(st.booleans())]
        inc = [i for i, c in enumerate(comps) if c not in exclude]
        if inc and sum(j[i] for i in inc) <= 0:
            # the documented normalisation needs a positive sum over the non-excluded compartments
            pos = [c for i, c in enumerate(comps) if j[i] > 0 and c in exclude]
            exclude.remove(pos[0])
    return j, exclude


@st.composite
def _times(draw, rates, k_norm1, lo=1, hi=8):
    nt = draw(st.integers(lo, hi))
    tmax = 0.999 * MAX_KT / k_norm1 if k_norm1 > 0 else 1e6
    ts = set()
    if draw(st.integers(0, 3)) > 0:
        ts.add(0.0)
    tries = 0
    while len(ts) < nt and tries < 40:
        tries += 1
        if draw(st.booleans()):
            t = 10 ** draw(st.floats(-3, 2)) / draw(st.sampled_from(rates))
        else:
            t = 10 ** draw(st.floats(-6, 6))
        if _sig(min(t, tmax), 6) in ts:
            t = t * (1.0 + 0.37 * len(ts))  # keep the axis growing instead of re-drawing the same point
        t = _sig(min(t, tmax), 6)
        if t > tmax:
            t = float(np.nextafter(tmax, 0))
        ts.add(t)
    return sorted(ts)


def _spectrum_ok(K):
    lam, real, gap, cond = ora.spectrum(K)
    return real and gap >= MIN_GAP and np.all(lam <= 0 + 1e-9 * max(1.0, np.abs(lam).max()))


@st.composite
def decay_cases(draw, closed=False, lo_t=1, hi_t=8):
    n = draw(st.integers(2 if closed else 1, 5))
    topo = draw(st.sampled_from(["chain", "reversible", "ring", "random", "dag"] if closed else TOPOLOGIES))
    entries = draw(_entries(n, topo, closed=closed))
    assume(entries)
    flow = LABELS[:n]
    assume({c for to, fr, _ in entries for c in (to, fr)} == set(flow))
    comps = list(flow) if draw(st.booleans()) else list(draw(st.permutations(flow)))
    K = ora.assemble(ora.combined_entries([entries]), comps)
    assume(_spectrum_ok(K))
    j, exclude = draw(_initial(comps))
    times = draw(_times([e[2] for e in entries], ora.norm1(K), lo_t, hi_t))
    return {
        "compartments": comps,
        "k_matrices": draw(_split(entries)),
        "j": j,
        "exclude": exclude,
        "times": times,
        "topology": topo,
    }


@st.composite
def seqpar_cases(draw):
    kind = draw(st.sampled_from(["sequential", "parallel"]))
    n = draw(st.integers(1, 5))
    comps = list(draw(st.permutations(LABELS[:n])))
    rates = []
    for _ in range(n):
        rates.append(draw(_rate(near=rates)))
    lam = np.array(rates)
    for a in range(n):
        for b in range(a + 1, n):
            assume(abs(lam[a] - lam[b]) >= MIN_GAP * max(lam[a], lam[b]))
    k1 = max(rates) if kind == "parallel" else 2 * max(rates)
    times = draw(_times(rates, k1))
    return {
        "kind": kind,
        "compartments": comps,
        "rates": rates,
        "times": times,
        "general_order": list(draw(st.permutations(comps))),
    }


@st.composite
def reported_cases(draw):
    kind = draw(st.sampled_from(["decay", "decay", "decay", "decay-sequential", "decay-parallel"]))
    if kind == "decay":
        case = draw(decay_cases(lo_t=10, hi_t=16))
    else:
        sp = draw(seqpar_cases())
        r = sp["rates"]
        case = {"compartments": sp["compartments"], "rates": r,
                "times": draw(_times(r, 2 * max(r), 10, 16))}
    case["kind"] = kind
    case["data_seed"] = draw(st.integers(0, 2**31 - 1))
    case["n_spectral"] = draw(st.integers(2, 4))
    case["non_negative_rates"] = draw(st.booleans())
    # variable projection only: the pinned scipy nnls fails on ill-conditioned matrices (known finding N1 of C01)
    case["residual_function"] = "variable_projection"
    return case


# ------------------------------------------------------------------------------------------
# building glotaran objects from a case


@functools.lru_cache(maxsize=1)
def _model_class():
    from glotaran.builtin.megacomplexes.decay import DecayMegacomplex
    from glotaran.builtin.megacomplexes.decay import DecayParallelMegacomplex
    from glotaran.builtin.megacomplexes.decay import DecaySequentialMegacomplex
    from glotaran.model import Model

    return Model.create_class_from_megacomplexes(
        [DecayMegacomplex, DecayParallelMegacomplex, DecaySequentialMegacomplex]
    )


def decay_spec(case, non_negative=False, residual_function="variable_projection", free="all"):
    """Model dict + parameter dict for a general ``decay`` megacomplex.

    ``free="first"``: only the first rate parameter varies (keeps the fit's degrees of freedom positive)."""
    from glotaran.parameter import Parameters

    comps = case["compartments"]
    kms, pd = {}, {}
    for a, km in enumerate(case["k_matrices"]):
        grp = f"k{a + 1}"
        kms[f"km{a + 1}"] = {"matrix": {(to, fr): f"{grp}.{b + 1}" for b, (to, fr, _) in enumerate(km)}}
        pd[grp] = [[str(b + 1), float(r), {"vary": bool(free == "all" or (a == 0 and b == 0))}] for b, (_, _, r) in enumerate(km)]
        pd[grp].append({"non-negative": bool(non_negative)})
    pd["j"] = [[str(i + 1), float(v)] for i, v in enumerate(case["j"])] + [{"vary": False, "non-negative": False}]
    spec = {
        "dataset_groups": {"default": {"residual_function": residual_function, "link_clp": False}},
        "initial_concentration": {
            "j1": {
                "compartments": list(comps),
                "parameters": [f"j.{i + 1}" for i in range(len(comps))],
                "exclude_from_normalize": list(case["exclude"]),
            }
        },
        "megacomplex": {"mc1": {"type": "decay", "k_matrix": list(kms)}},
        "k_matrix": kms,
        "dataset": {"d1": {"initial_concentration": "j1", "megacomplex": ["mc1"]}},
    }
    return _model_class()(**spec), Parameters.from_dict(pd)


def simple_spec(kind, comps, rates, non_negative=False, residual_function="variable_projection", free="all"):
    from glotaran.parameter import Parameters

    spec = {
        "dataset_groups": {"default": {"residual_function": residual_function, "link_clp": False}},
        "megacomplex": {
            "mc1": {"type": kind, "compartments": list(comps), "rates": [f"k1.{i + 1}" for i in range(len(comps))]}
        },
        "dataset": {"d1": {"megacomplex": ["mc1"]}},
    }
    pd = {"k1": [[str(i + 1), float(r), {"vary": bool(free == "all" or i == 0)}] for i, r in enumerate(rates)]}
    pd["k1"].append({"non-negative": bool(non_negative)})
    return _model_class()(**spec), Parameters.from_dict(pd)


def equivalent_general(kind, comps, rates, order=None):
    """The general-decay case that the statement calls 'the equivalent K-matrix' of a simple megacomplex."""
    n = len(comps)
    if kind in ("sequential", "decay-sequential"):
        km = [[comps[i + 1], comps[i], rates[i]] for i in range(n - 1)] + [[comps[-1], comps[-1], rates[-1]]]
        j = {c: (1.0 if i == 0 else 0.0) for i, c in enumerate(comps)}
    else:
        km = [[c, c, rates[i]] for i, c in enumerate(comps)]
        j = {c: 1.0 for c in comps}  # equal excitation; the documented normalisation gives 1/n each
    order = list(order or comps)
    return {"compartments": order, "k_matrices": [km], "j": [j[c] for c in order], "exclude": []}


#: how the (ascending) time axis of the case is handed to the code: order and memory representation.  The oracle works per
#: time point, so the rows are simply put back into ascending order before they are compared.
TIME_REPR = {"order": "ascending", "seed": 0, "view": "plain"}
TIME_REPRS = st.fixed_dictionaries({"order": st.sampled_from(["ascending", "ascending", "descending", "shuffled"]), "seed": st.integers(0, 10**6),
                                    "view": st.sampled_from(["plain", "plain", "readonly", "strided"])})


def with_time_repr(strategy):
    return st.tuples(strategy, TIME_REPRS).map(lambda t: {**t[0], "time_repr": t[1]})


def use_time_repr(case):
    TIME_REPR.update(case.get("time_repr") or {"order": "ascending", "seed": 0, "view": "plain"})
    r = TIME_REPR
    return [f"time_axis_{r['order']}"] + ([f"time_axis_{r['view']}"] if r["view"] != "plain" else [])


def matrix_of(model, params, times, clause):
    from glotaran.model.item import fill_item

    t = np.asarray(times, dtype=float)
    perm = np.arange(t.size)
    if TIME_REPR["order"] == "descending":
        perm = perm[::-1]
    elif TIME_REPR["order"] == "shuffled":
        perm = np.random.default_rng([TIME_REPR["seed"], t.size]).permutation(t.size)
    axis = t[perm].copy()
    if TIME_REPR["view"] == "readonly":
        axis.setflags(write=False)
    elif TIME_REPR["view"] == "strided":
        big = np.zeros(2 * axis.size)
        big[::2] = axis
        axis = big[::2]
    with expect_ok(clause), warnings.catch_warnings(), np.errstate(all="ignore"):
        warnings.simplefilter("ignore")
        dm = fill_item(model.dataset["d1"], model, params)
        mc = dm.megacomplex[0]
        if t.size >= 3 and t.max() > t.min():
            # first a decoy: another time axis of the same length and end points
            decoy = t.min() + (t.max() - t.min()) * ((axis - t.min()) / (t.max() - t.min())) ** 2
            try:
                mc.calculate_matrix(dm, np.array([0.0]), decoy)
            except Exception:  # noqa: BLE001
                pass
        labels, mat = mc.calculate_matrix(dm, np.array([0.0]), axis)
    mat = np.asarray(mat)
    if mat.ndim >= 2 and mat.shape[-2] == t.size:
        back = np.empty_like(mat)
        back[..., perm, :] = mat
        mat = back
    return list(labels), mat


# ------------------------------------------------------------------------------------------
# oracle side of a case


class Ref:
    pass


def reference(case, need_profile=True, at=None):
    """Domain checks (Discard) + oracle quantities for a general-decay case."""
    comps = list(case["compartments"])
    n = len(comps)
    if not (1 <= n <= 5) or len(set(comps)) != n:
        raise Discard("compartment list outside 1..5 distinct")
    if any(len(km) == 0 for km in case["k_matrices"]) or not (1 <= len(case["k_matrices"]) <= 3):
        raise Discard("empty k-matrix / more than 3")
    entries = ora.combined_entries(case["k_matrices"])
    if any(not (r > 0 and np.isfinite(r)) for r in entries.values()):
        raise Discard("rate not positive")
    if any(not (r > 0 and np.isfinite(r)) for km in case["k_matrices"] for _, _, r in km):
        raise Discard("rate not positive")
    if {c for k in entries for c in k} != set(comps):
        raise Discard("compartments of K and of the initial concentration differ")
    j = [float(v) for v in case["j"]]
    if len(j) != n or any(not (v >= 0 and np.isfinite(v)) for v in j) or sum(j) <= 0:
        raise Discard("initial concentration not non-negative / all zero")
    exclude = list(case["exclude"])
    inc = [i for i, c in enumerate(comps) if c not in exclude]
    if inc and sum(j[i] for i in inc) <= 0:
        raise Discard("normalisation sum is zero")
    times = [float(t) for t in case["times"]]
    if not times or times[0] < 0 or any(b <= a for a, b in zip(times, times[1:])):
        raise Discard("time axis not increasing from t>=0")
    r = Ref()
    r.comps, r.entries, r.times = comps, entries, np.array(times)
    r.K = ora.assemble(entries, comps)
    r.Kmp = ora.assemble_mp(entries, comps)
    lam, real, gap, cond = ora.spectrum(r.K)
    if not real or gap < MIN_GAP:
        raise Discard("eigenvalues not real and distinct (relative gap < 1e-2)")
    _, rel_im, gap_mp = ora.spectrum_mp(r.Kmp)
    if rel_im > 1e-30 or gap_mp < 0.999 * MIN_GAP:
        raise Discard("eigenvalues not real and distinct (relative gap < 1e-2)")
    if cond > MAX_COND:
        raise Discard("cond(V)>1e6")
    r.k1 = ora.norm1(r.K)
    if r.k1 * times[-1] > MAX_KT:
        raise Discard("|K| t_max > 1e7")
    r.lam, r.cond = lam, cond
    r.jmp = ora.normalise_mp(j, comps, exclude)
    r.j = np.array([float(v) for v in r.jmp])
    r.j1 = float(np.abs(r.j).sum())
    r.closed = not ora.has_loss(entries)
    r.tol = ora.tolerance(cond, r.k1, r.times, r.j1)
    if need_profile:
        idx = list(range(len(times))) if at is None else at
        r.at = idx
        r.c = ora.profile(r.Kmp, r.jmp, [times[i] for i in idx])
    return r


def declared_unibranched(comps, entries):
    """Input class of the closed-form path: in declaration order every compartment has exactly one
    entry leaving it (transfer or loss) and compartment i feeds compartment i+1."""
    n = len(comps)
    for i, c in enumerate(comps):
        out = [k for k in entries if k[1] == c]
        if len(out) != 1:
            return False
        if i < n - 1 and out[0][0] != comps[i + 1]:
            return False
    return True


def structure_tags(case, ref):
    comps, entries = ref.comps, ref.entries
    pos = {c: i for i, c in enumerate(comps)}
    transfers = [k for k in entries if k[0] != k[1]]
    out_deg = {c: sum(1 for k in transfers if k[1] == c) for c in comps}
    in_deg = {c: sum(1 for k in transfers if k[0] == c) for c in comps}
    branching = any(v >= 2 for v in out_deg.values()) or any(v >= 2 for v in in_deg.values())
    reversible = any((fr, to) in entries for (to, fr) in transfers)
    excited = int(sum(1 for v in case["j"] if v > 0))
    against = any(pos[to] < pos[fr] for (to, fr) in transfers)
    n = len(comps)
    tags = [f"n{n}", case.get("topology", "hand"), f"kmat{len(case['k_matrices'])}", f"excited{min(excited, 3)}"]
    if branching:
        tags.append("branching")
    if reversible:
        tags.append("reversible_step")
    if against:
        tags.append("declared_against_flow")
    if case["exclude"]:
        tags.append("exclude_from_normalize")
    if ref.closed:
        tags.append("closed")
    if sum(len(km) for km in case["k_matrices"]) > len(entries):
        tags.append("overridden_entries")
    if ref.k1 * ref.times[-1] > 1e4:
        tags.append("stiff_kt>1e4")
    tags.append("tol<=1e-9" if ref.tol.max() <= 1e-9 else "tol>1e-9")
    tags.append(f"cond1e{int(np.log10(max(ref.cond, 1)))}")
    nontrivial = n >= 3 and (branching or reversible or excited > 1 or against)
    return tags, bool(nontrivial)


def compare_profile(got, labels, ref, clause, what, tol_factor=1.0, rows=None):
    """got: (nt, n) columns labelled ``labels``; ref.c: oracle in ref.comps order."""
    comps = ref.comps
    check(sorted(labels) == sorted(comps), clause.split(".")[0] + ".labels", lambda: f"{what}: labels {labels} vs compartments {comps}")
    nt = len(ref.at)
    g = got if rows is None else got[rows]
    check(g.shape == (nt, len(comps)), clause.split(".")[0] + ".shape", lambda: f"{what}: shape {g.shape}, expected {(nt, len(comps))}")
    col = [labels.index(c) for c in comps]
    g = g[:, col]
    tol = tol_factor * ref.tol[ref.at][:, None]
    err = np.abs(g - ref.c)
    bad = ~(err <= tol)
    if bad.any():
        a, b = np.unravel_index(np.argmax(np.where(bad, err / tol, 0)), err.shape)
        check(False, clause, lambda: (
            f"{what}: compartment {comps[b]} at t={ref.times[ref.at[a]]!r}: got {g[a, b]!r}, exp(Kt)j = {ref.c[a, b]!r}, "
            f"|diff|={err[a, b]:.3e} > tol={tol[a, 0]:.3e} (cond(V)={ref.cond:.3g}, |K|_1={ref.k1:.3g}); max|diff|={np.nanmax(err):.3e}"))


# ------------------------------------------------------------------------------------------
# property functions


def prop_decay(case):
    repr_tags = use_time_repr(case)
    ref = reference(case)
    model, params = decay_spec(case)
    uni = declared_unibranched(ref.comps, ref.entries)
    sfx = "_unibranched" if uni else ""
    labels, got = matrix_of(model, params, ref.times, "decay.call" + sfx)
    check(np.all(np.isfinite(got)), "decay.finite" + sfx, "non-finite concentration")
    clause = "decay.expm" + sfx
    compare_profile(got, labels, ref, clause, "decay")
    # a refused evaluation (a non-finite parameter) must leave no trace: the same evaluation afterwards is bit-identical
    bad = params.copy()
    for p_ in bad.all():
        if p_.expression is None:
            p_.value = float("nan")
            break
    try:
        matrix_of(model, bad, ref.times, "decay.refused")
        refused = False
    except Exception:  # noqa: BLE001  (whatever the code raises for a non-finite parameter)
        refused = True
    labels2, got2 = matrix_of(model, params, ref.times, "decay.call_after_refused_evaluation" + sfx)
    check(labels2 == labels and np.array_equal(got, got2), "decay.depends_on_an_earlier_refused_evaluation",
          lambda: f"max diff {np.abs(got - got2).max() if got.shape == got2.shape else 'shape'}")
    if ref.closed:
        tot = got.sum(axis=1)
        bad = ~(np.abs(tot - ref.j.sum()) <= ref.tol * len(ref.comps))
        check(not bad.any(), "decay.conservation", lambda: f"total population {tot.tolist()} vs {ref.j.sum()!r}")
    tags, nontrivial = structure_tags(case, ref)
    if uni:
        tags.append("declared_unibranched")
    tags.append("nan_parameter_refused" if refused else "nan_parameter_accepted")
    return {"nontrivial": nontrivial, "tags": tags + repr_tags}


def prop_conservation(case):
    repr_tags = use_time_repr(case)
    """K without loss channel: sum_i c_i(t) = sum_i j_i for every t (no expm needed)."""
    ref = reference(case, need_profile=False)
    if not ref.closed:
        raise Discard("K has a loss channel")
    model, params = decay_spec(case)
    uni = declared_unibranched(ref.comps, ref.entries)
    labels, got = matrix_of(model, params, ref.times, "conservation.call" + ("_unibranched" if uni else ""))
    check(sorted(labels) == sorted(ref.comps) and got.shape == (len(ref.times), len(ref.comps)), "conservation.shape",
          lambda: f"{labels} {got.shape}")
    tot = got.sum(axis=1)
    want = float(ref.j.sum())
    err = np.abs(tot - want)
    bad = ~(err <= ref.tol * len(ref.comps))
    clause = "conservation.total_unibranched" if uni else "conservation.total"
    check(not bad.any(), clause, lambda: (
        f"total population at t={ref.times[int(np.argmax(err))]!r} is {tot[int(np.argmax(err))]!r}, initial total {want!r} "
        f"(tol {ref.tol[int(np.argmax(err))] * len(ref.comps):.3e})"))
    check(bool(np.all(got >= -ref.tol[:, None])), clause + "_nonneg", lambda: f"negative population {got.min()!r}")
    tags, nontrivial = structure_tags(case, ref)
    return {"nontrivial": nontrivial, "tags": tags + repr_tags}


def prop_seqpar(case):
    repr_tags = use_time_repr(case)
    kind, comps, rates = case["kind"], list(case["compartments"]), [float(r) for r in case["rates"]]
    if kind not in ("sequential", "parallel") or len(comps) != len(rates):
        raise Discard("bad kind")
    pre = "seq" if kind == "sequential" else "par"
    gen_case = equivalent_general(kind, comps, rates, case.get("general_order"))
    gen_case["times"] = case["times"]
    ref = reference(gen_case)  # oracle in general_order
    model, params = simple_spec(f"decay-{kind}", comps, rates)
    labels, got = matrix_of(model, params, ref.times, f"{pre}.call")
    check(np.all(np.isfinite(got)), f"{pre}.finite", "non-finite concentration")
    compare_profile(got, labels, ref, f"{pre}.expm", f"decay-{kind}")
    gmodel, gparams = decay_spec(gen_case)
    glabels, ggot = matrix_of(gmodel, gparams, ref.times, f"{pre}.general_call")
    # the general megacomplex is C04/decay's subject; here only the agreement of the two is asserted
    check(sorted(glabels) == sorted(labels), f"{pre}.vs_general_labels", lambda: f"{labels} vs {glabels}")
    g2 = ggot[:, [glabels.index(c) for c in labels]]
    err = np.abs(got - g2)
    bad = ~(err <= 2 * ref.tol[:, None])
    check(not bad.any(), f"{pre}.vs_general", lambda: (
        f"decay-{kind} vs decay with equivalent K (declared {gen_case['compartments']}): max|diff|={err.max():.3e} "
        f"tol={2 * ref.tol[np.unravel_index(np.argmax(err), err.shape)[0]]:.3e}"))
    n = len(comps)
    tags = [kind, f"n{n}", "general_same_order" if gen_case["compartments"] == comps else "general_other_order",
            "tol<=1e-9" if ref.tol.max() <= 1e-9 else "tol>1e-9"]
    return {"nontrivial": bool(n >= 3), "tags": tags + repr_tags}


def prop_reported(case):
    import xarray as xr

    from glotaran.optimization.optimize import optimize
    from glotaran.project import Scheme

    kind = case["kind"]
    nn = bool(case.get("non_negative_rates", False))
    rf = case.get("residual_function", "variable_projection")
    times = [float(t) for t in case["times"]]
    if kind == "decay":
        model, params = decay_spec(case, nn, rf, free="first")
    elif kind in ("decay-sequential", "decay-parallel"):
        model, params = simple_spec(kind, case["compartments"], case["rates"], nn, rf, free="first")
    else:
        raise Discard("bad kind")
    nt = len(times)
    ns = int(case["n_spectral"])
    if ns * (nt - len(case["compartments"])) - 1 < 1:
        raise Discard("fit would have no degrees of freedom")
    # domain check on the *input* before the fit (cheap, no expm)
    in_case = case if kind == "decay" else {**equivalent_general(kind, case["compartments"], case["rates"]), "times": times}
    ref_in = reference(in_case, need_profile=False)
    uni_in = declared_unibranched(ref_in.comps, ref_in.entries)
    rng = np.random.default_rng(case["data_seed"])
    data = rng.uniform(0.1, 1.0, (nt, ns))
    ds = xr.DataArray(data, coords=[("time", times), ("spectral", np.arange(ns, dtype=float) + 500.0)]).to_dataset(name="data")
    scheme = Scheme(model, params, {"d1": ds}, maximum_number_function_evaluations=1)
    with expect_ok("reported.optimize" + ("_unibranched" if uni_in else "")), warnings.catch_warnings(), np.errstate(all="ignore"):
        warnings.simplefilter("ignore")
        res = optimize(scheme, verbose=False, raise_exception=True)
    out = res.data["d1"]
    # the reported quantities belong to the parameters the result reports
    opt = res.optimized_parameters

    def val(label):
        return float(opt.get(label).value)

    if kind == "decay":
        rcase = {
            "compartments": case["compartments"],
            "k_matrices": [[[to, fr, val(f"k{a + 1}.{b + 1}")] for b, (to, fr, _) in enumerate(km)] for a, km in enumerate(case["k_matrices"])],
            "j": case["j"], "exclude": case["exclude"], "times": times, "topology": case.get("topology", "hand"),
        }
    else:
        rr = [val(f"k1.{i + 1}") for i in range(len(case["rates"]))]
        rcase = {**equivalent_general(kind, case["compartments"], rr), "times": times, "topology": kind}
    at = sorted({0, nt // 3, (2 * nt) // 3, nt - 1})
    ref = reference(rcase, at=at)
    comps = ref.comps
    for name in ("species_concentration", "a_matrix_mc1", "k_matrix_mc1", "decay_associated_spectra_mc1", "species_associated_spectra"):
        check(name in out, "reported.present", lambda: f"{name} missing from the result dataset: {list(out.data_vars)}")
    for name in ("rate_mc1", "lifetime_mc1", "species_mc1", "component_mc1", "species"):
        check(name in out.coords, "reported.present", lambda: f"coordinate {name} missing: {list(out.coords)}")
    uni = declared_unibranched(comps, ref.entries)
    sfx = "_unibranched" if uni else ""
    # species_concentration == exp(Kt) j
    sc = out.species_concentration
    check(set(sc.dims) == {"time", "species"}, "reported.dims", lambda: f"species_concentration dims {sc.dims}")
    species = [str(s) for s in sc.coords["species"].values]
    scv = sc.transpose("time", "species").values
    compare_profile(scv, species, ref, "reported.species_concentration" + sfx, "species_concentration", rows=at)
    # c(t) = sum_l A_l exp(-rate_l t)
    am = out.a_matrix_mc1
    check(set(am.dims) == {"component_mc1", "species_mc1"}, "reported.dims", lambda: f"a_matrix dims {am.dims}")
    A = am.transpose("component_mc1", "species_mc1").values
    a_species = [str(s) for s in am.coords["species_mc1"].values]
    rate = np.asarray(out.coords["rate_mc1"].values, dtype=float)
    life = np.asarray(out.coords["lifetime_mc1"].values, dtype=float)
    check(out.coords["rate_mc1"].dims == ("component_mc1",) and out.coords["lifetime_mc1"].dims == ("component_mc1",)
          and rate.shape == (A.shape[0],), "reported.dims", "rate/lifetime are not per component")
    tt = ref.times
    cA = np.exp(-np.outer(tt, rate)) @ A
    compare_profile(cA, a_species, ref, "reported.a_matrix_rates" + sfx, "sum_l A_l exp(-rate_l t)", tol_factor=2.0, rows=at)
    # ... and it reproduces the reported concentrations at every time point
    colA = [a_species.index(c) for c in species]
    slack = 100 * EPS * (np.exp(-np.outer(tt, rate)) * (1 + np.outer(tt, np.abs(rate)))) @ np.abs(A[:, colA]) + 1e-300
    d = np.abs(cA[:, colA] - scv)
    check(bool(np.all(d <= slack)), "reported.a_matrix_vs_concentration" + sfx, lambda: f"max |sum_l A_l exp(-rate_l t) - species_concentration| = {d.max():.3e}")
    # lifetimes
    with np.errstate(all="ignore"):
        inv = 1.0 / rate
        life_ok = (life == inv) | (np.abs(life - inv) <= 4 * EPS * np.abs(inv))
    check(bool(np.all(life_ok)), "reported.lifetime", lambda: f"lifetime {life} vs 1/rate {inv}")
    # rates = -eigenvalues of K (as a set)
    want = np.sort(-ref.lam)
    rtol = 100 * EPS * ref.cond * ref.k1
    check(rate.shape == want.shape and bool(np.all(np.abs(np.sort(rate) - want) <= rtol)), "reported.rates" + sfx,
          lambda: f"rates {np.sort(rate)} vs -eig(K) {want} (tol {rtol:.3e})")
    # DAS = SAS x A^T  (on the reported SAS and the reported A, component by component)
    sas = out.species_associated_spectra.transpose("spectral", "species").sel(species=a_species).values
    das = out.decay_associated_spectra_mc1
    check(set(das.dims) == {"spectral", "component_mc1"}, "reported.dims", lambda: f"das dims {das.dims}")
    dasv = das.transpose("spectral", "component_mc1").values
    if np.all(np.isfinite(sas)):
        wantd = sas @ A.T
        dtol = 100 * EPS * (np.abs(sas) @ np.abs(A.T)) + 1e-300
        check(bool(np.all(np.abs(dasv - wantd) <= dtol)), "reported.das", lambda: f"max |DAS - SAS A^T| = {np.abs(dasv - wantd).max():.3e}")
    # k_matrix == K (by label)
    km = out.k_matrix_mc1
    check(set(km.dims) == {"to_species_mc1", "from_species_mc1"}, "reported.dims", lambda: f"k_matrix dims {km.dims}")
    kv = km.transpose("to_species_mc1", "from_species_mc1").sel(to_species_mc1=comps, from_species_mc1=comps).values
    check(bool(np.all(np.abs(kv - ref.K) <= 8 * EPS * ref.k1)), "reported.k_matrix", lambda: f"k_matrix\n{kv}\nvs K\n{ref.K}")
    tags, nontrivial = structure_tags(rcase, ref)
    tags += [f"kind:{kind}", rf, "sas_finite" if np.all(np.isfinite(sas)) else "sas_nonfinite"]
    return {"nontrivial": bool(nontrivial or (kind != "decay" and len(comps) >= 3)), "tags": tags}


# ------------------------------------------------------------------------------------------
# sub-check: long time axes


def long_axis_cases():
    return st.tuples(st.one_of(decay_cases(), seqpar_cases()), st.sampled_from([1025, 1500, 2500, 4097, 5000, 9000]), st.integers(0, 10**6)).map(
        lambda t: {**t[0], "long_n": t[1], "pick_seed": t[2]})


def prop_long_axis(case):
    """Thousands of time points (beyond any block / buffer size an implementation may use): every row equals the row computed
    for the same time point on a short axis that holds only a few of the points (no closed form needed)."""
    use_time_repr({})
    if case.get("kind") in ("sequential", "parallel"):
        model, params = simple_spec("decay-" + case["kind"], list(case["compartments"]), [float(r) for r in case["rates"]])
    else:
        model, params = decay_spec(case)
    tmax = max([float(t) for t in case["times"]] + [1e-3])
    n = int(case["long_n"])
    times = np.linspace(0.0, tmax, n)
    rng = np.random.default_rng([case["pick_seed"], n])
    idx = sorted(set(rng.integers(0, n, 24).tolist()) | {i for i in (0, 1023, 1024, 1025, 2047, 2048, 4095, 4096, 4097, 8191, 8192, n - 2, n - 1) if i < n})
    labels_l, full = matrix_of(model, params, times, "long_axis.call")
    labels_s, part = matrix_of(model, params, times[idx], "long_axis.call_short")
    check(labels_l == labels_s, "long_axis.labels", lambda: f"{labels_l} vs {labels_s}")
    sel = full[..., idx, :]
    check(sel.shape == part.shape, "long_axis.shape", lambda: f"{sel.shape} vs {part.shape}")
    check(bool(np.array_equal(np.isfinite(sel), np.isfinite(part))), "long_axis.finite_pattern", "non-finite entries differ")
    fin = np.isfinite(sel) & np.isfinite(part)
    scale = max(float(np.abs(part[fin]).max()) if fin.any() else 0.0, 1e-300)
    err = np.abs(np.where(fin, sel - part, 0.0))
    w = np.unravel_index(int(np.argmax(err)), err.shape)
    check(float(err.max()) <= 1e-12 * scale, "long_axis.row_depends_on_other_points",
          lambda: f"{n} points: row {idx[w[-2]]} (t={times[idx[w[-2]]]!r}) differs by {float(err.max()):.3e} (scale {scale:.3e}) from the same point on a {len(idx)}-point axis")
    return {"nontrivial": True, "tags": [f"points_{n}", case.get("kind", "decay")]}


PROPERTY = Property(
    id="C04",
    level="exploration",
    rule=(
        "Hypothesis-generated compartmental schemes: 1-5 compartments, topologies chain / DAG / reversible tridiagonal chain / "
        "parallel / ring / reversible chain + feed-forward edges (accepted only if the eigenvalues are real with relative gap >= 1e-2), "
        "rates log-uniform 1e-3..1e3 (some within 1-20 % of another), 1-3 K-matrices per megacomplex with overridden entries, "
        "declaration order = flow order or a permutation, initial concentration on the first / one / several / all compartments with "
        "or without exclude_from_normalize, 1-8 increasing time points (t0 = 0 in 3 of 4 cases) up to |K|_1 t = 1e7. "
        "Non-trivial: >= 3 compartments and (branching or a reversible step or > 1 excited compartment or a transfer against the "
        "declaration order); distinct = distinct case digest."
    ),
    subs=[
        Sub("decay", prop=prop_decay, strategy=lambda: with_time_repr(decay_cases()), budget={"quick": 2400, "thorough": 100000},
            doc="general decay megacomplex matrix vs mpmath exp(Kt) j"),
        Sub("seqpar", prop=prop_seqpar, strategy=lambda: with_time_repr(seqpar_cases()), budget={"quick": 640, "thorough": 30000},
            doc="decay-sequential / decay-parallel vs oracle and vs general decay with the equivalent K, j"),
        Sub("conservation", prop=prop_conservation, strategy=lambda: with_time_repr(decay_cases(closed=True)), budget={"quick": 640, "thorough": 30000},
            doc="closed systems: total population constant"),
        Sub("long_axis", prop=prop_long_axis, strategy=long_axis_cases, budget={"quick": 64, "thorough": 3000},
            doc="time axes of 1025..9000 points: every row equals the row of the same time point on a short axis"),
        Sub("reported", prop=prop_reported, strategy=lambda: reported_cases(), budget={"quick": 400, "thorough": 12000},
            doc="result of a one-evaluation optimize(): concentrations, A-matrix, rates, lifetimes, DAS, K"),
    ],
    assumptions=[
        "mpmath.expm at 50 digits is the reference (self-checked against the analytic 2-compartment solutions, stiff ones included)",
        "tolerance per time point 100*eps*cond(V)*(1+|K|_1 t)*|j|_1 with V the unit-column eigenvector matrix of the oracle's K; "
        "cases with cond(V) > 1e6, |K|_1 t_max > 1e7 or relative eigenvalue gap < 1e-2 are discarded and counted",
        "decay-parallel: 'all compartments equally excited, normalised' is read as j = 1/n each",
        "reported quantities are compared for the parameter values the result reports (optimized_parameters)",
    ],
    selfcheck=ora.selfcheck,
)
