"""C11 - parameter transformations, bounds and fixed parameters are respected.

Sub-checks
----------
roundtrip  parameter set -> optimiser vector -> parameter set (and vector -> set -> vector) on generated
           parameter sets; selection of the free parameters; transformed bounds.
handoff    what ``optimize()`` hands to scipy (a stub substituted for the name ``least_squares`` in
           ``glotaran.optimization.optimizer``), for arbitrary parameter sets of which a small ``verif-table``
           model uses two parameters; history records / optimised set / label ordering of the result.
fits       real fits of small ``verif-table`` models in which *every* parameter is a column rate: bounds on every
           history record and in the result, fixed parameters bit-identical, expression parameters equal to their
           expression, and the ordering of Jacobian columns / covariance / standard errors against a
           finite-difference derivative of the captured objective taken *by label*.

edits      histories on ONE ``Parameters`` object: exports of the optimiser's vector (``exclude_non_vary`` True / False) and
           imports of a moved vector, interleaved with in-place edits of single parameters (``vary`` toggled; redeclared
           as a plain parameter of any kind; given an expression) and ``copy()``.  The oracle replays the edits on the
           JSON declaration: after every edit the *current* declaration decides what is free / fixed / an expression.
           Clauses are ``<sub>.initial.*`` before and ``<sub>.after_edit.*`` after the first edit that follows an observation.
refits     the same histories with ``optimize()`` runs over the same object between the edits (handoff model).

The oracle never reads glotaran's own classification: free / fixed / expression, the declaration order and the
expression values come from the generated case (``vlib.gen.params``, ``vlib.oracle.c12expr``).
"""

from __future__ import annotations

import copy
import itertools
import math

import numpy as np
from hypothesis import strategies as st

from vlib.core import Discard
from vlib.core import Property
from vlib.core import Sub
from vlib.core import Violation
from vlib.core import check
from vlib.core import expect_ok
from vlib.gen import params as gp
from vlib.oracle import c12expr as ex

INF = math.inf
RTOL = 1e-9  # the documented guard for a non-negative value of exactly 1 costs 1e-10
EXPR_RTOL = 1e-12
METHODS = {"TrustRegionReflection": "trf", "Dogbox": "dogbox", "Levenberg-Marquardt": "lm"}


# ------------------------------------------------------------------------------------------
# shared oracle pieces


def same_float(a, b) -> bool:
    a, b = float(a), float(b)
    return (math.isnan(a) and math.isnan(b)) or a == b


def oracle_view(case):
    order = gp.declaration_order(case)
    byl = gp.by_label(case)
    free = [lab for lab in order if gp.is_free(byl[lab])]
    return order, byl, free


def kinds_tags(case):
    kinds = sorted({gp.kind_of(p) for p in case["params"]})
    nontrivial = len(kinds) >= 3 and "non_negative" in kinds and ("bounded" in kinds or "one_sided" in kinds)
    return kinds, nontrivial


def expected_transform(p):
    """(x, lb, ub) the statement prescribes: identity, or logarithms for a non-negative parameter.
    Returned as (value, is_log) triples so that the comparison can be made in the right space."""
    return p["value"], p.get("min", -INF), p.get("max", INF), bool(p.get("nn"))


def check_vector_entry(prefix, label, p, x, lb, ub):
    v, mn, mx, nn = expected_transform(p)
    if not nn:
        check(same_float(x, v), f"{prefix}.x_values", lambda: f"{label}: vector entry {x!r} != value {v!r}")
        check(same_float(lb, mn) and same_float(ub, mx), f"{prefix}.bounds", lambda: f"{label}: bounds ({lb!r},{ub!r}) != ({mn!r},{mx!r})")
        return
    with np.errstate(all="ignore"):
        check(ex.close(np.exp(x), v, RTOL), f"{prefix}.log_transform", lambda: f"{label}: exp(x)={np.exp(x)!r} but value {v!r} (x={x!r})")
        if mn == -INF or mn == 0:
            check(lb == -INF, f"{prefix}.log_bounds", lambda: f"{label}: lower bound {lb!r} for minimum {mn!r}")
        else:
            check(ex.close(np.exp(lb), mn, RTOL), f"{prefix}.log_bounds", lambda: f"{label}: exp(lb)={np.exp(lb)!r} minimum {mn!r}")
        if mx == INF:
            check(ub == INF, f"{prefix}.log_bounds", lambda: f"{label}: upper bound {ub!r} for maximum inf")
        else:
            check(ex.close(np.exp(ub), mx, RTOL), f"{prefix}.log_bounds", lambda: f"{label}: exp(ub)={np.exp(ub)!r} maximum {mx!r}")


def check_bracket(prefix, label, x, lb, ub):
    tol = 1e-9 * (1 + abs(x))
    check(lb - tol <= x <= ub + tol, f"{prefix}.bracket", lambda: f"{label}: {lb!r} <= {x!r} <= {ub!r} violated")


def in_box(v, p) -> bool:
    mn, mx = p.get("min", -INF), p.get("max", INF)
    if math.isnan(v):
        return False
    if math.isfinite(mn) and v < mn - 1e-9 * abs(mn) - 1e-300:
        return False
    if math.isfinite(mx) and v > mx + 1e-9 * abs(mx) + 1e-300:
        return False
    if mn == INF or mx == -INF:
        return False
    # a non-negative parameter is exp(x): it underflows to +0.0 for x < -745, which is the correctly rounded value of
    # a positive number (tagged, not a violation); negative values are violations
    return not (p.get("nn") and not v >= 0)


def check_values_against_case(prefix, what, value_of, case, exprs, tags=None):
    """``value_of(label) -> float`` is a record (history row / optimised set).  Free parameters in the box
    (non-negative > 0), fixed bit-identical, expression parameters equal to their expression on the record."""
    plain = {}
    for p in case["params"]:
        lab = p["label"]
        if p.get("expr") is not None:
            continue
        v = float(value_of(lab))
        plain[lab] = v
        if gp.is_free(p):
            if p.get("nn") and v == 0 and tags is not None:
                tags.add("non_negative_underflow_to_zero")
            check(in_box(v, p), f"{prefix}_bounds",
                  lambda: f"{what}: free parameter {lab} = {v!r} outside [{p.get('min', -INF)!r}, {p.get('max', INF)!r}]"
                          f"{' (non-negative)' if p.get('nn') else ''}")
        else:
            check(same_float(v, p["value"]), f"{prefix}_fixed", lambda: f"{what}: fixed parameter {lab} = {v!r}, declared {p['value']!r}")
    if exprs:
        try:
            want = ex.evaluate_all(exprs, plain)
        except ex.OutOfDomain:
            if tags is not None:
                tags.add("record_expression_out_of_domain")
            return
        for lab, w in want.items():
            got = float(value_of(lab))
            check(ex.close(got, w, EXPR_RTOL), f"{prefix}_expr",
                  lambda: f"{what}: expression parameter {lab} = {got!r}, its expression {ex.render(exprs[lab])} gives {w!r} on the same record")


# ------------------------------------------------------------------------------------------
# roundtrip


def prop_roundtrip(case):
    order, byl, free = oracle_view(case)
    exprs = gp.exprs_of(case)
    plain0 = {p["label"]: p["value"] for p in case["params"] if p.get("expr") is None}
    try:
        ex.evaluate_all(exprs, plain0)
    except ex.OutOfDomain:
        raise Discard("expression out of domain") from None
    with expect_ok("roundtrip.construct"):
        P = gp.build(case)
    with expect_ok("roundtrip.get"), np.errstate(all="ignore"):
        labels, x, lb, ub = P.get_label_value_and_bounds_arrays(exclude_non_vary=True)
    labels = list(labels)
    check(labels == free, "roundtrip.free_labels", lambda: f"vector labels {labels} != free parameters in declaration order {free}")
    check(len(x) == len(lb) == len(ub) == len(free), "roundtrip.lengths", lambda: f"{len(x)},{len(lb)},{len(ub)} vs {len(free)}")
    for lab, xi, li, ui in zip(labels, x, lb, ub):
        check_vector_entry("roundtrip", lab, byl[lab], float(xi), float(li), float(ui))
        check_bracket("roundtrip", lab, float(xi), float(li), float(ui))
    # a refused conversion (sizes that do not match) leaves the parameters as they were
    if len(x) >= 1:
        before = {lab: P.get(lab).value for lab in order}
        for bad_labels, bad_x in ((labels, [float(v) + 0.25 for v in x][:-1]), (labels[:-1], [float(v) - 0.25 for v in x]), (labels, [float(v) + 0.5 for v in x] + [1.0])):
            try:
                P.set_from_label_and_value_arrays(bad_labels, bad_x)
            except ValueError:
                pass
            else:
                check(False, "roundtrip.size_mismatch_accepted", lambda: f"{len(bad_labels)} labels, {len(bad_x)} values")
            after = {lab: P.get(lab).value for lab in order}
            check(all(same_float(before[lab], after[lab]) for lab in order), "roundtrip.refused_conversion_changed_parameters",
                  lambda: f"{len(bad_labels)} labels, {len(bad_x)} values: " + ", ".join(f"{lab}: {before[lab]!r} -> {after[lab]!r}" for lab in order if not same_float(before[lab], after[lab])))
    # set -> vector -> set
    with expect_ok("roundtrip.set"):
        P.set_from_label_and_value_arrays(labels, x)
    for lab in order:
        p = byl[lab]
        got = float(P.get(lab).value)
        if gp.is_free(p):
            check(ex.close(got, p["value"], RTOL), "roundtrip.identity", lambda: f"{lab}: {p['value']!r} -> {got!r} (non_negative={p.get('nn')})")
    check_values_against_case("roundtrip.after", "after the round trip", lambda lab: P.get(lab).value, case, exprs)
    for lab, tree in exprs.items():
        check(P.get(lab).expression == ex.render(tree), "roundtrip.definition_kept", lambda: f"{lab}: {P.get(lab).expression!r}")
    # vector -> set -> vector, on a moved vector inside the box
    x2 = np.array(x, dtype=float)
    for i in range(len(x2)):
        step = 0.37 * (1 + abs(x2[i])) * (1 if i % 2 == 0 else -1)
        x2[i] = min(max(x2[i] + step, lb[i]), ub[i])
    with expect_ok("roundtrip.set"):
        P.set_from_label_and_value_arrays(labels, x2)
    with expect_ok("roundtrip.get"), np.errstate(all="ignore"):
        labels3, x3, lb3, ub3 = P.get_label_value_and_bounds_arrays(exclude_non_vary=True)
    check(list(labels3) == free, "roundtrip.free_labels", lambda: f"second export {list(labels3)} != {free}")
    for lab, a, b in zip(free, x2, x3):
        check(abs(a - b) <= 1e-9 * (1 + abs(a)), "roundtrip.vector_identity", lambda: f"{lab}: vector entry {a!r} -> {b!r}")
    check(all(same_float(a, b) for a, b in zip(lb, lb3)) and all(same_float(a, b) for a, b in zip(ub, ub3)), "roundtrip.bounds_stable",
          lambda: f"bounds changed: {lb}->{lb3}, {ub}->{ub3}")
    moved = copy.deepcopy(case)
    for p in moved["params"]:
        if gp.is_free(p):
            p["value"] = float(P.get(p["label"]).value)  # only used for the box / fixed / expression clauses below
    check_values_against_case("roundtrip.moved", "after setting a moved vector", lambda lab: P.get(lab).value, moved, exprs)
    # a vector of whole numbers handed over as integers (a list of python ints, an int64 array): the same numbers
    ks = []
    for a, lo_, hi_ in zip(x2, lb, ub):
        k = int(round(float(np.clip(a, -20.0, 20.0))))
        k = k if lo_ <= k <= hi_ else (int(math.ceil(lo_)) if math.isfinite(lo_) and math.ceil(lo_) <= hi_ else (int(math.floor(hi_)) if math.isfinite(hi_) and math.floor(hi_) >= lo_ else None))
        ks.append(k)
    if ks and all(k is not None and abs(k) <= 300 for k in ks):
        want_int = {lab: (math.exp(k) if byl[lab].get("nn") else float(k)) for lab, k in zip(free, ks)}
        plain_i = {p["label"]: want_int.get(p["label"], p["value"]) for p in case["params"] if p.get("expr") is None}
        try:
            ex.evaluate_all(exprs, plain_i)
            in_dom = True
        except ex.OutOfDomain:
            in_dom = False
        if in_dom:
            for form, vec in (("int_list", [int(k) for k in ks]), ("int64_array", np.array(ks, dtype=np.int64))):
                try:
                    with expect_ok("roundtrip.set_integers"):
                        P.set_from_label_and_value_arrays(labels, vec)
                except Violation as v:
                    if ":TypeError@" in v.clause:
                        continue  # a plain parameter refuses a value that is not a float: a clean refusal, nothing to compare
                    raise
                for lab in free:
                    got = float(P.get(lab).value)
                    check(ex.close(got, want_int[lab], RTOL), "roundtrip.integer_vector", lambda: f"{form}: {lab} <- {ks[free.index(lab)]}: value {got!r}, expected {want_int[lab]!r} (non_negative={byl[lab].get('nn')})")
    kinds, nontrivial = kinds_tags(case)
    tags = [f"kind:{k}" for k in kinds] + [f"construct:{case['construct']}"]
    if case.get("group_defaults"):
        tags.append(f"group_defaults_at_{['start', 'middle', 'end'][case['group_defaults']['pos']]}")
    if any(p.get("nn") and p["value"] == 1.0 and gp.is_free(p) for p in case["params"]):
        tags.append("non_negative_exactly_1")
    if any(gp.is_free(p) and (p["value"] == p["min"] or p["value"] == p["max"]) for p in case["params"]):
        tags.append("value_on_bound")
    if any("." in lab and lab.split(".")[-1].isdigit() for lab in order):
        tags.append("numeric_label_part")
    return {"nontrivial": nontrivial, "tags": tags}


# ------------------------------------------------------------------------------------------
# fits (also used by handoff)


class _Captured(Exception):
    pass


def _data(case):
    import xarray as xr

    from vlib import testmc

    rng = np.random.default_rng(case["seed"])
    t = np.linspace(0.0, 5.0, case["n_model"])
    g = [float(i + 1) for i in range(case["n_global"])]
    A = np.array([testmc.column(sh, case["truth"][lab], t, None) for sh, lab in zip(case["shapes"], case["rates"])]).T
    C = rng.uniform(0.5, 2.0, (A.shape[1], len(g)))
    y = A @ C + case["noise"] * rng.standard_normal((t.size, len(g)))
    return xr.DataArray(y, coords=[("model", t), ("global", g)]).to_dataset(name="data")


def _spec(case):
    """One single-column verif-table megacomplex per rate (each with its own column shape)."""
    n = len(case["rates"])
    return {
        "dataset_groups": {"default": {"residual_function": "variable_projection", "link_clp": False}},
        "megacomplex": {
            f"m{j}": {"type": "verif-table", "labels": [f"s{j}"], "rates": [case["rates"][j]], "shape": case["shapes"][j]} for j in range(n)
        },
        "dataset": {"d": {"megacomplex": [f"m{j}" for j in range(n)]}},
    }


def _scheme(case, parameters, data):
    from glotaran.project import Scheme
    from vlib import testmc

    model, _ = testmc.make_model(_spec(case), parameters)
    return Scheme(model, parameters, {"d": data}, maximum_number_function_evaluations=case["max_nfev"], optimization_method=case["method"])


def captured_objective(case, data, values: dict):
    """Objective (penalty vector) for the parameter set of the case with the non-expression values replaced by
    ``values`` - captured from the stub at x0, no optimisation."""
    from unittest import mock

    from glotaran.optimization.optimizer import Optimizer

    c2 = copy.deepcopy(case["set"])
    for p in c2["params"]:
        if p.get("expr") is None:
            p["value"] = float(values[p["label"]])
    P = gp.build(c2)
    box = {}

    def stub(fun, x0, **kw):
        box["r"] = np.array(fun(np.array(x0, dtype=float)), dtype=float)
        raise _Captured

    with mock.patch("glotaran.optimization.optimizer.least_squares", stub):
        try:
            Optimizer(_scheme(case, P, data), verbose=False, raise_exception=True).optimize()
        except _Captured:
            pass
    return box["r"]


def prop_fit(case):
    """One optimize() run through the capture stub."""
    pset = case["set"]
    order, byl, free = oracle_view(pset)
    exprs = gp.exprs_of(pset)
    sub = case["sub"]
    if not free:
        raise Discard("no free parameter")
    plain0 = {p["label"]: p["value"] for p in pset["params"] if p.get("expr") is None}
    try:
        ex.evaluate_all(exprs, plain0)
    except ex.OutOfDomain:
        raise Discard("expression out of domain") from None
    data = _data(case)
    with expect_ok(f"{sub}.construct"):
        P = gp.build(pset)
    tags = set()
    opt = fit_and_check(case, pset, P, data, sub, tags)
    # ---- classification
    kinds, nontrivial = kinds_tags(pset)
    active = False
    for lab in free:
        p, v = byl[lab], float(opt.get(lab).value)
        for b in (p.get("min", -INF), p.get("max", INF)):
            if math.isfinite(b) and abs(v - b) <= 1e-6 * max(abs(b), 1e-12):
                active = True
    if active:
        tags.add("bound_active_at_solution")
    tags |= {f"kind:{k}" for k in kinds} | {f"method:{METHODS[case['method']]}", f"construct:{pset['construct']}"}
    if case.get("truth_vs_box"):
        tags |= {f"truth:{t}" for t in case["truth_vs_box"]}
    if free != sorted(free):
        tags.add("free_order_not_sorted")
    if [lab for lab in order if lab in free] != [lab for lab in case["rates"] if lab in free]:
        tags.add("declaration_order_differs_from_column_order")
    return {"nontrivial": bool(nontrivial or active), "tags": sorted(tags)}


def fit_and_check(case, pset, P, data, sub, tags):
    """One optimize() of the model of ``case`` over the glotaran object ``P`` (through the capture stub), decided
    against the parameter set ``pset`` (the oracle's account of what ``P`` holds).  Returns the optimised set."""
    from unittest import mock

    import scipy.optimize

    from glotaran.optimization.optimize import optimize

    case = dict(case, set=pset)
    order, byl, free = oracle_view(pset)
    exprs = gp.exprs_of(pset)
    real = scipy.optimize.least_squares
    calls = []

    def stub(fun, x0, **kw):
        calls.append({"x0": np.array(x0, dtype=float), "kw": dict(kw)})
        return real(fun, x0, **kw)

    scheme = _scheme(case, P, data)
    with mock.patch("glotaran.optimization.optimizer.least_squares", stub), np.errstate(all="ignore"):
        with expect_ok(f"{sub}.optimize"):
            res = optimize(scheme, verbose=False, raise_exception=True)
    # ---- what was handed to the optimiser
    check(len(calls) == 1, f"{sub}.stub_called", lambda: f"least_squares called {len(calls)} times")
    x0, kw = calls[0]["x0"], calls[0]["kw"]
    check(len(x0) == len(free), f"{sub}.x0_length", lambda: f"len(x0)={len(x0)} but {len(free)} free parameters {free}")
    lb, ub = (np.asarray(b, dtype=float) for b in kw["bounds"])
    check(len(lb) == len(ub) == len(free), f"{sub}.bounds_length", lambda: f"{len(lb)},{len(ub)} vs {len(free)}")
    for lab, xi, li, ui in zip(free, x0, lb, ub):
        check_vector_entry(sub, lab, byl[lab], float(xi), float(li), float(ui))
        check_bracket(sub, lab, float(xi), float(li), float(ui))
    check(kw.get("method") == METHODS[case["method"]], f"{sub}.method", lambda: f"{kw.get('method')} for {case['method']}")
    check(kw.get("max_nfev") == case["max_nfev"], f"{sub}.max_nfev", lambda: f"{kw.get('max_nfev')} vs {case['max_nfev']}")
    fl = list(res.free_parameter_labels)
    check(fl == free, f"{sub}.free_labels", lambda: f"Result.free_parameter_labels {fl} != free parameters in declaration order {free}")
    check(bool(res.success), f"{sub}.success", lambda: f"termination: {res.termination_reason}")
    # ---- history records
    hist = res.parameter_history
    hl = [str(c) for c in list(hist.parameter_labels)]
    missing = [lab for lab in order if lab not in hl]
    check(not missing, f"{sub}.history_labels", lambda: f"history lacks {missing}; has {hl}")
    col = {lab: hl.index(lab) for lab in order}
    check(hist.number_of_records >= 2, f"{sub}.history_records", lambda: f"{hist.number_of_records} records")
    for k in range(hist.number_of_records):
        row = np.asarray(hist.get_parameters(k), dtype=float)
        check_values_against_case(f"{sub}.history", f"history record {k}/{hist.number_of_records}", lambda lab: row[col[lab]], pset, exprs, tags)
    # ---- optimised set
    opt = res.optimized_parameters
    check_values_against_case(f"{sub}.result", "optimised parameters", lambda lab: opt.get(lab).value, pset, exprs, tags)
    for lab, tree in exprs.items():
        check(opt.get(lab).expression == ex.render(tree), f"{sub}.definition_kept", lambda: f"{lab}: {opt.get(lab).expression!r}")
    # ---- ordering: jacobian / covariance / standard errors
    J = np.asarray(res.jacobian, dtype=float)
    cov = np.asarray(res.covariance_matrix, dtype=float)
    n = len(free)
    check(J.ndim == 2 and J.shape[1] == n and cov.shape == (n, n), f"{sub}.shapes", lambda: f"jacobian {J.shape}, covariance {cov.shape}, {n} free")
    rmse = float(res.root_mean_square_error)
    with np.errstate(all="ignore"):
        err = rmse * np.sqrt(np.diag(cov))
    for i, lab in enumerate(free):
        p = byl[lab]
        se = float(opt.get(lab).standard_error)
        v = float(opt.get(lab).value)
        if p.get("nn"):
            with np.errstate(all="ignore"):
                admissible = [v * (np.exp(err[i]) - 1.0), abs(v)]
        else:
            admissible = [err[i]]
        check(any(ex.close(se, a, 1e-9, 1e-300) for a in admissible), f"{sub}.standard_error",
              lambda: f"standard_error({lab})={se!r}, rmse*sqrt(cov[{i},{i}])={err[i]!r} admissible {admissible} (non_negative={p.get('nn')})")
    if len({round(math.log10(e), 2) if e > 0 and math.isfinite(e) else 0 for e in err}) == n and n > 1:
        tags.add("standard_errors_distinct")
    if case.get("check_jacobian"):
        values = {p["label"]: float(opt.get(p["label"]).value) for p in pset["params"] if p.get("expr") is None}
        G = []
        h = 1e-6
        for lab in free:
            p = byl[lab]
            vp, vm = dict(values), dict(values)
            if p.get("nn"):
                vp[lab], vm[lab] = values[lab] * math.exp(h), values[lab] * math.exp(-h)
                dx = 2 * h
            else:
                s = h * max(1.0, abs(values[lab]))
                vp[lab], vm[lab] = values[lab] + s, values[lab] - s
                dx = 2 * s
            G.append((captured_objective(case, data, vp) - captured_objective(case, data, vm)) / dx)
        G = np.array(G).T
        check(G.shape == J.shape, f"{sub}.jacobian_shape", lambda: f"{J.shape} vs objective derivative {G.shape}")
        gn = np.linalg.norm(G, axis=0)
        ynorm = float(np.linalg.norm(data.data.values))
        # scipy's forward difference carries an absolute error of about eps*|y|/1.5e-8 per column
        usable = bool(np.all(np.isfinite(G)) and np.all(gn > 1e-4 * ynorm))
        if usable:
            tags.add("jacobian_checked")
            for i, lab in enumerate(free):
                jn = np.linalg.norm(J[:, i])
                cs = float(J[:, i] @ G[:, i] / (jn * gn[i])) if jn > 0 else 0.0
                check(cs > 0.99, f"{sub}.jacobian_order",
                      lambda: f"column {i} of Result.jacobian vs d objective / d {lab}: cosine {cs:.4f}; all: "
                              f"{[[round(float(J[:, a] @ G[:, b] / (np.linalg.norm(J[:, a]) * gn[b] + 1e-300)), 3) for b in range(n)] for a in range(n)]}")
            Gn = G / gn
            if n > 1 and (np.abs(Gn.T @ Gn) - np.eye(n)).max() < 0.98:
                tags.add("jacobian_columns_pairwise_distinguishable")
            # covariance refers to the same ordering: cov is the (pseudo-)inverse of J^T J
            # (only where the finite-difference noise of scipy's jacobian, |dJ| <~ 2e-7 |y|, cannot matter)
            sv = np.linalg.svd(G, compute_uv=False)
            if sv[-1] > 0 and 4 * (2e-7 * ynorm) * sv[0] / sv[-1] ** 2 < 0.01:
                M = cov @ (G.T @ G)
                dev = np.abs(M - np.eye(n)).max()
                check(dev < 0.05, f"{sub}.covariance_order", lambda: f"cov @ (G^T G) deviates from identity by {dev:.3g} (G = objective derivative by label)")
                tags.add("covariance_checked")
        else:
            tags.add("jacobian_column_too_small")
    return opt


# ------------------------------------------------------------------------------------------
# histories on ONE Parameters object: observe / edit in place / observe again


def _expr_domain_ok(pset) -> bool:
    plain = {p["label"]: p["value"] for p in pset["params"] if p.get("expr") is None}
    try:
        ex.evaluate_all(gp.exprs_of(pset), plain)
    except ex.OutOfDomain:
        return False
    return True


def model_after_edit(pset, step):
    """The oracle's account of an in-place edit: the declaration of one parameter is replaced, everything else
    (including the declaration order) stays."""
    new = copy.deepcopy(pset)
    for i, p in enumerate(new["params"]):
        if p["label"] != step["label"]:
            continue
        if step["op"] == "vary":
            p["vary"] = bool(step["vary"])
        elif step["decl"].get("expr") is not None:
            p["expr"] = copy.deepcopy(step["decl"]["expr"])  # value: whatever the expression gives
        else:
            new["params"][i] = dict(copy.deepcopy(step["decl"]), label=p["label"])
    return new


def apply_edit(P, step):
    """The same edit through the public attributes of the glotaran ``Parameter`` (the object stays in its container)."""
    par = P.get(step["label"])
    if step["op"] == "vary":
        par.vary = bool(step["vary"])
        return
    d = step["decl"]
    if d.get("expr") is not None:
        par.expression = ex.render(d["expr"])
        return
    par.expression = None
    par.value = float(d["value"])
    par.minimum = d["min"]
    par.maximum = d["max"]
    par.non_negative = bool(d["nn"])
    par.vary = bool(d["vary"])


def _optimiser_space(p):
    """(x, lb, ub) of a free parameter as the statement prescribes (logarithms for a non-negative one)."""
    v, mn, mx = float(p["value"]), float(p.get("min", -INF)), float(p.get("max", INF))
    if not p.get("nn"):
        return v, mn, mx
    return math.log(v), (math.log(mn) if mn > 0 else -INF), (math.log(mx) if mx < INF else INF)


def move_inside(x, lb, ub, delta):
    """x moved by about ``delta`` but strictly inside (lb, ub): at most half the way to the bound in the direction of
    ``delta``; the other direction when x sits on that bound."""
    for d in (delta, -delta):
        room = (ub - x) if d > 0 else (x - lb)
        if room > 0:
            return x + math.copysign(min(abs(d), 0.5 * room), d)
    return x


def model_after_set(pset, step, slow_labels=()):
    """Vector (labels, x) for ``set_from_label_and_value_arrays`` and the parameter set it must produce."""
    new = copy.deepcopy(pset)
    labels, xs = [], []
    for i, p in enumerate(q for q in new["params"] if gp.is_free(q)):
        x, lb, ub = _optimiser_space(p)
        f = 0.03 if p["label"] in slow_labels else 0.37
        x2 = move_inside(x, lb, ub, step["dir"] * (1 if i % 2 == 0 else -1) * f * (1 + abs(x)))
        labels.append(p["label"])
        xs.append(x2)
        p["value"] = float(np.exp(x2)) if p.get("nn") else float(x2)
    order = gp.declaration_order(new)
    pos = {lab: k for k, lab in enumerate(order)}
    perm = sorted(range(len(labels)), key=lambda k: pos[labels[k]])
    return [labels[k] for k in perm], [xs[k] for k in perm], new


def check_get(prefix, P, pset, exclude):
    order, byl, free = oracle_view(pset)
    exprs = gp.exprs_of(pset)
    with expect_ok(f"{prefix}.get"), np.errstate(all="ignore"):
        labels, x, lb, ub = P.get_label_value_and_bounds_arrays(exclude_non_vary=exclude)
    labels = list(labels)
    if not exclude:
        check(labels == order, f"{prefix}.all_labels", lambda: f"exclude_non_vary=False: labels {labels} != all parameters in declaration order {order}")
        check(len(x) == len(lb) == len(ub) == len(order), f"{prefix}.lengths", lambda: f"{len(x)},{len(lb)},{len(ub)} vs {len(order)}")
    else:
        check(labels == free, f"{prefix}.free_labels",
              lambda: f"vector labels {labels} != free parameters in declaration order {free} (fixed: {[l for l in order if l not in free and l not in exprs]}, expression: {list(exprs)})")
        check(len(x) == len(lb) == len(ub) == len(free), f"{prefix}.lengths", lambda: f"{len(x)},{len(lb)},{len(ub)} vs {len(free)}")
        for lab, xi, li, ui in zip(labels, x, lb, ub):
            check_vector_entry(prefix, lab, byl[lab], float(xi), float(li), float(ui))
            check_bracket(prefix, lab, float(xi), float(li), float(ui))
    # the export evaluates the expressions: the object now holds exactly the declared set
    check_values_against_case(f"{prefix}.held", "values held after the export", lambda lab: P.get(lab).value, pset, exprs)
    for lab, tree in exprs.items():
        check(P.get(lab).expression == ex.render(tree), f"{prefix}.definition_kept", lambda: f"{lab}: {P.get(lab).expression!r}")


def prop_history(case):
    """A history of steps on ONE ``Parameters`` object (``copy`` continues on the copy): exports of the optimiser's
    vector, imports of a moved vector, fits, and in-place edits of single parameters between them.  After every edit the
    *current* declaration decides what is free / fixed / defined by an expression."""
    sub = case["sub"]
    pset = copy.deepcopy(case["set"])
    if not _expr_domain_ok(pset):
        raise Discard("expression out of domain")
    rates = case.get("rates", [])
    data = _data(case) if rates else None
    with expect_ok(f"{sub}.construct"):
        P = gp.build(pset)
    tags = set()
    observed = False  # glotaran code has looked at the object (or an ancestor of the copy)
    edited = False  # ... and a declaration was edited afterwards
    free_seen = None  # free labels at the last observation
    membership_changes = 0
    for step in case["steps"]:
        op = step["op"]
        prefix = f"{sub}.after_edit" if edited else f"{sub}.initial"
        if op in ("edit", "vary"):
            new = model_after_edit(pset, step)
            if not _expr_domain_ok(new):
                tags.add("skipped:edit_leaves_expression_domain")
                continue
            with expect_ok(f"{sub}.edit"):
                apply_edit(P, step)
            pset = new
            edited = edited or observed
            tags.add("edit:" + ("vary" if op == "vary" else "expression" if step["decl"].get("expr") is not None else "redeclare"))
            continue
        if op == "copy":
            with expect_ok(f"{sub}.copy"):
                P = P.copy()
            tags.add("copy")
            continue
        order, byl, free = oracle_view(pset)
        if op == "get":
            check_get(prefix, P, pset, bool(step["exclude"]))
        elif op == "set":
            if not free:
                tags.add("skipped:nothing_free")
                continue
            labels, xs, new = model_after_set(pset, step, rates)
            if not _expr_domain_ok(new):
                tags.add("skipped:set_leaves_expression_domain")
                continue
            with expect_ok(f"{prefix}.set"):
                P.set_from_label_and_value_arrays(labels, np.array(xs, dtype=float))
            pset = new
            nbyl = gp.by_label(pset)
            for lab in labels:
                got = float(P.get(lab).value)
                check(ex.close(got, nbyl[lab]["value"], RTOL), f"{prefix}.set_identity", lambda: f"{lab}: vector entry gives {nbyl[lab]['value']!r}, held {got!r}")
            check_values_against_case(f"{prefix}.after_set", "after setting a moved vector", lambda lab: P.get(lab).value, pset, gp.exprs_of(pset))
        elif op == "fit":
            if not free or not rates:
                tags.add("skipped:nothing_free")
                continue
            nfev = case["nfev"] * (len(free) + 1) if case["method"] == "Levenberg-Marquardt" else case["nfev"]
            fit_and_check(dict(case, max_nfev=nfev, check_jacobian=False), pset, P, data, prefix, tags)
            # the fit works on a copy: the object handed in still is the declared (initial) set
            for q in pset["params"]:
                if q.get("expr") is None:
                    held = float(P.get(q["label"]).value)
                    check(same_float(held, q["value"]), f"{sub}.fit_input_changed", lambda: f"{q['label']}: {q['value']!r} before, {held!r} after optimize()")
            check_values_against_case(f"{sub}.fit_input", "the Parameters object handed to optimize(), after the fit", lambda lab: P.get(lab).value, pset, gp.exprs_of(pset))
        else:
            raise ValueError(op)
        tags.add(f"{op}:{'after_edit' if edited else 'initial'}")
        if free_seen is not None and free_seen != free:
            membership_changes += 1
        free_seen = free
        observed = True
    if membership_changes:
        tags.add("free_set_changed_between_observations")
    kinds, _ = kinds_tags(pset)
    tags |= {f"kind:{k}" for k in kinds} | {f"construct:{pset['construct']}"}
    if rates:
        tags.add(f"method:{METHODS[case['method']]}")
    return {"nontrivial": membership_changes > 0, "tags": sorted(tags)}


# ------------------------------------------------------------------------------------------
# strategies


def _strip_bounds(p):
    """An unbounded parameter (Levenberg-Marquardt supports no bounds); non-negative keeps min in {-inf, 0}."""
    if gp.is_free(p):
        p["max"] = INF
        p["min"] = 0.0 if (p.get("nn") and p["min"] != -INF) else -INF


@st.composite
def rate_decl(draw, lab, t):
    """Declaration of a parameter the handoff model uses as a rate (true value ``t``)."""
    kind = draw(st.sampled_from(["free", "free", "bounded", "non_negative", "fixed"]))
    v = t * draw(st.floats(0.8, 1.25))
    p = {"label": lab, "value": v, "min": -INF, "max": INF, "nn": kind == "non_negative", "vary": kind != "fixed", "expr": None}
    if kind == "bounded":
        p["min"], p["max"] = v * draw(st.sampled_from([0.5, 0.9, 1.0])), v * draw(st.sampled_from([1.0, 1.1, 3.0]))
        if p["min"] == p["max"]:
            p["max"] = v * 2
    if kind == "non_negative":
        p["min"] = draw(st.sampled_from([-INF, 0.0, v * 0.5]))
    return p


@st.composite
def handoff_cases(draw):
    pset = draw(gp.parameter_sets(min_size=1, max_size=5))
    construct = pset["construct"]
    used = {p["label"] for p in pset["params"]}
    pool = [lab for lab in (["mdl.1", "mdl.2", "mdl.10"] if construct == "dict" else ["mdl.1", "mdl.2", "r1", "r_2", "mdl.10"]) if lab not in used]
    l1, l2 = draw(st.permutations(pool))[:2]
    truth = {l1: 0.5 * draw(st.floats(0.9, 1.1)), l2: 1.7 * draw(st.floats(0.9, 1.1))}
    for lab in (l1, l2):
        p = draw(rate_decl(lab, truth[lab]))
        pset["params"].insert(draw(st.integers(0, len(pset["params"]))), p)
    method = draw(st.sampled_from(list(METHODS)))
    if not any(gp.is_free(p) for p in pset["params"]):
        byl = gp.by_label(pset)
        byl[l1]["vary"] = True
    if method == "Levenberg-Marquardt":
        for p in pset["params"]:
            _strip_bounds(p)
    nfree = sum(gp.is_free(p) for p in pset["params"])
    nfev = draw(st.integers(1, 4))
    return {
        "sub": "handoff", "set": pset, "rates": [l1, l2], "truth": truth, "shapes": [draw(st.sampled_from(["exp", "cos", "rat"])) for _ in range(2)],
        "n_model": 30, "n_global": 2, "noise": 0.01, "seed": draw(st.integers(0, 2**32 - 1)), "method": method,
        "max_nfev": nfev * (nfree + 1) if method == "Levenberg-Marquardt" else nfev, "check_jacobian": False, "nfev": nfev,
    }


def _strip_all(p):
    """As ``_strip_bounds`` but also for a currently fixed parameter (it may be freed later in a history)."""
    if p.get("expr") is None:
        p["max"] = INF
        p["min"] = 0.0 if (p.get("nn") and p["min"] != -INF) else -INF


@st.composite
def history_cases(draw, with_fits):
    """A parameter set (with_fits: plus the small model of ``handoff_cases`` using two of its parameters) and 3..8 steps:
    get (export of the vector, exclude_non_vary True / False), set (import of a moved vector), fit, copy, and in-place edits
    of one parameter: ``vary`` toggled, redeclared as a plain parameter of any kind, or given an expression."""
    if with_fits:
        case = draw(handoff_cases())
        case["sub"] = "refits"
    else:
        case = {"sub": "edits", "set": draw(gp.parameter_sets())}
    lm = case.get("method") == "Levenberg-Marquardt"
    rates = case.get("rates", [])
    cur = {}
    for p in case["set"]["params"]:
        if lm:
            _strip_all(p)
        cur[p["label"]] = p
    labs = list(cur)
    ops = ["get", "get", "edit", "edit", "edit", "vary", "vary", "set", "copy"] + (["fit", "fit", "fit"] if with_fits else ["get"])
    steps = []
    for _ in range(draw(st.integers(3, 8 if not with_fits else 6))):
        op = draw(st.sampled_from(ops))
        if op == "get":
            steps.append({"op": "get", "exclude": draw(st.sampled_from([True, True, True, False]))})
        elif op == "set":
            steps.append({"op": "set", "dir": draw(st.sampled_from([1, -1]))})
        elif op in ("fit", "copy"):
            steps.append({"op": op})
        else:
            lab = draw(st.sampled_from(labs))
            plain = cur[lab].get("expr") is None
            if op == "vary" and plain:
                v = not cur[lab].get("vary", True) if draw(st.integers(0, 4)) else bool(cur[lab].get("vary", True))
                cur[lab] = dict(cur[lab], vary=v)
                steps.append({"op": "vary", "label": lab, "vary": v})
                continue
            referenced = {r for q in cur.values() if q.get("expr") is not None for r in ex.refs(q["expr"])}
            others = [l for l in labs if l != lab and cur[l].get("expr") is None]
            if lab in rates:
                decl = draw(rate_decl(lab, case["truth"][lab]))
            elif lab not in referenced and others and draw(st.integers(0, 2)) == 0:
                decl = {"label": lab, "expr": draw(gp.trees(others, max_leaves=3))}
            else:
                decl = draw(gp.plain_decl(lab, draw(st.sampled_from(gp.KINDS[:5]))))
            if lm and decl.get("expr") is None:
                _strip_all(decl)
            cur[lab] = dict(cur[lab], expr=decl["expr"]) if decl.get("expr") is not None else decl
            steps.append({"op": "edit", "label": lab, "decl": decl})
    if draw(st.booleans()):
        # the shape the property is about: look at the object, edit it, look again
        observe = {"op": "fit"} if with_fits else {"op": "get", "exclude": True}
        steps = [dict(observe)] + steps + [dict(observe)]
    case["steps"] = steps
    return case


EXPR_FAMILY = [
    lambda a, b, c: ["+", ["*", ["ref", a], ["c", c]], ["c", 0.1]],
    lambda a, b, c: ["*", ["ref", a], ["ref", b]],
    lambda a, b, c: ["+", ["ref", a], ["*", ["ref", b], ["c", c]]],
    lambda a, b, c: ["sqrt", ["+", ["*", ["ref", a], ["ref", a]], ["abs", ["ref", b]]]],
    lambda a, b, c: ["/", ["ref", a], ["+", ["c", 1.0], ["*", ["c", c], ["ref", b]]]],
]


@st.composite
def fit_cases(draw):
    construct = draw(st.sampled_from(["list", "dict", "records"]))
    ncol = draw(st.integers(2, 4))
    n_extra = draw(st.integers(0, 1))
    labs = draw(gp.labels(ncol + n_extra, construct))
    rate_labels, extra_labels = labs[:ncol], labs[ncol:]
    method = draw(st.sampled_from(["TrustRegionReflection", "Dogbox", "Levenberg-Marquardt"]))
    kinds = [draw(st.sampled_from(["free", "bounded", "one_sided", "non_negative", "non_negative", "fixed", "expression"])) for _ in range(ncol)]
    if sum(k == "expression" for k in kinds) > 1:
        first = kinds.index("expression")
        kinds = [k if (k != "expression" or i == first) else "bounded" for i, k in enumerate(kinds)]
    if not any(k in ("free", "bounded", "one_sided", "non_negative") for k in kinds):
        kinds[draw(st.integers(0, ncol - 1))] = "non_negative"
    if sum(k != "expression" for k in kinds) < 1:
        kinds[0] = "free"
    base = [0.3 * 2.0**j * draw(st.floats(0.9, 1.1)) for j in range(ncol)]
    base = list(draw(st.permutations(base)))
    truth, params, tvb = {}, [], []
    for lab, k, t in zip(rate_labels, kinds, base):
        if k == "expression":
            params.append({"label": lab, "value": None, "min": -INF, "max": INF, "nn": False, "vary": True, "expr": None, "_expr": True})
            continue
        truth[lab] = t
        p = {"label": lab, "value": None, "min": -INF, "max": INF, "nn": k == "non_negative", "vary": k != "fixed", "expr": None}
        start = t * draw(st.floats(0.7, 1.4))
        rel = draw(st.sampled_from(["inside", "inside", "on", "outside"])) if k in ("bounded", "one_sided", "non_negative") else "none"
        lo, hi = -INF, INF
        if rel == "inside":
            lo, hi = t * draw(st.floats(0.3, 0.8)), t * draw(st.floats(1.3, 3.0))
        elif rel == "on":
            if draw(st.booleans()):
                lo, hi = t, t * draw(st.floats(1.5, 3.0))
            else:
                lo, hi = t * draw(st.floats(0.3, 0.6)), t
        elif rel == "outside":
            if draw(st.booleans()):
                lo, hi = t * draw(st.floats(1.1, 1.3)), t * 3.0
            else:
                lo, hi = t * 0.3, t * draw(st.floats(0.75, 0.9))
        if k == "one_sided":
            if draw(st.booleans()):
                hi = INF
            else:
                lo = -INF
        if k == "non_negative":
            which = draw(st.sampled_from(["both", "max_only", "min_zero", "none"]))
            if which == "max_only":
                lo = -INF
            elif which == "min_zero":
                lo, hi = 0.0, INF
            elif which == "none":
                lo, hi = -INF, INF
        if k == "fixed":
            start = t * draw(st.sampled_from([1.0, 1.0, 1.2]))
            truth[lab] = t
        if rel != "none":
            tvb.append(rel)
        where = draw(st.sampled_from(["in", "in", "at_lo", "at_hi"]))
        if math.isfinite(lo) and (start < lo or where == "at_lo"):
            start = lo if lo > 0 or k != "non_negative" else start
        if math.isfinite(hi) and (start > hi or where == "at_hi"):
            start = hi
        if math.isfinite(lo) and math.isfinite(hi) and not (lo <= start <= hi):
            start = 0.5 * (lo + hi)
        if k == "non_negative" and math.isfinite(lo) and not lo < start:
            start = lo * 1.05 if lo > 0 else t
            if start > hi:
                lo = start * 0.9
        p.update(value=start, min=lo, max=hi)
        params.append(p)
    for lab in extra_labels:
        v = draw(st.sampled_from([0.5, 1.5, 2.0]))
        truth[lab] = v
        params.append({"label": lab, "value": v, "min": -INF, "max": INF, "nn": draw(st.booleans()), "vary": False, "expr": None})
    plain_labels = [p["label"] for p in params if not p.get("_expr")]
    for p in params:
        if p.pop("_expr", False):
            a = draw(st.sampled_from(plain_labels))
            b = draw(st.sampled_from(plain_labels))
            p["expr"] = draw(st.sampled_from(EXPR_FAMILY))(a, b, draw(st.sampled_from([0.5, 1.5, 2.0])))
            p["value"] = draw(st.sampled_from([None, 0.0]))
    params = list(draw(st.permutations(params)))
    pset = {"construct": construct, "params": params}
    if method == "Levenberg-Marquardt":
        for p in params:
            _strip_bounds(p)
    full_truth = dict(truth)
    full_truth.update(ex.evaluate_all(gp.exprs_of(pset), truth))
    nfree = sum(gp.is_free(p) for p in params)
    nfev = draw(st.sampled_from([2, 3, 5, 8, 30]))
    return {
        "sub": "fits", "set": pset, "rates": rate_labels, "truth": {lab: full_truth[lab] for lab in rate_labels},
        "shapes": [draw(st.sampled_from(["exp", "exp", "cos", "rat", "gauss"])) for _ in range(ncol)], "n_model": draw(st.sampled_from([25, 40])),
        "n_global": draw(st.integers(2, 3)), "noise": draw(st.sampled_from([1e-3, 1e-2])), "seed": draw(st.integers(0, 2**32 - 1)),
        "method": method, "max_nfev": nfev * (nfree + 1) if method == "Levenberg-Marquardt" else nfev,
        "check_jacobian": True, "truth_vs_box": sorted(set(tvb)),
    }


# ------------------------------------------------------------------------------------------


def failed_fit_cases():
    @st.composite
    def cases(draw):
        n = draw(st.integers(2, 3))
        kinds = [draw(st.sampled_from(["non_negative", "non_negative", "bounded", "free"])) for _ in range(n)]
        return {"n": n, "kinds": kinds, "fixed_nn": draw(st.sampled_from([0.5, 2.0, 3.0])), "seed": draw(st.integers(0, 10**6)),
                "method": draw(st.sampled_from(["TrustRegionReflection", "Dogbox"])), "k_frac": draw(st.floats(0.15, 0.85)),
                "max_nfev": draw(st.integers(3, 6))}

    return cases()


def prop_failed_fit(c):
    """Bounds, fixed parameters and non-negativity also hold for the Result of an optimisation that failed half-way
    (raise_exception=False): the parameters are restored from the history."""
    import warnings

    from vlib.props import c15

    rates = [0.35 * 2.3**j for j in range(c["n"])]
    case = c15.base_case(0, c["seed"])
    case["megacomplexes"]["m1"].update(labels=[f"s{j}" for j in range(c["n"])], rates=[f"r.{j+1}" for j in range(c["n"])])
    case["parameters"] = {"r": rates, "ds": [c["fixed_nn"]]}
    case["free"] = [f"r.{j+1}" for j in range(c["n"])]
    case["datasets"][0]["scale"] = "ds.1"
    case["non_negative"] = [f"r.{j+1}" for j, k in enumerate(c["kinds"]) if k == "non_negative"] + ["ds.1"]
    bounds = {f"r.{j+1}": (rates[j] * 0.5, rates[j] * 2.0) for j, k in enumerate(c["kinds"]) if k == "bounded"}
    from vlib.gen import schemes as _s

    orig = _s.parameter_dict

    def with_bounds(cs):
        d = orig(cs)
        for lab, (lo, hi) in bounds.items():
            g, j = lab.split(".")
            d[g][int(j) - 1][1].update({"min": lo, "max": hi})
        return d

    _s.parameter_dict = with_bounds
    try:
        with warnings.catch_warnings():
            warnings.simplefilter("ignore")
            ff = c15.fault_free(case, c["method"], c["max_nfev"])
            n = ff["count"]
            k = 2 + int(c["k_frac"] * (n - 4)) if n > 4 else 2
            r = c15.run(case, {"kind": "raise_at", "k": k}, c["method"], False, False, c["max_nfev"])
    finally:
        _s.parameter_dict = orig
    if r["outcome"] != "result":
        raise Discard("no result (fault in post-fit evaluation, known finding D15 of C15)")
    res = r["result"]
    check(res.success is False, "failed_fit.success_flag")
    for p in res.optimized_parameters.all():
        if p.label == "ds.1":
            check(p.value == c["fixed_nn"], "failed_fit.fixed_parameter_changed", lambda: f"fixed non-negative {p.label}: {c['fixed_nn']} -> {p.value}")
        if p.label in bounds:
            lo, hi = bounds[p.label]
            check(lo * (1 - 1e-12) <= p.value <= hi * (1 + 1e-12), "failed_fit.result_out_of_bounds", lambda: f"{p.label}={p.value} not in [{lo}, {hi}]")
        if p.label in case["non_negative"]:
            check(p.value > 0, "failed_fit.non_negative_not_positive", lambda: f"{p.label}={p.value}")
    hist = res.parameter_history.to_dataframe()
    for lab, (lo, hi) in bounds.items():
        col = hist[lab].values
        check(bool(np.all((col >= lo * (1 - 1e-12)) & (col <= hi * (1 + 1e-12)))), "failed_fit.history_out_of_bounds", lambda: f"{lab}: {col}")
    for lab in case["non_negative"]:
        check(bool(np.all(hist[lab].values > 0)), "failed_fit.history_non_negative", lambda: f"{lab}: {hist[lab].values}")
    check(bool(np.all(hist["ds.1"].values == c["fixed_nn"])), "failed_fit.history_fixed_changed", lambda: f"{hist['ds.1'].values}")
    # the restored parameters are an actually evaluated vector (values, not optimiser-space numbers)
    got = [float(res.optimized_parameters.get(f"r.{j+1}").value) for j in range(c["n"])]
    good = [e["rates"] for e in r["log"] if e["ok"] and e["k"] < k]
    check(any(np.allclose(got, g, rtol=1e-12, atol=0) for g in good), "failed_fit.restored_values_never_evaluated", lambda: f"{got} not among {good[-3:]}")
    return {"nontrivial": "non_negative" in c["kinds"], "tags": sorted(set(c["kinds"])) + [c["method"]]}


def selfcheck():
    from glotaran.parameter.parameter import RESERVED_LABELS

    ex.selfcheck()
    bad = [lab for lab in gp.all_pool_labels() + ["mdl.1", "r1", "r_2"] if lab in RESERVED_LABELS]
    assert not bad, f"label pool collides with reserved labels: {bad}"
    # declaration order of the nested constructor, by hand
    ps = [{"label": "b.x.1", "value": 1.0}, {"label": "k.2", "value": 2.0}, {"label": "b.1.a", "value": 3.0}, {"label": "k.1", "value": 4.0}]
    assert gp.traverse(gp.nest(ps)) == ["b.x.1", "b.1.a", "k.2", "k.1"]
    assert gp.declaration_order({"construct": "list", "params": ps}) == ["b.x.1", "k.2", "b.1.a", "k.1"]
    # box test
    assert in_box(0.5, {"min": 0.5, "max": 1.0}) and not in_box(-0.693, {"min": 0.05, "nn": True}) and in_box(0.0, {"nn": True}) and not in_box(-1e-300, {"nn": True})
    assert not in_box(1.1, {"min": 0.0, "max": 1.0}) and in_box(1.0 + 1e-12, {"max": 1.0})
    # histories: the oracle's account of edits and of a moved vector, by hand
    assert move_inside(1.0, 0.0, 1.0, 0.5) == 0.5 and move_inside(1.0, 0.0, 4.0, 0.5) == 1.5 and move_inside(1.0, 0.0, 1.5, 0.5) == 1.25
    assert move_inside(0.0, 0.0, 1.0, -0.3) == 0.3 and move_inside(2.0, -INF, INF, -0.5) == 1.5
    ps = {"construct": "list", "params": [
        {"label": "a", "value": 2.0, "min": -INF, "max": INF, "nn": False, "vary": True, "expr": None},
        {"label": "b", "value": 1.0, "min": 0.5, "max": INF, "nn": True, "vary": True, "expr": None},
        {"label": "c", "value": None, "min": -INF, "max": INF, "nn": False, "vary": True, "expr": ["+", ["ref", "a"], ["c", 1.0]]}]}
    assert oracle_view(ps)[2] == ["a", "b"]
    e1 = model_after_edit(ps, {"op": "vary", "label": "b", "vary": False})
    assert oracle_view(e1)[2] == ["a"] and oracle_view(ps)[2] == ["a", "b"]
    e2 = model_after_edit(e1, {"op": "edit", "label": "a", "decl": {"label": "a", "expr": ["*", ["ref", "b"], ["c", 3.0]]}})
    assert oracle_view(e2)[2] == [] and set(gp.exprs_of(e2)) == {"a", "c"}
    e3 = model_after_edit(e2, {"op": "edit", "label": "c", "decl": {"label": "c", "value": 4.0, "min": 0.0, "max": 9.0, "nn": False, "vary": True, "expr": None}})
    assert oracle_view(e3)[2] == ["c"] and gp.declaration_order(e3) == ["a", "b", "c"]
    labels, xs, moved = model_after_set(ps, {"op": "set", "dir": 1})
    assert labels == ["a", "b"] and xs[0] == 2.0 + 0.37 * 3.0 and abs(xs[1] - 0.5 * math.log(0.5)) < 1e-15
    assert abs(gp.by_label(moved)["b"]["value"] - math.sqrt(0.5)) < 1e-15 and gp.by_label(moved)["a"]["value"] == xs[0]


PROPERTY = Property(
    id="C11",
    level="exploration",
    rule=(
        "Hypothesis-generated parameter sets (1..7 parameters; flat and nested labels incl. numeric parts; list / nested-dict / "
        "record constructors; kinds free, bounded, one-sided, non-negative (min in {-inf} U [0, value)), fixed, expression "
        "(trees over the non-expression parameters); values on / 1e-9 next to / inside bounds, exactly 1 for non-negative, "
        "magnitudes 1e-12..1e12) and optimize() runs over them with TrustRegionReflection, Dogbox and (unbounded sets) "
        "Levenberg-Marquardt on verif-table models (truth inside / on / outside the box, max_nfev 1..30); histories of 3..10 "
        "steps on one Parameters object (export, import of a moved vector, fit, copy, in-place edit of one parameter: vary "
        "toggled / redeclared / given an expression). Non-trivial: the set "
        "has >= 3 parameter kinds including non-negative and (one-sided) bounded, or a bound is active at the solution; for a "
        "history: the set of free parameters differs between two observations (export / import / fit) of the same object; "
        "distinct = distinct case digest."
    ),
    subs=[
        Sub("roundtrip", prop=prop_roundtrip, strategy=lambda: gp.parameter_sets(), budget={"quick": 3000, "thorough": 200000}),
        Sub("handoff", prop=prop_fit, strategy=handoff_cases, budget={"quick": 240, "thorough": 15000},
            doc="arbitrary parameter sets, two of whose parameters are used by the model; capture stub for least_squares"),
        Sub("fits", prop=prop_fit, strategy=fit_cases, budget={"quick": 320, "thorough": 15000},
            doc="all parameters are column rates; history / result / ordering of jacobian, covariance, standard errors"),
        Sub("edits", prop=prop_history, strategy=lambda: history_cases(False), budget={"quick": 1600, "thorough": 120000},
            doc="histories on one Parameters object: export / import of the vector interleaved with in-place edits (vary toggled, "
                "parameter redeclared, expression given) and copies; after every edit the current declaration decides what is free"),
        Sub("refits", prop=prop_history, strategy=lambda: history_cases(True), budget={"quick": 160, "thorough": 12000},
            doc="the same histories with optimize() runs over the same Parameters object between the edits (handoff model)"),
        Sub("failed_fit", prop=prop_failed_fit, strategy=failed_fit_cases, budget={"quick": 240, "thorough": 10000},
            doc="an injected model fault aborts the optimisation (raise_exception=False): the Result restored from the history still "
                "respects bounds, fixed values and non-negativity, and holds actual (not optimiser-space) values"),
    ],
    assumptions=[
        "scipy.optimize.least_squares (delegated to by the capture stub) keeps its iterates and finite-difference points within the bounds it is given",
        "round trip rtol 1e-9 (guard for non-negative value 1 costs 1e-10); bounds on records rtol 1e-9; expressions rtol 1e-12; "
        "jacobian columns cosine > 0.99 against a central difference (h=1e-6) of the captured objective taken by label, only when the "
        "derivative columns are pairwise distinguishable (|cos| < 0.9); cov @ G^T G within 0.05 of identity when 8e-7|y| smax/smin^2 < 0.01; a non-negative parameter recorded as +0.0 (underflow of exp) is accepted and tagged",
        "expressions in C11 reference non-expression parameters only (evaluation order is C12)",
        "histories: a Parameter is edited through its public attributes (expression, value, minimum, maximum, non_negative, vary; "
        "an expression is only given, never combined with vary=True; a cleared expression is followed by a full redeclaration); "
        "expressions reference plain parameters only; an imported vector lies strictly inside the box; steps that would leave the "
        "real domain of an expression are skipped and tagged; optimize() works on a copy and leaves the Parameters object it is "
        "given as it was (Result.initial_parameters) - clause fit_input_changed",
        "non-negative standard error: either branch of Optimizer.calculate_covariance_matrix_and_standard_errors is accepted",
    ],
    selfcheck=selfcheck,
)
