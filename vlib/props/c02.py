"""C02 - the minimised objective is the documented separable least-squares problem."""

from __future__ import annotations

import warnings

import numpy as np
from hypothesis import strategies as st

from vlib.core import Discard
from vlib.core import Property
from vlib.core import Sub
from vlib.core import check
from vlib.core import expect_ok
from vlib.gen import schemes
from vlib.oracle import refobjective as ref


def value_map(case, factors=None):
    vals = {}
    for grp, vs in case["parameters"].items():
        for j, v in enumerate(vs):
            vals[f"{grp}.{j+1}"] = float(v)
    if factors is not None:
        for lab, f in zip(case["free"], factors):
            vals[lab] = vals[lab] * f
    return vals


def conflicts(case):
    """Situations whose semantics the statement does not define (counted discards)."""
    # (a constraint and a relation on the same target at the same index are detected per index by the reference)
    for d in case["datasets"]:
        if d.get("global_megacomplex") and d.get("scale"):
            return "dataset scale on a full-model dataset"
    return None


def features(case):
    f = []
    if any(d.get("scale") for d in case["datasets"]):
        f.append("dataset_scale")
    if any(d.get("megacomplex_scale") for d in case["datasets"]):
        f.append("megacomplex_scale")
    if any(d.get("dataset_weight_seed") is not None for d in case["datasets"]):
        f.append("dataset_weight")
    if case.get("weights"):
        f.append("model_weight")
    if any(c["interval"] is not None for c in case.get("constraints", [])):
        f.append("constraint_interval")
    elif case.get("constraints"):
        f.append("constraint")
    if case.get("relations"):
        f.append("relation")
    if case.get("penalties"):
        f.append("penalty")
    for d in case["datasets"]:
        rep = d.get("repr")
        if rep:
            f += [x for x in (f"data_{rep['dtype']}", f"layout_{rep['layout']}", "integer_axis" if rep.get("axis_int") and all(float(g).is_integer() for g in d["global_axis"]) else None) if x and x not in f]
    if case.get("rate_label_offset"):
        f.append("parameter_group_of_11+")
    if case.get("model_axis_order"):
        f.append("model_axis_" + case["model_axis_order"])
    if case.get("global_axis_order"):
        f.append("global_axis_" + case["global_axis_order"])
    if any(d.get("global_megacomplex") for d in case["datasets"]):
        f.append("full_model")
    if any(case["megacomplexes"][m]["index_dependent"] for d in case["datasets"] for m in d["megacomplex"]):
        f.append("index_dependent")
    for g in case["groups"]:
        dss = [d for d in case["datasets"] if d["group"] == g]
        if dss and ref.group_is_linked(case, g) and len(dss) > 1:
            axes = [tuple(d["global_axis"]) for d in dss]
            if len(set(axes)) > 1 and set(axes[0]) & set(axes[1]):
                f.append("linked_partial_overlap")
            else:
                f.append("linked_multi")
    for d in case["datasets"]:
        labs = [l for m in d["megacomplex"] for l in case["megacomplexes"][m]["labels"]]
        if len(labs) != len(set(labs)):
            f.append("shared_label")
            break
    if len(case["groups"]) > 1:
        f.append("two_groups")
    if any(g["residual_function"] != "variable_projection" for g in case["groups"].values()):
        f.append("nnls")
    return sorted(set(f))


def compare_vectors(got, want, scale, clause_prefix, tol_rel=1e-10, cond=1.0):
    # both sides solve least-squares problems of condition number <= cond: rounding of order eps*cond is unavoidable
    tol_rel = tol_rel + 100 * np.finfo(float).eps * cond
    check(got.shape == want.shape, f"{clause_prefix}.length", lambda: f"len(objective)={got.size} reference={want.size} (every data point once + one entry per penalty)")
    tol = tol_rel * scale
    sg, sw = np.sort(got), np.sort(want)
    err = np.abs(sg - sw).max() if got.size else 0.0
    check(err <= tol, f"{clause_prefix}.values", lambda: f"max |sorted(objective) - sorted(reference)| = {err:.3e} > {tol:.3e}")
    ordered = bool(np.abs(got - want).max() <= tol) if got.size else True
    return ordered


def prop(case):
    from vlib import capture

    why = conflicts(case)
    if why:
        raise Discard(why)
    pts = [None] + list(case["points"])
    try:
        refs = [ref.reference(case, value_map(case, p)) for p in pts]
    except ref.Ambiguous as a:
        raise Discard(f"ambiguous: {a}")
    except ref.IllConditioned as a:
        raise Discard("ill-conditioned: " + str(a).split(" ")[0])
    with warnings.catch_warnings():
        warnings.simplefilter("ignore")
        with expect_ok("objective.setup"):
            scheme = schemes.make_scheme(case)
            cap = capture.open_objective(scheme)
        check(sorted(cap.labels) == sorted(case["free"]), "objective.free_labels", lambda: f"{cap.labels} vs {case['free']}")
        x0 = cap.x0
        order = {l: i for i, l in enumerate(cap.labels)}
        ordered_all = True
        for p, r in zip(pts, refs):
            vals = value_map(case, p)
            x = np.array([vals[l] for l in cap.labels])
            with expect_ok("objective.call"):
                got = cap(x)
            dscale = max(np.abs(r["vector"]).max() if r["vector"].size else 0.0, 1.0)
            ordered_all &= compare_vectors(got, r["vector"], dscale, "objective", cond=r["max_cond"])
        # "for every scheme": also when the same scheme object is used again (a second optimizer on the caller's scheme)
        with expect_ok("objective.second_use_setup"):
            cap_again = capture.open_objective(scheme)
            got = cap_again(cap_again.x0)
        compare_vectors(got, refs[0]["vector"], max(np.abs(refs[0]["vector"]).max() if refs[0]["vector"].size else 0.0, 1.0), "objective.second_use_of_scheme",
                        cond=refs[0]["max_cond"])
    f = features(case)
    tags = list(f) + (["entrywise_order_matches"] if ordered_all else ["entrywise_order_differs"])
    return {"nontrivial": len([x for x in f if x not in ("two_groups", "nnls")]) >= 2, "tags": tags}


def prop_independent(case):
    """Groups contribute independently; every data point matters (metamorphic, no reference)."""
    from vlib import capture

    why = conflicts(case)
    if why:
        raise Discard(why)
    if len(case["groups"]) < 2:
        raise Discard("single group")
    import copy

    try:
        r = ref.reference(case, value_map(case))
    except (ref.Ambiguous, ref.IllConditioned):
        raise Discard("reference undefined")
    with warnings.catch_warnings():
        warnings.simplefilter("ignore")
        with expect_ok("independent.setup"):
            cap = capture.open_objective(schemes.make_scheme(case))
            base = cap(cap.x0)
        case2 = copy.deepcopy(case)
        changed = [d for d in case2["datasets"] if d["group"] == "g2"]
        for d in changed:
            d["data_seed"] = d["data_seed"] + 1
        with expect_ok("independent.setup"):
            cap2 = capture.open_objective(schemes.make_scheme(case2))
            other = cap2(cap2.x0)
    check(base.shape == other.shape, "independent.length")
    n_first = r["groups"][r["group_order"][0]]["vector"].size
    first_is_default = r["group_order"][0] == "default"
    a, b = (base[:n_first], other[:n_first]) if first_is_default else (base[n_first:], other[n_first:])
    c, d_ = (base[n_first:], other[n_first:]) if first_is_default else (base[:n_first], other[:n_first])
    check(np.array_equal(a, b), "independent.unchanged_group_changed", lambda: f"max diff {np.abs(a-b).max():.3e}")
    check(not np.array_equal(c, d_), "independent.changed_group_unchanged")
    return {"nontrivial": True, "tags": ["two_groups"]}


def prop_interleaved(pair):
    """Two unrelated schemes alive in one process, evaluated alternately: each objective is that of its own scheme (no state
    shared between optimizers, groups or providers of different schemes)."""
    from vlib import capture

    cases = list(pair)
    refs_, caps = [], []
    for case in cases:
        why = conflicts(case)
        if why:
            raise Discard(why)
        pts = [None] + list(case["points"])
        try:
            refs_.append([ref.reference(case, value_map(case, p)) for p in pts])
        except ref.Ambiguous as a:
            raise Discard(f"ambiguous: {a}")
        except ref.IllConditioned as a:
            raise Discard("ill-conditioned: " + str(a).split(" ")[0])
    with warnings.catch_warnings():
        warnings.simplefilter("ignore")
        for case in cases:
            with expect_ok("interleaved.setup"):
                caps.append(capture.open_objective(schemes.make_scheme(case)))
        # A0 B0 A1 B1 A2 B2 A0 B0
        for k in (0, 1, 2, 0):
            for which, (case, cap) in enumerate(zip(cases, caps)):
                pts = [None] + list(case["points"])
                if k >= len(pts):
                    continue
                vals = value_map(case, pts[k])
                x = np.array([vals[l] for l in cap.labels])
                with expect_ok("interleaved.call"):
                    got = cap(x)
                r = refs_[which][k]
                dscale = max(np.abs(r["vector"]).max() if r["vector"].size else 0.0, 1.0)
                compare_vectors(got, r["vector"], dscale, "interleaved", cond=r["max_cond"])
    f = sorted(set(features(cases[0])) | set(features(cases[1])))
    both_pen = all(c.get("penalties") for c in cases)
    return {"nontrivial": True, "tags": f + (["both_with_penalties"] if both_pen else [])}


PROPERTY = Property(
    id="C02",
    level="exploration",
    rule=(
        "Hypothesis-generated schemes from harness 'verif-table' megacomplexes: 1-4 datasets, 1-2 groups, link_clp "
        "true/false/auto, index-dependent or not, identical/overlapping/disjoint global axes, dataset or model weights, "
        "dataset scale, megacomplex scales, shared/distinct clp labels, zero/only constraints, relations, equal-area "
        "penalties (intervals finite, half-infinite, reversed, lists), VP or NNLS, full models; the captured objective is "
        "compared at x0 and 2 further points with a reference objective written from the statement. Non-trivial = at least "
        "2 of the listed features present; distinct = distinct case digest. Cases whose semantics the statement leaves open "
        "(ambiguous index ranges, constraint on a related clp, per-index cond > 1e6 / 1e3 for NNLS) are discarded and counted."
    ),
    subs=[
        Sub("objective", prop=prop, strategy=lambda: schemes.schemes(), budget={"quick": 1200, "thorough": 100000}),
        Sub("objective_tol", prop=prop, strategy=lambda: schemes.schemes(link_tolerance=True, allow_full=False).filter(lambda c: c["clp_link_tolerance"] > 0),
            budget={"quick": 400, "thorough": 30000}, doc="linked groups with clp_link_tolerance > 0, all three link methods"),
        Sub("interleaved", prop=prop_interleaved, strategy=lambda: st.tuples(schemes.schemes(max_datasets=2), schemes.schemes(max_datasets=2)),
            budget={"quick": 300, "thorough": 20000}, doc="two unrelated schemes alive in one process, evaluated alternately, each against its own reference"),
        Sub("independent", prop=prop_independent, strategy=lambda: schemes.schemes(max_datasets=3).filter(lambda c: len(c["groups"]) > 1),
            budget={"quick": 150, "thorough": 5000}),
    ],
    assumptions=[
        "reference objective (vlib/oracle/refobjective.py) trusted; numpy lstsq + exhaustive active-set NNLS",
        "comparison as sorted multiset + length, tolerance (1e-10 + 100 eps cond)*max(1,|objective|_inf) with cond the largest per-index condition "
        "number (<= 1e6) - a thorough run met 1.26e-10 on a full-model problem; entrywise order reported as a tag",
    ],
)
