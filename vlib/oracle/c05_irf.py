"""C05 oracle: exponential decay convolved with area-normalised Gaussian(s), in mpmath.

Written from the property statement only.  For one Gaussian N(.; mu, sigma) of unit area and a
rate k the decay column is the defining convolution

    F(t) = int_0^inf exp(-k s) N(t - s; mu, sigma) ds
         = 1/2 exp(-k (t - mu) + k^2 sigma^2 / 2) erfc((k sigma^2 - (t - mu)) / (sigma sqrt 2))

(the closed form is validated against ``mpmath.quad`` of the integral in ``selfcheck``).  For
several Gaussians the column is ``sum_g s_g F_g`` (divided by ``sum_g s_g`` when normalised).

Nothing here imports glotaran; all arithmetic is 60-digit mpmath on the *exact* values of the
float inputs, so the reference is correct to ~1e-55 relative.
"""

from __future__ import annotations

import mpmath
import numpy as np

DPS = 60


def _ctx():
    mpmath.mp.dps = DPS


def mpf(x):
    return mpmath.mpf(x)


def conv(t, k, mu, sigma):
    """F(t) for mpf arguments (closed form)."""
    tau = t - mu
    s2 = sigma * sigma
    return mpmath.exp(-k * tau + k * k * s2 / 2) * mpmath.erfc((k * s2 - tau) / (sigma * mpmath.sqrt(2))) / 2


def gauss(tau, sigma):
    return mpmath.exp(-(tau * tau) / (2 * sigma * sigma)) / (sigma * mpmath.sqrt(2 * mpmath.pi))


def conv_quad(t, k, mu, sigma):
    """F(t) by numerical quadrature of the defining integral (selfcheck only)."""
    tau = t - mu
    # the integrand is a Gaussian of width sigma centred at s0 = tau - k sigma^2, truncated at s = 0
    s0 = tau - k * sigma * sigma
    cand = [s0 + j * sigma for j in (-40, -12, -6, -3, -1, 0, 1, 3, 6, 12, 40)]
    pts = sorted({mpf(0), *[p for p in cand if p > 0]})
    if len(pts) == 1:
        pts += [sigma * j for j in (1, 3, 6, 12, 40)]
    f = lambda s: mpmath.exp(-k * s) * gauss(tau - s, sigma)  # noqa: E731
    # mpmath.quad stops on an *absolute* error estimate: rescale the integrand to O(1) first
    scale = max(f(p) for p in pts)
    pts.append(mpmath.inf)
    return scale * mpmath.quad(lambda s: f(s) / scale, pts)


def columns(times, rates, mus, sigmas, scales):
    """Un-normalised reference columns and their sensitivities.

    times, rates: sequences of floats;  mus, sigmas, scales: sequences of mpf / floats (one per Gaussian).
    Returns (ref, dmu, dsig): object arrays (n_t, n_r, n_g) of mpf with
      ref  = s_g F_g(t; k),
      dmu  = s_g |dF_g/dmu|      (= s_g |k F - N(t - mu)|, from F' = -k F + N),
      dsig = s_g |dF_g/dsigma|   (analytic, see below).
    """
    _ctx()
    nt, nr, ng = len(times), len(rates), len(mus)
    ref = np.empty((nt, nr, ng), dtype=object)
    dmu = np.empty((nt, nr, ng), dtype=object)
    dsig = np.empty((nt, nr, ng), dtype=object)
    for g in range(ng):
        mu, sg, sc = mpf(mus[g]), mpf(sigmas[g]), mpf(scales[g])
        for it, t in enumerate(times):
            tau = mpf(t) - mu
            n = gauss(tau, sg)
            for ir, k in enumerate(rates):
                k = mpf(k)
                f = conv(mpf(t), k, mu, sg)
                ref[it, ir, g] = sc * f
                # dF/dmu = -F'(tau) = k F - N(tau)
                dmu[it, ir, g] = sc * abs(k * f - n)
                # F solves the heat equation in sigma^2/2:  dF/dsigma = sigma F''(tau),
                # F'' = k^2 F - k N + N',  N' = -tau/sigma^2 N
                dsig[it, ir, g] = sc * abs(sg * (k * k * f - k * n) - tau / sg * n)
    return ref, dmu, dsig


def to_float(a):
    return np.array([float(x) for x in np.asarray(a, dtype=object).ravel()], dtype=float).reshape(np.shape(a))


def selfcheck():
    """Closed form vs quadrature of the defining integral; sensitivities vs finite differences."""
    _ctx()
    inst = [
        # (t, k, mu, sigma): both numerical branches, before/at/after the pulse, k*sigma small and large
        (0.35, 0.5, 0.3, 0.1),
        (-0.2, 0.5, 0.3, 0.1),
        (3.0, 2.0, 0.3, 0.1),
        (0.3, 100.0, 0.3, 0.1),
        (0.9, 100.0, 0.3, 0.1),
        (1.0, 1e-4, -2.0, 1.5),
        (5.0, 30.0, 1.0, 1.0),
        (12.0, 1e3, 10.0, 0.02),
    ]
    for t, k, mu, sg in inst:
        a = conv(mpf(t), mpf(k), mpf(mu), mpf(sg))
        b = conv_quad(mpf(t), mpf(k), mpf(mu), mpf(sg))
        if not abs(a - b) <= mpf(10) ** -25 * abs(a):
            raise AssertionError(f"closed form {a} vs quadrature {b} at {(t, k, mu, sg)}")
    # hand-computed limits: k -> 0 gives the Gaussian cdf; far after the pulse exp(-k tau + k^2 s^2/2)
    a = conv(mpf(1), mpf(10) ** -40, mpf(0), mpf(1))
    if abs(a - mpmath.ncdf(1)) > mpf(10) ** -38:
        raise AssertionError("k->0 limit is not the normal cdf")
    a = conv(mpf(50), mpf(1) / 2, mpf(0), mpf(1))
    if abs(a / mpmath.exp(-25 + mpf(1) / 8) - 1) > mpf(10) ** -40:
        raise AssertionError("late-time limit")
    # sensitivities against central differences
    h = mpf(10) ** -25
    for t, k, mu, sg in inst[:5]:
        ref, dmu, dsig = columns([t], [k], [mu], [sg], [1.0])
        fm = (conv(mpf(t), mpf(k), mpf(mu) + h, mpf(sg)) - conv(mpf(t), mpf(k), mpf(mu) - h, mpf(sg))) / (2 * h)
        fs = (conv(mpf(t), mpf(k), mpf(mu), mpf(sg) + h) - conv(mpf(t), mpf(k), mpf(mu), mpf(sg) - h)) / (2 * h)
        if abs(abs(fm) - dmu[0, 0, 0]) > mpf(10) ** -20 * (abs(fm) + 1) or abs(abs(fs) - dsig[0, 0, 0]) > mpf(10) ** -20 * (abs(fs) + 1):
            raise AssertionError(f"sensitivity mismatch at {(t, k, mu, sg)}: {fm} {dmu[0,0,0]} {fs} {dsig[0,0,0]}")
