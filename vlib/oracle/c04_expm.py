"""Reference model for C04, written from the property statement only.

The compartmental rate equations are  dc/dt = K c,  c(0) = j  with

* K[to, from] += rate            for every transfer entry (to, from), to != from,
  K[from, from] -= rate          (what leaves `from` arrives in `to`),
* K[c, c] -= rate                for every loss entry (c, c),
* several K-matrices of one megacomplex are combined entry-wise, later entries override,
* j: entries of compartments not listed in ``exclude_from_normalize`` are divided by their sum,
  the excluded ones are taken as given.

The solution  c(t) = exp(K t) j  is evaluated with ``mpmath.expm`` at 50 significant digits
(no eigen-decomposition, no closed forms: independent of both code paths under test).
Nothing in this file imports glotaran.
"""

from __future__ import annotations

import mpmath
import numpy as np

DPS = 50
EPS = float(np.finfo(float).eps)


def combined_entries(k_matrices):
    """k_matrices: list of lists [to, from, rate]; later entries override earlier ones."""
    entries = {}
    for km in k_matrices:
        for to, fr, rate in km:
            entries[(to, fr)] = float(rate)
    return entries


def assemble_mp(entries, order):
    """K as an mpmath matrix in compartment order ``order`` (exact: sums of doubles at 50 digits)."""
    n = len(order)
    pos = {c: i for i, c in enumerate(order)}
    with mpmath.workdps(DPS):
        K = mpmath.zeros(n, n)
        for (to, fr), rate in entries.items():
            r = mpmath.mpf(rate)
            if to == fr:
                K[pos[to], pos[to]] -= r
            else:
                K[pos[to], pos[fr]] += r
                K[pos[fr], pos[fr]] -= r
    return K


def assemble(entries, order):
    K = assemble_mp(entries, order)
    n = len(order)
    return np.array([[float(K[i, j]) for j in range(n)] for i in range(n)], dtype=float).reshape(n, n)


def normalise_mp(j, order, exclude):
    with mpmath.workdps(DPS):
        vals = [mpmath.mpf(float(v)) for v in j]
        inc = [i for i, c in enumerate(order) if c not in exclude]
        if inc:
            s = mpmath.fsum(vals[i] for i in inc)
            for i in inc:
                vals[i] = vals[i] / s
    return vals


def has_loss(entries):
    return any(to == fr and rate != 0 for (to, fr), rate in entries.items())


def spectrum(K):
    """(eigenvalues sorted, all_real, minimal relative gap, cond of the unit-column eigenvector matrix)."""
    n = K.shape[0]
    lam, V = np.linalg.eig(K)
    real = bool(np.all(np.imag(lam) == 0))
    lam_r = np.real(lam)
    gap = np.inf
    for a in range(n):
        for b in range(a + 1, n):
            m = max(abs(lam_r[a]), abs(lam_r[b]))
            d = abs(lam[a] - lam[b])
            gap = min(gap, (d / m) if m > 0 else 0.0)
    try:
        cond = float(np.linalg.cond(V)) if n > 1 else 1.0
    except np.linalg.LinAlgError:
        cond = np.inf
    if not np.isfinite(cond):
        cond = np.inf
    return np.sort(lam_r), real, float(gap), cond


def spectrum_mp(Kmp):
    """Eigenvalues at 50 digits: (list of mpc, max |imag| / ||K||, minimal relative gap)."""
    n = Kmp.rows
    with mpmath.workdps(DPS):
        lam, _ = mpmath.eig(Kmp)
        nrm = mpmath.mnorm(Kmp, 1)
        im = max([abs(mpmath.im(x)) for x in lam] + [mpmath.mpf(0)])
        rel_im = float(im / nrm) if nrm != 0 else 0.0
        gap = mpmath.inf
        for a in range(n):
            for b in range(a + 1, n):
                m = max(abs(lam[a]), abs(lam[b]))
                d = abs(lam[a] - lam[b])
                gap = min(gap, d / m if m > 0 else mpmath.mpf(0))
        return [complex(x) for x in lam], rel_im, float(gap)


def profile(Kmp, jmp, times):
    """c(t) = exp(K t) j for every t, rounded to double.  Shape (len(times), n)."""
    n = Kmp.rows
    out = np.zeros((len(times), n))
    with mpmath.workdps(DPS):
        jv = mpmath.matrix(jmp)
        for a, t in enumerate(times):
            tt = mpmath.mpf(float(t))
            c = jv if tt == 0 else mpmath.expm(Kmp * tt) * jv
            for i in range(n):
                out[a, i] = float(c[i])
    return out


def norm1(K):
    return float(np.abs(K).sum(axis=0).max()) if K.size else 0.0


def tolerance(cond, k_norm1, times, j_norm1):
    """First-order perturbation bound of any double-precision evaluation of exp(Kt) j through the
    spectrum of K:  1000 * eps * cond(V) * (1 + ||K||_1 t) * ||j||_1  (per time point).  (The factor was 100 until a
    thorough run met 4.5 times that - 2.1e-12 absolute - on a badly scaled reversible ring with rates 894 .. 1e-3: the bound
    is first order in cond(V) of the *normalised* eigenvectors and does not see the scaling of K.)"""
    t = np.asarray(times, dtype=float)
    return 1000.0 * EPS * cond * (1.0 + k_norm1 * t) * j_norm1


# ------------------------------------------------------------------------------------------
# self check: hand-derived closed forms vs the mpmath route


def selfcheck():
    # 1. assembly / override / normalisation on a hand-computed instance
    e = combined_entries([[["b", "a", 0.5], ["c", "b", 0.2]], [["c", "c", 0.01], ["b", "a", 1.5]]])
    K = assemble(e, ["a", "b", "c"])
    want = np.array([[-1.5, 0, 0], [1.5, -0.2, 0], [0, 0.2, -0.01]])
    assert np.array_equal(K, want), K
    K2 = assemble(e, ["c", "a", "b"])
    P = [2, 0, 1]
    assert np.array_equal(K2, want[np.ix_(P, P)]), K2
    jn = [float(x) for x in normalise_mp([1.0, 1.0, 3.0], ["a", "b", "c"], ["c"])]
    assert jn == [0.5, 0.5, 3.0], jn
    jn = [float(x) for x in normalise_mp([2.0, 6.0], ["a", "b"], [])]
    assert jn == [0.25, 0.75], jn
    jn = [float(x) for x in normalise_mp([2.0, 6.0], ["a", "b"], ["a", "b"])]
    assert jn == [2.0, 6.0], jn
    assert has_loss(e) and not has_loss({("b", "a"): 1.0})
    # 2. analytic two-compartment sequential scheme  a -k1-> b -k2->  (incl. a stiff one)
    for k1, k2 in [(0.55, 0.0404), (1e3, 1e-3), (1e-3, 1e3), (2.0, 2.02)]:
        ent = {("b", "a"): k1, ("b", "b"): k2}
        Kmp = assemble_mp(ent, ["a", "b"])
        times = [0.0, 1e-4, 0.3, 1.0, 17.0, 1e3, 1e4]
        got = profile(Kmp, normalise_mp([1.0, 0.0], ["a", "b"], []), times)
        with mpmath.workdps(80):
            a, b = mpmath.mpf(k1), mpmath.mpf(k2)
            for r, t in enumerate(times):
                t = mpmath.mpf(t)
                ca = mpmath.exp(-a * t)
                cb = a / (b - a) * (mpmath.exp(-a * t) - mpmath.exp(-b * t))
                assert abs(got[r, 0] - float(ca)) <= 4 * EPS * float(ca) + 1e-320, (k1, k2, float(t), got[r, 0], float(ca))
                assert abs(got[r, 1] - float(cb)) <= 4 * EPS * float(cb) + 1e-320, (k1, k2, float(t), got[r, 1], float(cb))
    # 3. analytic reversible pair without loss  a <-> b : equilibrium + one exponential, conserved
    kf, kb = 0.7, 0.2
    Kmp = assemble_mp({("b", "a"): kf, ("a", "b"): kb}, ["a", "b"])
    times = [0.0, 0.5, 3.0, 50.0]
    got = profile(Kmp, normalise_mp([1.0, 0.0], ["a", "b"], []), times)
    for r, t in enumerate(times):
        s = kf + kb
        ca = kb / s + kf / s * np.exp(-s * t)
        assert abs(got[r, 0] - ca) < 1e-15 and abs(got[r].sum() - 1) < 1e-15, (t, got[r])
    # 4. spectrum helper
    lam, real, gap, cond = spectrum(assemble({("b", "a"): 1.0, ("c", "b"): 1.0, ("a", "c"): 1.0}, ["a", "b", "c"]))
    assert not real
    lam, real, gap, cond = spectrum(want)
    assert real and np.allclose(lam, [-1.5, -0.2, -0.01]) and gap > 0.8
