"""Reference objective written from the statement of C02 (never calls glotaran).

Input: a scheme *case* (vlib.gen.schemes) and a parameter value map {label: float}.
Output: per group the penalty vector (documented order), per dataset clps / weighted residual
blocks on the dataset's own coordinates, reduced-label counts, weights used.

Interval semantics: constraints and relations use the closed interval [min, max] on the axis
*value*.  Weights and penalty areas are index ranges; the statement only pins them down when
"points inside the closed interval" == "points between the axis points nearest to the bounds";
otherwise the reference raises Ambiguous (the case is discarded and counted - C08 decides those).
"""

from __future__ import annotations

import itertools

import numpy as np

from vlib import testmc


class Ambiguous(Exception):
    pass


class IllConditioned(Exception):
    pass


def applies(interval, x) -> bool:
    if interval is None:
        return True
    if len(interval) == 2 and not isinstance(interval[0], (list, tuple)):
        interval = [interval]
    for lo, hi in interval:
        if lo > hi:
            lo, hi = hi, lo
        if lo <= x <= hi:
            return True
    return False


def constraint_applies(c, x) -> bool:
    a = applies(c["interval"], x)
    return (not a) if c["type"] == "only" else a


def sharp_index_set(axis, iv):
    """Indices affected by an index-range item; raises Ambiguous when the statement leaves it open."""
    axis = np.asarray(axis, dtype=float)
    lo, hi = iv
    if lo > hi:
        lo, hi = hi, lo
    inside = [i for i, x in enumerate(axis) if lo <= x <= hi]

    def nearest(b, default):
        if np.isinf(b):
            return default
        d = np.abs(axis - b)
        m = d.min()
        if np.sum(d <= m * (1 + 1e-12) + 1e-300) > 1:
            raise Ambiguous("bound equidistant from two axis points")
        return int(d.argmin())

    a = nearest(lo, 0)
    b = nearest(hi, len(axis) - 1)
    outer = list(range(a, b + 1))
    if inside != outer:
        raise Ambiguous("inside != nearest-point range")
    return inside


def nnls_exact(A, y):
    m, n = A.shape
    best = (np.linalg.norm(y), np.zeros(n))
    for r in range(1, n + 1):
        for S in itertools.combinations(range(n), r):
            x, *_ = np.linalg.lstsq(A[:, S], y, rcond=None)
            if np.all(x >= 0):
                res = np.linalg.norm(y - A[:, S] @ x)
                if res < best[0]:
                    full = np.zeros(n)
                    full[list(S)] = x
                    best = (res, full)
    return best[1]


MAX_COND = [1.0]  # largest condition number of the linear problems solved since the last reset (for scale-aware tolerances)


def solve(A, y, fn, cond_limit):
    if A.shape[1] == 0:
        raise IllConditioned("no free clp")
    if A.shape[0] < A.shape[1]:
        raise IllConditioned("underdetermined")
    if not (np.all(np.isfinite(A)) and np.all(np.isfinite(y))):
        # (LAPACK's dgelsd - numpy.linalg.lstsq - does not return on non-finite input)
        raise IllConditioned("non-finite linear problem")
    cn = np.linalg.norm(A, axis=0)
    if cn.min() < 1e-100 or cn.max() > 1e100:
        # columns whose squared norm leaves the double range (an optimiser step to a rate where the basis function underflows):
        # no statement is made about linear problems that cannot be represented
        raise IllConditioned(f"column norm {cn.min():.1e} .. {cn.max():.1e}")
    sv = np.linalg.svd(A, compute_uv=False)
    if sv[-1] <= 0 or sv[0] / sv[-1] > cond_limit:
        raise IllConditioned(f"cond {sv[0] / max(sv[-1], 1e-300):.1e}")
    MAX_COND[0] = max(MAX_COND[0], sv[0] / sv[-1])
    if fn == "variable_projection":
        x, *_ = np.linalg.lstsq(A, y, rcond=None)
    else:
        x = nnls_exact(A, y)
    return x, y - A @ x


def dataset_matrix(case, d, values, gvals):
    """Unreduced, megacomplex-scaled (not dataset-scaled) per-index matrices: labels, [A_i]."""
    labels = []
    for mname in d["megacomplex"]:
        for l in case["megacomplexes"][mname]["labels"]:
            if l not in labels:
                labels.append(l)
    mats = []
    t = np.asarray(d["model_axis"], dtype=float)
    for g in gvals:
        A = np.zeros((t.size, len(labels)))
        for k, mname in enumerate(d["megacomplex"]):
            m = case["megacomplexes"][mname]
            s = values[d["megacomplex_scale"][k]] if d.get("megacomplex_scale") else 1.0
            for l, rlab in zip(m["labels"], m["rates"]):
                A[:, labels.index(l)] += s * testmc.column(m["shape"], values[rlab], t, g if m["index_dependent"] else None)
        mats.append(A)
    return labels, mats


def weights_of(case, d):
    """(model, global) weight array or None.  Dataset weight wins over model weights."""
    from vlib.gen.schemes import dataset_arrays

    _, w = dataset_arrays(d)
    if w is not None:
        return w, "dataset"
    mws = [w for w in case.get("weights", []) if d["label"] in w["datasets"]]
    if not mws:
        return None, None
    nm, ng = len(d["model_axis"]), len(d["global_axis"])
    W = np.ones((nm, ng))
    for mw in mws:
        gi = list(range(ng)) if mw["global_interval"] is None else sharp_index_set(d["global_axis"], mw["global_interval"])
        mi = list(range(nm)) if mw["model_interval"] is None else sharp_index_set(d["model_axis"], mw["model_interval"])
        for a in mi:
            for b in gi:
                W[a, b] *= mw["value"]
    return W, "model"


def reduce_labels(case, labels, x, values):
    """-> (reduced labels, T) with A_reduced = A @ T ;  plus bookkeeping for clp retrieval."""
    n = len(labels)
    T = np.eye(n)
    removed = set()
    rel_applied = []
    for r in case.get("relations", []):
        if r["target"] in labels and r["source"] in labels and applies(r["interval"], x):
            si, ti = labels.index(r["source"]), labels.index(r["target"])
            T[ti, si] = values[r["parameter"]]
            removed.add(ti)
            rel_applied.append((si, ti, values[r["parameter"]]))
    zero = set()
    for c in case.get("constraints", []):
        if c["target"] in labels and constraint_applies(c, x):
            zero.add(labels.index(c["target"]))
    for si, ti, _ in rel_applied:
        if ti in zero:
            # the statement demands both clp = 0 and clp = p * source: undefined unless the source is zero too
            raise Ambiguous("constraint and relation on the same target at one index")
    keep = [i for i in range(n) if i not in removed and i not in zero]
    return keep, T[:, keep], rel_applied, zero


def expand_clp(n, keep, xr_, rel_applied):
    clp = np.zeros(n)
    for j, i in enumerate(keep):
        clp[i] = xr_[j]
    for si, ti, p in rel_applied:
        clp[ti] = p * clp[si]
    return clp


def area(label, labels_per_index, clps, intervals, axis):
    out = []
    for iv in intervals:
        lo, hi = iv
        if lo > hi:
            lo, hi = hi, lo
        # wholly outside the axis: nothing is inside; the statement lets the nearest edge point count or not
        idx = sharp_index_set(axis, iv)
        for i in idx:
            if label in labels_per_index[i]:
                out.append(clps[i][labels_per_index[i].index(label)])
    return out


def penalties(case, labels_per_index, clps, axis, values):
    out = []
    for p in case.get("penalties", []):
        src = area(p["source"], labels_per_index, clps, p["source_intervals"], axis)
        tgt = area(p["target"], labels_per_index, clps, p["target_intervals"], axis)
        if len(src) == 0 or len(tgt) == 0:
            continue
        out.append(abs(np.sum(src) - values[p["parameter"]] * np.sum(tgt)) * p["weight"])
    return out


def group_is_linked(case, gname):
    g = case["groups"][gname]
    if g["link_clp"] is not None:
        return bool(g["link_clp"])
    return not any(d.get("global_megacomplex") for d in case["datasets"] if d["group"] == gname)


def reference(case, values, cond_limit=1e6):
    """-> dict(group -> dict(vector, n_clp, penalties), datasets -> dict(label -> info))"""
    from vlib.gen.schemes import dataset_arrays

    out = {"groups": {}, "datasets": {}, "group_order": []}
    MAX_COND[0] = 1.0
    for d in case["datasets"]:
        if d["group"] not in out["group_order"]:
            out["group_order"].append(d["group"])
    for gname in out["group_order"]:
        fn = case["groups"][gname]["residual_function"]
        climit = min(cond_limit, 1e3) if fn != "variable_projection" else cond_limit
        dss = [d for d in case["datasets"] if d["group"] == gname]
        vec = []
        pens = []
        n_clp = 0
        if not group_is_linked(case, gname):
            for d in dss:
                data, _ = dataset_arrays(d)
                W, wkind = weights_of(case, d)
                scale = values[d["scale"]] if d.get("scale") else 1.0
                gax = d["global_axis"]
                info = {"weight": W, "weight_kind": wkind, "scale": scale, "linked": False}
                if d.get("global_megacomplex"):
                    labels, mats = dataset_matrix(case, d, values, gax)
                    gm = case["gmegacomplexes"][d["global_megacomplex"][0]]
                    glabels = list(gm["labels"])
                    G = np.array([testmc.column(gm["shape"], values[r], np.asarray(gax, float), None) for r in gm["rates"]]).T
                    nm, ng = len(d["model_axis"]), len(gax)
                    rows = []
                    ys = []
                    for gi in range(ng):
                        for mi in range(nm):
                            w = 1.0 if W is None else W[mi, gi]
                            rows.append(w * np.array([G[gi, a] * mats[gi][mi, b] for a in range(len(glabels)) for b in range(len(labels))]))
                            ys.append(w * data[mi, gi])
                    D = np.array(rows)
                    y = np.array(ys)
                    x, r = solve(D, y, fn, climit)
                    vec.append(r)
                    n_clp += len(labels) * len(glabels)
                    info.update(full=True, labels=labels, glabels=glabels, clp=x.reshape(len(glabels), len(labels)),
                                wres=r.reshape(ng, nm).T, matrices=mats, gmatrix=G)
                else:
                    labels, mats = dataset_matrix(case, d, values, gax)
                    clps, wres, lpi = [], [], []
                    for gi, g in enumerate(gax):
                        A = mats[gi] * scale
                        keep, T, rel, zero = reduce_labels(case, labels, g, values)
                        Ar = A @ T
                        y = data[:, gi].copy()
                        if W is not None:
                            Ar = Ar * W[:, gi][:, None]
                            y = y * W[:, gi]
                        x, r = solve(Ar, y, fn, climit)
                        n_clp += len(keep)
                        clps.append(expand_clp(len(labels), keep, x, rel))
                        wres.append(r)
                        lpi.append(labels)
                        vec.append(r)
                    p = penalties(case, lpi, clps, gax, values)
                    pens += p
                    info.update(full=False, labels=labels, clp=np.array(clps), wres=np.array(wres).T, matrices=mats, penalties=p)
                out["datasets"][d["label"]] = info
        else:
            # alignment by the reference model of C09 (vlib/oracle/c09_align.py): sequential, in group order
            from vlib.oracle import c09_align

            tol = float(case.get("clp_link_tolerance", 0.0))
            method = case.get("clp_link_method", "nearest")
            aligned_vals = []
            mapping = {}  # dataset label -> list of aligned targets (one per own global index)
            for k, d in enumerate(dss):
                if k == 0:
                    targets = [float(g) for g in d["global_axis"]]
                else:
                    targets = []
                    for v in d["global_axis"]:
                        opts, _ = c09_align.admissible_targets(float(v), aligned_vals, tol, method)
                        if len(opts) != 1:
                            raise Ambiguous("alignment decision left open by the statement (float-fragile)")
                        targets.append(float(opts[0]))
                    if len(set(targets)) != len(targets):
                        raise Ambiguous("alignment refused (two points of one dataset on one target) - C09 decides")
                mapping[d["label"]] = targets
                aligned_vals = sorted(set(aligned_vals) | set(targets))
            aligned = aligned_vals
            per_ds = {}
            for d in dss:
                data, _ = dataset_arrays(d)
                W, wkind = weights_of(case, d)
                labels, mats = dataset_matrix(case, d, values, d["global_axis"])
                per_ds[d["label"]] = dict(data=data, W=W, labels=labels, mats=mats, scale=values[d["scale"]] if d.get("scale") else 1.0,
                                          clp=[None] * len(d["global_axis"]), wres=[None] * len(d["global_axis"]))
                out["datasets"][d["label"]] = {"weight": W, "weight_kind": wkind, "scale": per_ds[d["label"]]["scale"], "linked": True,
                                               "full": False, "labels": labels, "matrices": mats, "aligned_targets": mapping[d["label"]]}
            clps, lpi = [], []
            for g in aligned:
                members = [(d, mapping[d["label"]].index(g)) for d in dss if g in mapping[d["label"]]]
                full_labels = []
                for d, _ in members:
                    for l in per_ds[d["label"]]["labels"]:
                        if l not in full_labels:
                            full_labels.append(l)
                any_w = any(per_ds[d["label"]]["W"] is not None for d, _ in members)
                blocks, ys = [], []
                for d, gi in members:
                    P = per_ds[d["label"]]
                    B = np.zeros((len(d["model_axis"]), len(full_labels)))
                    for j, l in enumerate(P["labels"]):
                        B[:, full_labels.index(l)] = P["mats"][gi][:, j] * P["scale"]
                    y = P["data"][:, gi].copy()
                    if any_w:
                        w = P["W"][:, gi] if P["W"] is not None else np.ones(len(d["model_axis"]))
                        B = B * w[:, None]
                        y = y * w
                    blocks.append(B)
                    ys.append(y)
                A = np.vstack(blocks)
                y = np.concatenate(ys)
                keep, T, rel, zero = reduce_labels(case, full_labels, g, values)
                x, r = solve(A @ T, y, fn, climit)
                n_clp += len(keep)
                clp = expand_clp(len(full_labels), keep, x, rel)
                clps.append(clp)
                lpi.append(full_labels)
                vec.append(r)
                start = 0
                for d, gi in members:
                    P = per_ds[d["label"]]
                    nm = len(d["model_axis"])
                    P["wres"][gi] = r[start : start + nm]
                    P["clp"][gi] = np.array([clp[full_labels.index(l)] for l in P["labels"]])
                    start += nm
            pens = penalties(case, lpi, clps, aligned, values)
            for d in dss:
                P = per_ds[d["label"]]
                out["datasets"][d["label"]].update(clp=np.array(P["clp"]), wres=np.array(P["wres"]).T)
            out["groups"].setdefault(gname, {})["aligned_axis"] = aligned
        v = np.concatenate(vec + [np.asarray(pens, dtype=float)]) if vec else np.zeros(0)
        out["groups"].setdefault(gname, {}).update(vector=v, n_clp=n_clp, penalties=list(pens), n_data=int(sum(len(x) for x in vec)))
    out["vector"] = np.concatenate([out["groups"][g]["vector"] for g in out["group_order"]])
    out["max_cond"] = MAX_COND[0]
    return out
