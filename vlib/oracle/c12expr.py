"""Expression trees: the reference evaluator used by C11 and C12.

A tree is JSON data:

    ["ref", "k.1"]            value of the parameter with that label
    ["c", 2.5]                constant
    ["+"|"-"|"*"|"/", a, b]   arithmetic
    ["neg", a]                unary minus
    ["exp"|"log"|"sqrt"|"abs"|"sin", a]

The oracle evaluates the tree itself (IEEE double arithmetic through numpy scalars, the same
elementary functions asteval exposes); glotaran only ever sees the rendered ``$label`` string.
``evaluate_all`` evaluates all expression parameters in *dependency* order (memoised depth-first
search), which is what the property statement prescribes, whatever the declaration order.
"""

from __future__ import annotations

import math

import numpy as np

BINARY = ("+", "-", "*", "/")
FUNCS = ("exp", "log", "sqrt", "abs", "sin")
_NPF = {"exp": np.exp, "log": np.log, "sqrt": np.sqrt, "abs": np.abs, "sin": np.sin}


class OutOfDomain(Exception):
    """The tree has no finite value on this environment (division by zero, log(<=0), overflow...)."""


def const_str(v: float) -> str:
    r = repr(float(v))
    return f"({r})" if r.startswith("-") else r


def render(tree) -> str:
    """Fully parenthesised expression string in glotaran's ``$label`` syntax."""
    k = tree[0]
    if k == "ref":
        return f"${tree[1]}"
    if k == "c":
        return const_str(tree[1])
    if k in BINARY:
        return f"({render(tree[1])} {k} {render(tree[2])})"
    if k == "neg":
        return f"(-{render(tree[1])})"
    if k in FUNCS:
        return f"{k}({render(tree[1])})"
    raise ValueError(f"bad tree node {tree!r}")


def refs(tree, out=None) -> list:
    """Referenced labels, in order of first appearance."""
    out = [] if out is None else out
    k = tree[0]
    if k == "ref":
        if tree[1] not in out:
            out.append(tree[1])
    elif k != "c":
        for sub in tree[1:]:
            refs(sub, out)
    return out


def size(tree) -> int:
    return 1 if tree[0] in ("ref", "c") else 1 + sum(size(s) for s in tree[1:])


def evaluate(tree, env) -> float:
    """Value of ``tree`` with ``env[label]`` for references.  Raises OutOfDomain when an
    intermediate is not a finite double (the statement's domain is real-valued expressions)."""
    with np.errstate(all="ignore"):
        v = _ev(tree, env)
    return float(v)


def _fin(v):
    if not math.isfinite(v):
        raise OutOfDomain("non-finite intermediate")
    return v


def _ev(tree, env):
    k = tree[0]
    if k == "ref":
        return _fin(np.float64(env[tree[1]]))
    if k == "c":
        return np.float64(tree[1])
    if k in BINARY:
        a, b = _ev(tree[1], env), _ev(tree[2], env)
        if k == "+":
            return _fin(a + b)
        if k == "-":
            return _fin(a - b)
        if k == "*":
            return _fin(a * b)
        if b == 0:
            raise OutOfDomain("division by zero")
        return _fin(a / b)
    if k == "neg":
        return -_ev(tree[1], env)
    if k in FUNCS:
        a = _ev(tree[1], env)
        if k == "log" and a <= 0:
            raise OutOfDomain("log of non-positive")
        if k == "sqrt" and a < 0:
            raise OutOfDomain("sqrt of negative")
        return _fin(_NPF[k](a))
    raise ValueError(f"bad tree node {tree!r}")


def evaluate_all(exprs: dict, plain: dict) -> dict:
    """``exprs``: label -> tree for every expression parameter; ``plain``: label -> value of every
    other parameter.  Returns label -> value for the expression parameters, evaluated in dependency
    order.  Raises ValueError on a cycle / unknown reference, OutOfDomain as ``evaluate``."""
    done: dict = {}
    active: set = set()

    def value_of(label):
        if label in plain:
            return plain[label]
        if label in done:
            return done[label]
        if label not in exprs:
            raise ValueError(f"unknown reference {label}")
        if label in active:
            raise ValueError(f"cyclic reference through {label}")
        active.add(label)
        env = {r: value_of(r) for r in refs(exprs[label])}
        done[label] = evaluate(exprs[label], env)
        active.discard(label)
        return done[label]

    for label in exprs:
        value_of(label)
    return done


def depth_of(exprs: dict) -> dict:
    """Longest chain of expression-parameter references below each expression parameter."""
    memo: dict = {}

    def d(label):
        if label not in exprs:
            return 0
        if label not in memo:
            memo[label] = 1 + max([d(r) for r in refs(exprs[label])] or [0])
        return memo[label]

    return {label: d(label) for label in exprs}


def close(a: float, b: float, rtol: float, atol: float = 0.0) -> bool:
    """nan-aware, inf-aware closeness."""
    a, b = float(a), float(b)
    if math.isnan(a) or math.isnan(b):
        return math.isnan(a) and math.isnan(b)
    if math.isinf(a) or math.isinf(b):
        return a == b
    return abs(a - b) <= atol + rtol * max(abs(a), abs(b))


def selfcheck():
    """Hand-computed instances."""
    t = ["+", ["*", ["ref", "k.1"], ["c", 2.0]], ["neg", ["sqrt", ["abs", ["ref", "b"]]]]]
    assert render(t) == "(($k.1 * 2.0) + (-sqrt(abs($b))))", render(t)
    assert refs(t) == ["k.1", "b"]
    assert evaluate(t, {"k.1": 1.5, "b": -4.0}) == 1.0
    # D14's example, declared in the "wrong" order: a=$b+1, b=$c*2, c=3  ->  b=6, a=7
    ex = {"a": ["+", ["ref", "b"], ["c", 1.0]], "b": ["*", ["ref", "c"], ["c", 2.0]]}
    assert evaluate_all(ex, {"c": 3.0}) == {"b": 6.0, "a": 7.0}
    assert depth_of(ex) == {"a": 2, "b": 1}
    assert abs(evaluate(["exp", ["sin", ["log", ["c", 2.0]]]], {}) - math.exp(math.sin(math.log(2.0)))) < 1e-15
    for bad in (["/", ["c", 1.0], ["ref", "z"]], ["log", ["ref", "z"]], ["exp", ["c", 1e4]]):
        try:
            evaluate(bad, {"z": 0.0})
        except OutOfDomain:
            pass
        else:
            raise AssertionError(f"{bad} should be out of domain")
    try:
        evaluate_all({"a": ["ref", "b"], "b": ["ref", "a"]}, {})
    except ValueError:
        pass
    else:
        raise AssertionError("cycle not detected")
    assert const_str(-2.5) == "(-2.5)" and const_str(1e-5) == "1e-05"
