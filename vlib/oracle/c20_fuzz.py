"""C20 extra engine (thorough tier): coverage-guided fuzzing of the model grammar with atheris.

``python -m vlib.oracle.c20_fuzz --runs N --seed S --out result.json --corpus dir``  (started by the
``fuzz`` sub-check of ``vlib.props.c20``, which makes the seed corpus: the grammar consumes 50-300 bytes of
choices, shorter inputs are rejected by ``fuzz_one_input`` and an empty corpus would never get past them)

atheris drives ``hypothesis.fuzz_one_input`` of a test over ``vlib.gen.c20_models.models()``; the
instrumented modules are ``glotaran.model`` and ``glotaran.builtin.megacomplexes`` (the branching on the
*shape* of a specification lives there).  Every generated model is run through all mutation sub-checks of
``vlib.props.c20`` (not the evaluation sub-check: numba kernels give no coverage signal).  Violations are
recorded (first two per clause) and fuzzing continues; the JSON result is written at exit.
Runs in its own process because ``atheris.Fuzz()`` ends the process.
"""

from __future__ import annotations

import argparse
import atexit
import json
import sys
import time


def main():
    ap = argparse.ArgumentParser()
    ap.add_argument("--runs", type=int, default=2000)
    ap.add_argument("--seed", type=int, default=1)
    ap.add_argument("--out", required=True)
    ap.add_argument("--corpus", required=True, help="directory with seed inputs (made and removed by the caller)")
    a = ap.parse_args()

    import atheris

    with atheris.instrument_imports(include=["glotaran.model", "glotaran.builtin.megacomplexes"], enable_loader_override=False):
        import glotaran.builtin.megacomplexes.baseline  # noqa: F401
        import glotaran.builtin.megacomplexes.clp_guide  # noqa: F401
        import glotaran.builtin.megacomplexes.coherent_artifact  # noqa: F401
        import glotaran.builtin.megacomplexes.damped_oscillation  # noqa: F401
        import glotaran.builtin.megacomplexes.decay  # noqa: F401
        import glotaran.builtin.megacomplexes.pfid  # noqa: F401
        import glotaran.builtin.megacomplexes.spectral  # noqa: F401
        import glotaran.model  # noqa: F401

    from hypothesis import HealthCheck
    from hypothesis import given
    from hypothesis import settings

    from vlib.core import Discard
    from vlib.core import Violation
    from vlib.core import digest
    from vlib.core import to_jsonable
    from vlib.gen import c20_models as G
    from vlib.props import c20

    props = [("item", c20.prop_item_refs), ("dsmc", c20.prop_dataset_megacomplex), ("group", c20.prop_dataset_group),
             ("param", c20.prop_param_refs), ("uniq", c20.prop_unique_exclusive)]
    res = {"evaluations": 0, "distinct": 0, "discards": {}, "tags": {}, "failures": [], "failure_counts": {}, "errors": [], "wall": 0.0, "nontrivial": []}
    seen: set = set()
    t0 = time.time()

    def dump():
        res["distinct"] = len(seen)
        res["wall"] = time.time() - t0
        with open(a.out, "w") as f:
            json.dump(res, f)

    @settings(database=None, deadline=None, suppress_health_check=list(HealthCheck))
    @given(G.models())
    def test(case):
        dg = digest(case)
        if dg in seen:
            return
        seen.add(dg)
        res["evaluations"] += 1
        if res["evaluations"] % 5 == 0:
            dump()  # libFuzzer leaves through _exit(): atexit handlers are not reliable
        for sub, fn in props:
            try:
                out = fn(case) or {}
                if out.get("nontrivial") and (not res["nontrivial"] or res["nontrivial"][-1] != dg):
                    res["nontrivial"].append(dg)
                for t in out.get("tags", []):
                    res["tags"][t] = res["tags"].get(t, 0) + 1
            except Discard as d:
                res["discards"][d.reason] = res["discards"].get(d.reason, 0) + 1
            except Violation as v:
                n = res["failure_counts"].get(v.clause, 0)
                res["failure_counts"][v.clause] = n + 1
                if n < 2:
                    res["failures"].append({"sub": sub, "clause": v.clause, "message": v.message[:2000], "case": to_jsonable(case)})
            except Exception:  # noqa: BLE001  harness error, never a verdict
                import traceback

                if len(res["errors"]) < 3:
                    res["errors"].append({"sub": sub, "traceback": traceback.format_exc()[-3000:], "case": to_jsonable(case)})

    dump()
    atexit.register(dump)
    atheris.Setup([sys.argv[0], f"-runs={a.runs}", f"-seed={a.seed}", "-max_len=4096", "-len_control=0", "-verbosity=0", a.corpus],
                  test.hypothesis.fuzz_one_input)
    atheris.Fuzz()


if __name__ == "__main__":
    main()
