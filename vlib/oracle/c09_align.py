"""Alignment reference model for C09, written from the property statement (not from the code).

Statement: datasets are processed sequentially in group order.  The first dataset is aligned on
itself.  Every global-axis value ``v`` of a later dataset is assigned to exactly one aligned
point: the *nearest already aligned* point among those that lie within ``clp_link_tolerance``
(distance <= tolerance) *and* on the side permitted by ``clp_link_method`` (forward: target >= v,
backward: target <= v, nearest: either side) - or, if there is no such point, to itself.  The
already-aligned set grows dataset by dataset (it contains the targets of all earlier datasets).
Two points of one dataset on one target => the alignment is refused (AlignDatasetError).

Float-fragile decisions are left open (DESIGN section 3, rule 3a): the model returns the *set* of
admissible targets of a point.

* "within tolerance": with D = |t - v| and T = tolerance taken as exact rationals of the given
  floats, D == T or D < T - band is *in*, D > T + band is *out*, everything else (|D - T| <= band,
  D != T) is *open* (may or may not count).  band = 1e-9 * max(1, |t|, |v|, T).
  D == T exactly is sharp: then t - v is exactly representable, so no rounding is involved, and
  "within tolerance" is inclusive (tolerance 0 has to link identical values).
* "nearest": every candidate whose distance is within ``band`` of the smallest distance of the
  surely-in candidates is admissible (exact ties: either).
* side: ``t >= v`` / ``t <= v`` on floats is exact, hence sharp.
"""

from __future__ import annotations

import itertools
from fractions import Fraction

METHODS = ("nearest", "backward", "forward")
BAND_REL = 1e-9


class TooOpen(Exception):
    """More open decisions than the path enumeration is willing to follow."""


def band_of(v: float, t: float, tol: float) -> float:
    return BAND_REL * max(1.0, abs(v), abs(t), abs(tol))


def classify(v: float, t: float, tol: float) -> str:
    """'in' | 'open' | 'out' for "t lies within tol of v"."""
    d = abs(t - v)  # float distance, relative error <= eps
    band = band_of(v, t, tol)
    if d < tol - 2 * band:
        return "in"
    if d > tol + 2 * band:
        return "out"
    big_d = abs(Fraction(t) - Fraction(v))
    big_t = Fraction(tol)
    fb = Fraction(band)
    if big_d == big_t or big_d < big_t - fb:
        return "in"
    if big_d > big_t + fb:
        return "out"
    return "open"


def admissible_targets(v: float, aligned, tol: float, method: str):
    """Admissible aligned values for ``v`` given the already aligned values.

    Returns ``(options, info)``: options is a sorted list of floats; ``v`` itself is among them iff
    "maps to itself" is admissible.  info: {"open": bool, "tie": bool}.
    """
    if method not in METHODS:
        raise ValueError(method)
    sure, opn = [], []
    for t in aligned:
        if method == "forward" and not (t >= v):
            continue
        if method == "backward" and not (t <= v):
            continue
        c = classify(v, t, tol)
        if c == "in":
            sure.append(t)
        elif c == "open":
            opn.append(t)
    options = set()
    if not sure:
        options.add(v)  # no point surely within tolerance: "itself" is admissible
        options.update(opn)  # ... or any fragile one (resolution: only that one counts)
    else:
        dmin = min(abs(t - v) for t in sure)
        for t in sure + opn:
            if abs(t - v) <= dmin + band_of(v, t, tol):
                options.add(t)
    targets = sorted(options)
    n_aligned_targets = sum(1 for t in targets if t in sure or t in opn)
    return targets, {"open": bool(opn), "tie": n_aligned_targets > 1}


def check_assignment(axes, tol: float, method: str, observed):
    """Verify an observed assignment step by step along its own path.

    ``observed[k][c]`` is the aligned value dataset k's point c was assigned to.  Returns
    ``None`` if admissible, else ``(kind, message)`` with kind in {"first", "target", "merge"}.
    Also returns flags via the second element of the tuple ``(None, flags)`` - see below.
    """
    flags = {"open": False, "tie": False}
    first = [float(x) for x in axes[0]]
    if list(observed[0]) != first:
        return ("first", f"first dataset {first} must be aligned on itself, got {list(observed[0])}"), flags
    aligned = sorted(set(first))
    for k in range(1, len(axes)):
        for c, v in enumerate(axes[k]):
            v = float(v)
            opts, info = admissible_targets(v, aligned, tol, method)
            flags["open"] |= info["open"]
            flags["tie"] |= info["tie"]
            got = observed[k][c]
            if got not in opts:
                return (
                    "target",
                    f"dataset #{k} point {v!r}: assigned to {got!r}; admissible {opts} "
                    f"(already aligned {aligned}, tolerance {tol!r}, method {method})",
                ), flags
        if len(set(observed[k])) != len(observed[k]):
            return ("merge", f"dataset #{k}: two of its points {list(axes[k])} share a target: {list(observed[k])}"), flags
        aligned = sorted(set(aligned) | set(observed[k]))
    return None, flags


def error_analysis(axes, tol: float, method: str, cap: int = 50000):
    """(error_possible, success_possible) over all admissible resolutions of the open decisions."""
    seen: dict = {}
    budget = [cap]

    def rec(k, aligned):
        if k == len(axes):
            return False, True
        key = (k, aligned)
        if key in seen:
            return seen[key]
        opts = [admissible_targets(float(v), aligned, tol, method)[0] for v in axes[k]]
        errp = okp = False
        nxt = set()
        if all(len(o) == 1 for o in opts):
            combos = [tuple(o[0] for o in opts)]
        else:
            combos = itertools.product(*opts)
        for combo in combos:
            budget[0] -= 1
            if budget[0] < 0:
                raise TooOpen()
            if len(set(combo)) < len(combo):
                errp = True
            else:
                nxt.add(tuple(sorted(set(aligned) | set(combo))))
        for a in nxt:
            e, o = rec(k + 1, a)
            errp |= e
            okp |= o
        seen[key] = (errp, okp)
        return errp, okp

    return rec(1, tuple(sorted(set(float(x) for x in axes[0]))))


def selfcheck():
    """Hand-computed instances (independent of the code under test)."""
    # the D12 instance of DESIGN section 5: v=6, targets [0,3,7,10], tol 1
    tg = [0.0, 3.0, 7.0, 10.0]
    assert admissible_targets(6.0, tg, 1.0, "forward")[0] == [7.0]
    assert admissible_targets(6.0, tg, 1.0, "nearest")[0] == [7.0]
    assert admissible_targets(6.0, tg, 1.0, "backward")[0] == [6.0]
    assert admissible_targets(5.0, tg, 1.0, "nearest")[0] == [5.0]
    assert admissible_targets(8.0, tg, 1.0, "backward")[0] == [7.0]
    assert admissible_targets(8.0, tg, 1.0, "forward")[0] == [8.0]
    # documented example of the test-suite ([1,5,6] then [0,3,7,10], tolerance 1)
    for method, want in (("nearest", [1, 3, 6, 10]), ("backward", [0, 3, 6, 10]), ("forward", [1, 3, 7, 10])):
        got = [admissible_targets(float(v), [1.0, 5.0, 6.0], 1.0, method)[0] for v in tg]
        assert got == [[float(w)] for w in want], (method, got)
    # exact tie: either
    assert admissible_targets(1.5, [1.0, 2.0], 0.5, "nearest")[0] == [1.0, 2.0]
    assert admissible_targets(1.5, [1.0, 2.0], 0.5, "forward")[0] == [2.0]
    assert admissible_targets(1.5, [1.0, 2.0], 0.25, "nearest")[0] == [1.5]
    # tolerance exactly met (exactly representable): sharp, inclusive
    assert admissible_targets(1.5, [1.0], 0.5, "nearest")[0] == [1.0]
    assert admissible_targets(1.0, [1.0], 0.0, "nearest")[0] == [1.0]
    # 1.2 - 1 = 0.19999999999999996 vs 0.2: one rounding away from the tolerance => open
    assert admissible_targets(1.2, [1.0], 0.2, "nearest")[0] == [1.0, 1.2]
    assert admissible_targets(1.2, [1.0], 0.2, "forward")[0] == [1.2]
    # collision: both points of the second dataset fall on 1 => error mandatory
    assert error_analysis([[1.0], [0.5, 1.5]], 0.5, "nearest") == (True, False)
    assert error_analysis([[1.0], [0.5, 1.5]], 0.5, "forward") == (False, True)
    assert error_analysis([[1.0, 2.0], [1.5, 2.5]], 0.5, "nearest") == (True, True)  # tie at 1.5: 2.0 collides, 1.0 not
    # the aligned set grows dataset by dataset
    assert check_assignment([[0.0], [0.75], [0.5]], 0.25, "nearest", [[0.0], [0.75], [0.75]])[0] is None
    assert check_assignment([[0.0], [0.75], [0.5]], 0.25, "backward", [[0.0], [0.75], [0.5]])[0] is None
    assert check_assignment([[0.0], [0.75], [0.5]], 0.25, "nearest", [[0.0], [0.75], [0.5]])[0][0] == "target"
    assert check_assignment([[0.0], [0.5], [0.75]], 0.25, "nearest", [[0.0], [0.5], [0.5]])[0] is None
