"""Interval reference model for C08, written from the property statement only.

For a strictly increasing axis ``x`` and an interval ``(lo, hi)`` (any order, bounds may be
infinite, but not the *same* infinity):

* ``a, b = min(lo, hi), max(lo, hi)``
* ``inside = {i : a <= x_i <= b}``   ("affects every axis point inside the closed interval",
  an infinite bound reaches the end of the axis)
* ``outer  = {i : n(a) <= i <= n(b)}`` where ``n(v)`` is the index of the axis point nearest to
  ``v`` (``-inf -> 0``, ``+inf -> last``)   ("affects no point beyond the axis point nearest to a bound")
* the affected set ``S`` of an implementation is admissible iff ``inside <= S <= inside | outer``.

Float-fragile decisions are left open, i.e. the model returns a pair ``(must, may)`` and every
``S`` with ``must <= S <= may`` is admissible:

* an axis point that differs from a finite bound by less than ``TOL * scale`` without being equal
  to it is neither required nor forbidden;
* the nearest point is a *set* of candidates: all points whose distance to the bound is within
  ``TOL * scale`` of the smallest distance (this covers a bound exactly midway between two points:
  both neighbours are candidates).

Lists of intervals act as the union; ``None`` acts everywhere.
"""

from __future__ import annotations

import functools
import itertools
import math

TOL = 1e-9


def normalise(interval):
    lo, hi = float(interval[0]), float(interval[1])
    if math.isnan(lo) or math.isnan(hi):
        raise ValueError("NaN bound is outside the domain")
    if math.isinf(lo) and lo == hi:
        raise ValueError("both bounds are the same infinity: meaningless interval")
    return (lo, hi) if lo <= hi else (hi, lo)


def _scale(axis, v):
    s = max(1.0, abs(axis[0]), abs(axis[-1]))
    if math.isfinite(v):
        s = max(s, abs(v))
    return s


def nearest_candidates(axis, v):
    """Indices of the axis points that may be called 'nearest to v'."""
    n = len(axis)
    if v == -math.inf:
        return [0]
    if v == math.inf:
        return [n - 1]
    d = [abs(x - v) for x in axis]
    dmin = min(d)
    tol = TOL * _scale(axis, v)
    return [i for i in range(n) if d[i] <= dmin + tol]


def interval_sets(axis, interval):
    """Return (must, may) as frozensets of indices for one interval."""
    return _interval_sets(tuple(float(x) for x in axis), (float(interval[0]), float(interval[1])))


@functools.lru_cache(maxsize=200000)
def _interval_sets(axis, interval):
    a, b = normalise(interval)
    n = len(axis)
    must, fragile = set(), set()
    for i, x in enumerate(axis):
        near_a = math.isfinite(a) and x != a and abs(x - a) <= TOL * _scale(axis, a)
        near_b = math.isfinite(b) and x != b and abs(x - b) <= TOL * _scale(axis, b)
        if near_a or near_b:
            fragile.add(i)
        elif a <= x <= b:
            must.add(i)
    first = min(nearest_candidates(axis, a))
    last = max(nearest_candidates(axis, b))
    outer = set(range(first, last + 1)) if first <= last else set()
    may = must | fragile | outer
    # the closed interval itself is always allowed (fragile points inside it included)
    may |= {i for i in range(n) if a <= axis[i] <= b}
    return frozenset(must), frozenset(may)


def is_list_of_intervals(intervals):
    return len(intervals) > 0 and isinstance(intervals[0], (list, tuple))


def as_interval_list(intervals):
    """None -> None; [lo, hi] -> [[lo, hi]]; [[lo, hi], ...] -> same."""
    if intervals is None:
        return None
    if is_list_of_intervals(intervals):
        return [list(i) for i in intervals]
    return [list(intervals)]


def union_sets(axis, intervals):
    """(must, may) of None (everywhere), one interval or a list of intervals (union)."""
    n = len(axis)
    ivs = as_interval_list(intervals)
    if ivs is None:
        everything = frozenset(range(n))
        return everything, everything
    must, may = set(), set()
    for iv in ivs:
        m, y = interval_sets(axis, iv)
        must |= m
        may |= y
    return frozenset(must), frozenset(may)


def admissible(s, must, may):
    s = frozenset(s)
    return must <= s <= may


def admissible_sets(must, may, cap=4096):
    """Every set S with must <= S <= may (at most ``cap``; None if more)."""
    free = sorted(may - must)
    if 2 ** len(free) > cap:
        return None
    out = []
    for r in range(len(free) + 1):
        for extra in itertools.combinations(free, r):
            out.append(frozenset(must | set(extra)))
    return out


def contains(big, small):
    """Interval ``small`` is contained in interval ``big`` (as closed intervals)."""
    a, b = normalise(big)
    c, d = normalise(small)
    return a <= c and d <= b


def classify(axis, interval):
    """Classification tags of one interval relative to an axis (for the evidence / non-trivial rule)."""
    lo, hi = float(interval[0]), float(interval[1])
    a, b = normalise(interval)
    tags = set()
    if lo > hi:
        tags.add("reversed")
    if lo == hi:
        tags.add("degenerate")
    if math.isinf(a) or math.isinf(b):
        tags.add("infinite")
    for v in (a, b):
        if math.isinf(v):
            continue
        if v < axis[0] or v > axis[-1]:
            tags.add("outside")
        elif v not in axis:
            tags.add("between")
            for k in range(len(axis) - 1):
                if axis[k] < v < axis[k + 1] and v - axis[k] == axis[k + 1] - v:
                    tags.add("midway")
    if b < axis[0] or a > axis[-1]:
        tags.add("wholly_outside")
    return tags


def selfcheck():
    """Hand-computed instances of the statement."""
    inf = math.inf
    ax = [0.0, 1.0, 2.0, 4.0]
    f = frozenset

    def eq(got, must, may):
        assert got == (f(must), f(may)), (got, must, may)

    eq(interval_sets(ax, (1.0, 2.0)), {1, 2}, {1, 2})
    eq(interval_sets(ax, (0.5, 2.0)), {1, 2}, {0, 1, 2})  # 0.5 midway: 0 and 1 both nearest
    eq(interval_sets(ax, (0.75, 2.0)), {1, 2}, {1, 2})
    eq(interval_sets(ax, (0.25, 2.0)), {1, 2}, {0, 1, 2})
    eq(interval_sets(ax, (1.2, inf)), {2, 3}, {1, 2, 3})
    eq(interval_sets(ax, (-inf, 1.0)), {0, 1}, {0, 1})
    eq(interval_sets(ax, (-inf, inf)), {0, 1, 2, 3}, {0, 1, 2, 3})
    eq(interval_sets(ax, (inf, -inf)), {0, 1, 2, 3}, {0, 1, 2, 3})
    eq(interval_sets(ax, (5.0, 7.0)), set(), {3})
    eq(interval_sets(ax, (7.0, 1.5)), {2, 3}, {1, 2, 3})  # reversed, first bound beyond the axis; 1.5 midway
    eq(interval_sets(ax, (-3.0, -2.0)), set(), {0})
    eq(interval_sets(ax, (1.25, 1.5)), set(), {1, 2})  # between two points: 1.25 -> 1, 1.5 -> tie 1/2
    eq(interval_sets(ax, (1.25, 1.25)), set(), {1})
    eq(interval_sets(ax, (3.0, 1.0)), {1, 2}, {1, 2, 3})  # 3.0 midway between 2 and 4
    eq(interval_sets(ax, (1.0 + 1e-12, 2.0)), {2}, {1, 2})  # fragile lower bound
    eq(interval_sets([3.0], (-inf, inf)), {0}, {0})
    eq(interval_sets([3.0], (4.0, inf)), set(), {0})
    eq(union_sets(ax, None), {0, 1, 2, 3}, {0, 1, 2, 3})
    eq(union_sets(ax, [[0.0, 0.0], [3.9, 9.0]]), {0, 3}, {0, 3})
    eq(union_sets(ax, [2.0, 1.0]), {1, 2}, {1, 2})
    assert contains((0.0, inf), (3.0, 1.0)) and not contains((1.0, 3.0), (0.0, 2.0))
    assert len(admissible_sets(f({1}), f({0, 1, 2}))) == 4
    try:
        normalise((inf, inf))
    except ValueError:
        pass
    else:
        raise AssertionError("same infinity accepted")
