"""mpmath reference models for C07 (written from the property statement, never from the kernels).

* ``causal_conv(t, k, sigma)``      = int_0^inf  exp(-k s) N(t - s; 0, sigma) ds            (DOAS with IRF)
* ``anticausal_conv(t, k, sigma)``  = int_-inf^0 exp(-k s) N(t - s; 0, sigma) ds            (PFID)
  with N the unit-area Gaussian, complex k = gamma + i omega.  Closed forms in terms of the complex
  complementary error function; validated in ``selfcheck`` against ``mpmath.quad`` of the defining integral.
* ``effective_irf(irf, gaxis, i)``  = per-index centres / widths / scales of the Gaussian IRF, by the
  documented rule of the decay model: centre - shift_i + sum_j c_j d^j, width + sum_j w_j d^j,
  d = (lambda_i - lambda_c)/100  or  1e3/lambda_i - 1e3/lambda_c.
* artifact: Gaussian exp(-(t-c)^2/(2 w^2)) and its first / second derivative by ``mpmath.diff``.
* shapes: documented Gaussian / skewed-Gaussian formulae.
"""

from __future__ import annotations

import mpmath as mp

DPS = 50
CM_TO_ANGULAR = None  # set lazily (needs mp.dps)


def _mpf(x):
    return mp.mpf(x)


def omega_of(nu):
    """angular frequency (rad/ps) of a wavenumber in cm^-1: 0.03 * 2 pi * nu."""
    return mp.mpf("0.03") * 2 * mp.pi * _mpf(nu)


def causal_conv(t, k, sigma):
    """(exp(-k s) 1[s>=0]) * N(.;0,sigma) at t."""
    t, sigma = _mpf(t), _mpf(sigma)
    z = (k * sigma * sigma - t) / (sigma * mp.sqrt(2))
    return mp.mpf("0.5") * mp.exp(-k * t + k * k * sigma * sigma / 2) * mp.erfc(z)


def anticausal_conv(t, k, sigma):
    """(exp(-k s) 1[s<=0]) * N(.;0,sigma) at t   (Re k < 0)."""
    t, sigma = _mpf(t), _mpf(sigma)
    z = (t - k * sigma * sigma) / (sigma * mp.sqrt(2))
    return mp.mpf("0.5") * mp.exp(-k * t + k * k * sigma * sigma / 2) * mp.erfc(z)


def conv_by_quadrature(t, k, sigma, causal=True):
    t, sigma = _mpf(t), _mpf(sigma)

    def f(s):
        return mp.exp(-k * s) * mp.exp(-((t - s) ** 2) / (2 * sigma * sigma)) / (sigma * mp.sqrt(2 * mp.pi))

    # split at the Gaussian's centre so that quad sees the peak
    if causal:
        pts = [0, max(t, 0) + mp.mpf("1e-30"), max(t, 0) + 12 * sigma, max(t, 0) + 12 * sigma + 400 / max(abs(mp.re(k)), mp.mpf("0.01"))]
        if t - 12 * sigma > 0:
            pts = [0, t - 12 * sigma, t, t + 12 * sigma]
    else:
        lo = min(t, 0)
        pts = [lo - 12 * sigma - 400 / max(abs(mp.re(k)), mp.mpf("0.01")), lo - 12 * sigma, lo - mp.mpf("1e-30"), 0]
        if t + 12 * sigma < 0:
            pts = [t - 12 * sigma, t, t + 12 * sigma, 0]
    return mp.quad(f, sorted(set(pts)))


def dispersion_distance(irf, g):
    g = _mpf(g)
    lc = _mpf(irf["dispersion_center"])
    if irf.get("wavenumber"):
        return 1000 / g - 1000 / lc
    return (g - lc) / 100


def effective_irf(irf, gaxis, i):
    """[(position, width, scale)] of the Gaussians at global index ``i`` (None: index independent)."""
    centers = [_mpf(c) for c in irf["center"]]
    widths = [_mpf(w) for w in irf["width"]]
    n = max(len(centers), len(widths))
    if len(centers) != len(widths):
        if len(centers) == 1:
            centers = centers * n
        else:
            widths = widths * n
    scales = [_mpf(s) for s in irf["scale"]] if irf.get("scale") is not None else [mp.mpf(1)] * n
    shift = mp.mpf(0)
    if irf.get("shift") is not None and i is not None:
        shift = _mpf(irf["shift"][i])
    if irf["type"].startswith("spectral"):
        d = dispersion_distance(irf, gaxis[i])
        dc = sum((_mpf(c) * d ** (j + 1) for j, c in enumerate(irf.get("center_disp") or [])), mp.mpf(0))
        dw = sum((_mpf(w) * d ** (j + 1) for j, w in enumerate(irf.get("width_disp") or [])), mp.mpf(0))
        centers = [c + dc for c in centers]
        widths = [w + dw for w in widths]
    return [(c - shift, w, s) for c, w, s in zip(centers, widths, scales)], shift


def decay_column(t, rate, gaussians, normalize=True):
    """decay model reference (C05 closed form): sum_g s_g conv_g(t - mu_g) [/ sum s]."""
    tot = mp.mpf(0)
    for mu, sg, sc in gaussians:
        tot += sc * mp.re(causal_conv(_mpf(t) - mu, mp.mpc(rate, 0), sg))
    if normalize:
        tot /= sum(s for _, _, s in gaussians)
    return tot


def gauss_unit_height(t, c, w):
    return mp.exp(-((t - c) ** 2) / (2 * w * w))


def artifact_column(order, t, c, w):
    t, c, w = _mpf(t), _mpf(c), _mpf(w)
    if order == 1:
        return gauss_unit_height(t, c, w)
    return mp.diff(lambda x: gauss_unit_height(x, c, w), t, order - 1, h=w * mp.mpf("1e-12"))


def shape_gaussian(x, amp, loc, fwhm):
    x, loc, fwhm = _mpf(x), _mpf(loc), _mpf(fwhm)
    return _mpf(amp) * mp.exp(-mp.log(2) * (2 * (x - loc) / fwhm) ** 2)


def skew_theta(x, loc, fwhm, b):
    return (2 * _mpf(b) * (_mpf(x) - _mpf(loc)) + _mpf(fwhm)) / _mpf(fwhm)


def shape_skewed_of_theta(theta, amp, b):
    if theta <= 0:
        return mp.mpf(0)
    return _mpf(amp) * mp.exp(-mp.log(2) * (mp.log(theta) / _mpf(b)) ** 2)


def selfcheck():
    """closed forms vs the defining integrals / hand-computed values."""
    mp.mp.dps = DPS
    probes = [
        (0.2, mp.mpc(0.1, 4.7), 0.1),
        (-0.25, mp.mpc(3.0, 40.0), 0.1),
        (1.5, mp.mpc(0.0, 1.0), 0.5),
        (0.05, mp.mpc(25.0, 0.0), 0.2),
        (0.3, mp.mpc(2.0, 90.0), 0.05),
    ]
    for t, k, s in probes:
        a, b = causal_conv(t, k, s), conv_by_quadrature(t, k, s, True)
        assert abs(a - b) <= mp.mpf("1e-25") * (1 + abs(b)), ("causal", t, k, s, a, b)
        km = mp.mpc(-mp.re(k) - mp.mpf("0.05"), mp.im(k))
        a, b = anticausal_conv(t, km, s), conv_by_quadrature(t, km, s, False)
        assert abs(a - b) <= mp.mpf("1e-25") * (1 + abs(b)), ("anticausal", t, km, s, a, b)
    # long after the pulse the causal convolution is the bare oscillation times exp(k^2 s^2/2)
    k, s, t = mp.mpc(0.3, 2.0), mp.mpf("0.1"), mp.mpf(4)
    assert abs(causal_conv(t, k, s) - mp.exp(-k * t + k * k * s * s / 2)) < mp.mpf("1e-40")
    # sum of the two one-sided convolutions is the two-sided one
    assert abs(causal_conv(0.3, k, s) + anticausal_conv(0.3, k, s) - mp.exp(-k * mp.mpf(0.3) + k * k * s * s / 2)) < mp.mpf("1e-40")
    # artifact derivatives against the hand-derived polynomials
    t, c, w = mp.mpf("0.37"), mp.mpf("0.1"), mp.mpf("0.2")
    g = gauss_unit_height(t, c, w)
    assert abs(artifact_column(2, t, c, w) - (-(t - c) / w**2) * g) < mp.mpf("1e-20")
    assert abs(artifact_column(3, t, c, w) - (((t - c) ** 2 - w**2) / w**4) * g) < mp.mpf("1e-18")
    # shapes
    assert abs(shape_gaussian(5, 3, 5, 2) - 3) < mp.mpf("1e-40")
    assert abs(shape_gaussian(6, 3, 5, 2) - mp.mpf(3) / 2) < mp.mpf("1e-40")
    assert abs(shape_gaussian(4, 3, 5, 2) - mp.mpf(3) / 2) < mp.mpf("1e-40")
    th = skew_theta(5, 5, 2, 0.3)
    assert th == 1 and shape_skewed_of_theta(th, 3, 0.3) == 3
    assert shape_skewed_of_theta(skew_theta(1, 5, 2, 0.25), 3, 0.25) == 0  # theta = 0
    # skewed -> gaussian as b -> 0
    for x in (4.2, 5.5, 6.9):
        d = abs(shape_skewed_of_theta(skew_theta(x, 5, 2, 1e-9), 3, 1e-9) - shape_gaussian(x, 3, 5, 2))
        assert d < mp.mpf("1e-7"), d
    # effective irf
    irf = {"type": "spectral-multi-gaussian", "center": [0.3], "width": [0.1, 0.2], "scale": [1, 2], "shift": [0.0, 0.05],
           "dispersion_center": 500.0, "center_disp": [0.1, 0.01], "width_disp": [0.02], "wavenumber": False}
    g, sh = effective_irf(irf, [400.0, 700.0], 1)
    assert abs(g[0][0] - (mp.mpf("0.3") + mp.mpf("0.1") * 2 + mp.mpf("0.01") * 4 - mp.mpf("0.05"))) < mp.mpf("1e-15")
    assert abs(g[1][1] - (mp.mpf("0.2") + mp.mpf("0.02") * 2)) < mp.mpf("1e-15") and g[1][2] == 2
