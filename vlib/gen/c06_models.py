"""C06 generators: built-in megacomplex models as JSON spec dicts, and *declaration permutations* of them.

case = {
  "spec":        model spec (plain JSON; K-matrix keys as "to|from" strings),
  "parameters":  {group: [[label, value, {opts}], ...]},   (opts may hold "_rel": scale of the start-value perturbation)
  "datasets":    {label: {"time": [...], "spectral": [...], "noise": float, "noise_seed": int}},
  "clp_seed":    int,
  "perturb":     [factors applied to the free parameters for the start values of a fit],
  "perm":        declaration permutation (see ``apply_perm``); new_list[i] = old_list[perm[i]],
  "family":      "time" | "spectral" | "full" | "guide",
}

The twin model is ``apply_perm(case["spec"], case["perm"])``: nothing but the *order of declarations*
changes (label lists inside megacomplexes together with their parameters, initial-concentration lists,
K-matrix entries, megacomplex lists of datasets together with ``megacomplex_scale``, dict orders of all
model sections, dataset order) - or, for ``split``, an oscillation / shape megacomplex is replaced by
one megacomplex per label (what a label denotes does not change).
"""

from __future__ import annotations

import copy
import itertools

import numpy as np
from hypothesis import strategies as st

# all values exactly representable / well separated
RATES = [0.15, 0.45, 1.3, 4.0, 0.25, 0.7, 2.0, 6.0, 0.1, 0.33, 1.0, 3.0]
FREQS = [15.0, 28.0, 40.0, 52.0, 21.0, 34.0, 46.0, 58.0]
OSC_RATES = [0.3, 0.7, 0.15, 1.1, 0.45, 0.9, 0.2, 0.55]
PFID_FREQS = [1492.5, 1502.5, 1512.5, 1497.5, 1487.5, 1517.5]  # never on a point of the spectral grid (the sine column vanishes there)
PFID_RATES = [-2.0, -1.2, -3.1, -0.8, -1.7, -2.6]
SPECTRAL_POOL = [1480.0 + 5.0 * i for i in range(9)]  # cm^-1, exact
SPECTRAL_DENSE = [1480.0 + 2.5 * i for i in range(17)]  # model axis of spectral megacomplexes
SECTIONS = ["megacomplex", "dataset", "k_matrix", "initial_concentration", "irf", "shape"]
LABEL_LIST_TYPES = ("decay-parallel", "damped-oscillation", "pfid")


# ------------------------------------------------------------------------------------------
# axes


def time_axis(kind: str, n: int, t0: float = -1.0) -> list[float]:
    """Time axes (dyadic steps) reaching 5-17 time units; with an IRF they start before time zero
    (PFID lives there), without an IRF at zero (exp(-k t) is not a model for t < 0)."""
    if kind == "uniform":
        t = t0 + 0.125 * np.arange(n)
    elif kind == "integer":
        # whole numbers (np.arange): handed to the library as an integer array, see axes_of
        t = float(int(t0)) + np.arange(min(n, 40))
    elif kind == "two_step":
        n_dense = int((1.0 - t0) / 0.125) + 1  # step 1/8 up to t = 1, then step 1/2
        a = t0 + 0.125 * np.arange(n_dense)
        t = np.concatenate([a, a[-1] + 0.5 * np.arange(1, max(n - n_dense, 8) + 1)])
    else:  # quadratic
        u = np.arange(n) / (n - 1)
        t = t0 + 16.0 * u**2 + 0.03125 * np.arange(n)
    return [float(x) for x in t]


def _draw_time(draw, small=False, irf=True):
    return time_axis(draw(st.sampled_from(["uniform", "two_step", "two_step", "quadratic", "integer"])), draw(st.integers(28, 44 if small else 64)),
                     draw(st.sampled_from([-1.0, -0.5, -1.5])) if irf else 0.0)


def _draw_spectral(draw, pfid=False):
    n = draw(st.integers(3, 6))
    start = draw(st.integers(0, len(SPECTRAL_POOL) - n))
    return SPECTRAL_POOL[start : start + n]


# ------------------------------------------------------------------------------------------
# model pieces (deterministic given their arguments: used by the strategies and by the exhaustive grids)


class _Builder:
    def __init__(self):
        self.spec = {"megacomplex": {}, "dataset": {}}
        self.params: dict[str, list] = {}
        self._rate_i = 0
        self.labels_of: dict[str, list[str]] = {}  # megacomplex -> the labels it declares (for permutations)

    def par(self, group, label, value, **opts):
        self.params.setdefault(group, []).append([label, value, dict(opts)])
        return f"{group}.{label}"

    def next_rate(self, rot=0):
        v = RATES[(self._rate_i + rot) % len(RATES)]
        self._rate_i += 1
        return v

    def irf(self, kind, label="irf1", center=0.3, width=0.1):
        if kind == "none":
            return None
        g = label
        irf = {"type": kind, "center": self.par(g, "center", center), "width": self.par(g, "width", width)}
        if kind == "multi-gaussian":
            irf["center"] = [irf["center"], self.par(g, "center2", center + 0.35, vary=False)]
            irf["width"] = [irf["width"], self.par(g, "width2", 2.5 * width, vary=False)]
            irf["scale"] = [self.par(g, "scale1", 1.0, vary=False), self.par(g, "scale2", 0.25, vary=False)]
        if kind == "spectral-gaussian":
            irf["dispersion_center"] = self.par(g, "dispc", 1500.0, vary=False)
            irf["center_dispersion_coefficients"] = [self.par(g, "disp1", 0.04, vary=False), self.par(g, "disp2", -0.01, vary=False)]
        self.spec.setdefault("irf", {})[label] = irf
        return label

    def decay_parallel(self, label, comps, rot=0):
        g = f"k_{label}"
        self.spec["megacomplex"][label] = {
            "type": "decay-parallel",
            "compartments": list(comps),
            "rates": [self.par(g, c, self.next_rate(rot), **({"non-negative": True} if i % 2 == 0 else {"min": 0.01})) for i, c in enumerate(comps)],
        }
        self.labels_of[label] = list(comps)

    def decay_sequential(self, label, comps, rot=0):
        g = f"k_{label}"
        rates = sorted([self.next_rate(rot) for _ in comps], reverse=True)
        self.spec["megacomplex"][label] = {
            "type": "decay-sequential",
            "compartments": list(comps),
            "rates": [self.par(g, c, r, min=0.01) for c, r in zip(comps, rates)],
        }
        self.labels_of[label] = list(comps)

    def decay_general(self, label, comps, topo, n_km=1, rot=0):
        """K-matrix topologies outside the region of the known C04 finding D4 (closed-form path taken for
        an initial concentration other than e_0): chains are excited at their head only."""
        g = f"k_{label}"
        n = len(comps)
        entries = []  # (to, from, parameter)
        if topo == "chain" and n >= 2:
            rates = sorted([self.next_rate(rot) for _ in comps], reverse=True)
            for i in range(n - 1):
                entries.append((comps[i + 1], comps[i], self.par(g, f"t{i}", rates[i], min=0.01)))
            entries.append((comps[-1], comps[-1], self.par(g, f"t{n-1}", rates[-1], min=0.01)))
            j = [1.0] + [0.0] * (n - 1)
        elif topo == "branch" and n >= 2:
            entries.append((comps[1], comps[0], self.par(g, "t0", self.next_rate(rot), min=0.01)))
            entries.append((comps[0], comps[0], self.par(g, "loss", 0.9, vary=False)))
            for i, c in enumerate(comps[1:]):
                entries.append((c, c, self.par(g, f"d{i+1}", self.next_rate(rot), min=0.01)))
            if n >= 3:
                entries.append((comps[2], comps[0], self.par(g, "br", 0.4, vary=False)))
            if n >= 4:
                entries.append((comps[3], comps[1], self.par(g, "br2", 0.22, vary=False)))
            j = [1.0] + [0.0] * (n - 1)
        else:  # parallel with unequal inputs
            for i, c in enumerate(comps):
                entries.append((c, c, self.par(g, f"d{i}", self.next_rate(rot), min=0.01)))
            j = [1.0, 2.0, 0.5, 1.5][:n]
        kms = [f"km_{label}"] if n_km == 1 or len(entries) < 2 else [f"km_{label}", f"km_{label}_b"]
        for q, km in enumerate(kms):
            part = entries if len(kms) == 1 else entries[q::2]
            self.spec.setdefault("k_matrix", {})[km] = {"matrix": {f"{t}|{f}": p for t, f, p in part}}
        self.spec["megacomplex"][label] = {"type": "decay", "k_matrix": kms}
        self.labels_of[label] = list(comps)
        return dict(zip(comps, j))

    def initial_concentration(self, label, inputs: dict):
        g = f"j_{label}"
        self.spec.setdefault("initial_concentration", {})[label] = {
            "compartments": list(inputs),
            "parameters": [self.par(g, c, v, vary=False) for c, v in inputs.items()],
        }

    def oscillation(self, label, osc_labels, kind="damped-oscillation", offset=0):
        g = f"o_{label}"
        F, R = (FREQS, OSC_RATES) if kind == "damped-oscillation" else (PFID_FREQS, PFID_RATES)
        self.spec["megacomplex"][label] = {
            "type": kind,
            "labels": list(osc_labels),
            # "_rel": scale of the relative perturbation of the start values of a fit (a pfid frequency is an absolute position)
            "frequencies": [self.par(g, f"f_{o}", F[(i + offset) % len(F)], **({"_rel": 0.01} if kind == "pfid" else {})) for i, o in enumerate(osc_labels)],
            # PFID dephasing rates are negative by definition: keep the optimiser inside that domain
            "rates": [self.par(g, f"r_{o}", R[(i + offset) % len(R)], **({"max": -0.05} if kind == "pfid" else {})) for i, o in enumerate(osc_labels)],
        }
        self.labels_of[label] = list(osc_labels)

    def baseline(self, label="mc_base", dimension="time"):
        self.spec["megacomplex"][label] = {"type": "baseline", "dimension": dimension}

    def coherent_artifact(self, label="mc_coh", order=2, own_width=False):
        mc = {"type": "coherent-artifact", "order": order}
        if own_width:
            mc["width"] = self.par("coh", "width", 0.16, vary=False)
        self.spec["megacomplex"][label] = mc

    def spectral(self, label, species, offset=0, kinds=("gaussian", "skewed-gaussian", "gaussian", "one")):
        shapes = {}
        for i, s in enumerate(species):
            sh = f"sh_{label}_{s}"
            kind = kinds[(i + offset) % len(kinds)]
            g = f"s_{label}"
            item = {"type": kind}
            if kind in ("gaussian", "skewed-gaussian"):
                item["amplitude"] = self.par(g, f"a_{s}", 1.0 + 0.5 * ((i + offset) % 3), vary=False)
                item["location"] = self.par(g, f"l_{s}", 1486.0 + 7.0 * ((i + 2 * offset) % 5), _rel=0.02)
                item["width"] = self.par(g, f"w_{s}", 8.0 + 3.0 * ((i + offset) % 3))
                if kind == "skewed-gaussian":
                    item["skewness"] = self.par(g, f"k_{s}", 0.3, vary=False)
            self.spec.setdefault("shape", {})[sh] = item
            shapes[s] = sh
        self.spec["megacomplex"][label] = {"type": "spectral", "shape": shapes}
        self.labels_of[label] = list(species)

    def dataset(self, label, mcs, irf=None, ic=None, mc_scale=None, scale=None, gmcs=None, gmc_scale=None):
        d = {"megacomplex": list(mcs)}
        if irf:
            d["irf"] = irf
        if ic:
            d["initial_concentration"] = ic
        if mc_scale:
            d["megacomplex_scale"] = [self.par(f"ms_{label}", f"m{i}", v, vary=False) for i, v in enumerate(mc_scale)]
        if scale:
            d["scale"] = self.par("dscale", label, scale, vary=False)
        if gmcs:
            d["global_megacomplex"] = list(gmcs)
            if gmc_scale:
                d["global_megacomplex_scale"] = [self.par(f"gs_{label}", f"m{i}", v, vary=False) for i, v in enumerate(gmc_scale)]
        self.spec["dataset"][label] = d


def identity_perm():
    return {}


def _case(b: _Builder, datasets, family, perm=None, clp_seed=1, perturb=None, link=None):
    if link is not None:
        b.spec["dataset_groups"] = {"default": {"link_clp": link}}
    return {
        "spec": b.spec,
        "parameters": b.params,
        "datasets": datasets,
        "clp_seed": clp_seed,
        "perturb": perturb or [0.9, 1.1, 0.93, 1.07, 1.12, 0.88, 1.04, 0.96],
        "perm": perm or {},
        "family": family,
    }


def _axes(time, spectral, noise_seed=3, noise=0.01):
    return {"time": list(time), "spectral": list(spectral), "noise": noise, "noise_seed": noise_seed}


# ------------------------------------------------------------------------------------------
# permutation machinery


def _p(lst, perm):
    assert sorted(perm) == list(range(len(lst))), (lst, perm)
    return [lst[i] for i in perm]


def _pdict(d, perm):
    keys = list(d)
    return {keys[i]: d[keys[i]] for i in perm}


def apply_perm(spec: dict, perm: dict) -> dict:
    """The twin spec.  Only declaration order changes (see module docstring)."""
    s = copy.deepcopy(spec)
    for mc, pi in perm.get("mc_labels", {}).items():
        m = s["megacomplex"][mc]
        if m["type"] == "decay-parallel":
            m["compartments"], m["rates"] = _p(m["compartments"], pi), _p(m["rates"], pi)
        elif m["type"] in ("damped-oscillation", "pfid"):
            m["labels"], m["frequencies"], m["rates"] = _p(m["labels"], pi), _p(m["frequencies"], pi), _p(m["rates"], pi)
        elif m["type"] == "spectral":
            m["shape"] = _pdict(m["shape"], pi)
        else:
            raise ValueError(f"labels of a {m['type']} megacomplex are not permutable")
    for mc, pi in perm.get("mc_kmlist", {}).items():
        s["megacomplex"][mc]["k_matrix"] = _p(s["megacomplex"][mc]["k_matrix"], pi)
    for ic, pi in perm.get("ic", {}).items():
        item = s["initial_concentration"][ic]
        item["compartments"], item["parameters"] = _p(item["compartments"], pi), _p(item["parameters"], pi)
    for km, pi in perm.get("km_entries", {}).items():
        s["k_matrix"][km]["matrix"] = _pdict(s["k_matrix"][km]["matrix"], pi)
    for ds, pi in perm.get("ds_mc", {}).items():
        d = s["dataset"][ds]
        d["megacomplex"] = _p(d["megacomplex"], pi)
        if "megacomplex_scale" in d:
            d["megacomplex_scale"] = _p(d["megacomplex_scale"], pi)
    for ds, pi in perm.get("ds_gmc", {}).items():
        d = s["dataset"][ds]
        d["global_megacomplex"] = _p(d["global_megacomplex"], pi)
        if "global_megacomplex_scale" in d:
            d["global_megacomplex_scale"] = _p(d["global_megacomplex_scale"], pi)
    for mc in perm.get("split", []):
        m = s["megacomplex"].pop(mc)
        if m["type"] in ("damped-oscillation", "pfid"):
            parts = {f"{mc}__{lab}": {"type": m["type"], "labels": [lab], "frequencies": [f], "rates": [r]}
                     for lab, f, r in zip(m["labels"], m["frequencies"], m["rates"])}
        elif m["type"] == "spectral":
            parts = {f"{mc}__{sp}": {"type": "spectral", "shape": {sp: sh}} for sp, sh in m["shape"].items()}
        else:
            raise ValueError("split is defined for oscillation and spectral megacomplexes only")
        s["megacomplex"].update(parts)
        for d in s["dataset"].values():
            for key, skey in (("megacomplex", "megacomplex_scale"), ("global_megacomplex", "global_megacomplex_scale")):
                if key in d and mc in d[key]:
                    i = d[key].index(mc)
                    d[key][i : i + 1] = list(parts)
                    if skey in d:
                        d[skey][i : i + 1] = [d[skey][i]] * len(parts)
    for sec, pi in perm.get("sections", {}).items():
        if sec in s and len(pi) == len(s[sec]):
            s[sec] = _pdict(s[sec], pi)
    if "top" in perm and len(perm["top"]) == len(s):
        s = _pdict(s, perm["top"])
    return s


def perm_is_identity(perm: dict) -> bool:
    def ident(pi):
        return list(pi) == list(range(len(pi)))

    for k, v in perm.items():
        if k == "split":
            if v:
                return False
        elif k == "top":
            if not ident(v):
                return False
        elif any(not ident(pi) for pi in v.values()):
            return False
    return True


def perm_tags(perm: dict) -> list[str]:
    out = []
    for k, v in perm.items():
        if k == "split":
            if v:
                out.append("perm:split")
        elif k == "top":
            if list(v) != list(range(len(v))):
                out.append("perm:top")
        elif any(list(pi) != list(range(len(pi))) for pi in v.values()):
            out.append(f"perm:{k}")
    return out


def permutable_slots(spec, rich=True):
    """[(perm key, item, number of entries)] of everything whose declaration order can be permuted."""
    slots = []
    for mc, m in spec["megacomplex"].items():
        n = {"decay-parallel": lambda: len(m["compartments"]), "damped-oscillation": lambda: len(m["labels"]),
             "pfid": lambda: len(m["labels"]), "spectral": lambda: len(m["shape"])}.get(m["type"])
        if n and n() >= 2:
            slots.append(("mc_labels", mc, n()))
        if m["type"] == "decay" and len(m["k_matrix"]) >= 2:
            slots.append(("mc_kmlist", mc, len(m["k_matrix"])))
    for ic, item in spec.get("initial_concentration", {}).items():
        if len(item["compartments"]) >= 2:
            slots.append(("ic", ic, len(item["compartments"])))
    for ds, d in spec["dataset"].items():
        if len(d["megacomplex"]) >= 2:
            slots.append(("ds_mc", ds, len(d["megacomplex"])))
        if len(d.get("global_megacomplex", [])) >= 2:
            slots.append(("ds_gmc", ds, len(d["global_megacomplex"])))
    if rich:
        for km, item in spec.get("k_matrix", {}).items():
            if len(item["matrix"]) >= 2:
                slots.append(("km_entries", km, len(item["matrix"])))
        for sec in SECTIONS:
            if sec in spec and len(spec[sec]) >= 2:
                slots.append(("sections", sec, len(spec[sec])))
    return slots


def draw_perm(draw, spec, *, allow_split=False, rich=True):
    """A random non-identity declaration permutation (where the spec has anything to permute)."""
    perm: dict = {}
    if allow_split and draw(st.integers(0, 3)) == 0:
        cands = []
        for mc, m in spec["megacomplex"].items():
            k = len(m.get("labels", m.get("shape", []))) if m["type"] in ("damped-oscillation", "pfid", "spectral") else 0
            if k >= 2 and all(len(d["megacomplex"]) - 1 + k <= 3 for d in spec["dataset"].values() if mc in d["megacomplex"]) \
                    and all(len(d["global_megacomplex"]) - 1 + k <= 3 for d in spec["dataset"].values() if mc in d.get("global_megacomplex", [])):
                cands.append(mc)
        if cands:
            perm["split"] = [draw(st.sampled_from(cands))]
    slots = [s_ for s_ in permutable_slots(spec, rich) if not (s_[0] == "mc_labels" and s_[1] in perm.get("split", []))]
    core = [s_ for s_ in slots if s_[0] not in ("km_entries", "sections")]
    if slots:
        chosen = draw(st.lists(st.sampled_from(slots), min_size=0, max_size=len(slots), unique=True))
        if not perm and not any(c in core for c in chosen):
            # at least one permutation that changes the order of labels / megacomplexes where the spec has one
            chosen.append(draw(st.sampled_from(core or slots)))
        for key, item, n in chosen:
            # a rotation by 1..n-1 followed by an optional swap: never the identity for the first chosen slot
            pi = list(draw(st.permutations(list(range(n)))))
            if pi == list(range(n)):
                r = draw(st.integers(1, n - 1))
                pi = pi[r:] + pi[:r]
            perm.setdefault(key, {})[item] = pi
    if rich and draw(st.integers(0, 3)) == 0:
        perm["top"] = list(draw(st.permutations(list(range(len(spec))))))
    return perm


# ------------------------------------------------------------------------------------------
# Hypothesis strategies


@st.composite
def time_models(draw, *, for_fit=False, allow_split=False, with_perm=True, compose=False):
    """Models whose datasets have model dimension ``time``: up to 3 megacomplexes per dataset out of
    decay / decay-parallel / decay-sequential (sharing compartments or not), damped-oscillation, pfid,
    baseline, coherent-artifact; no / Gaussian / multi-Gaussian / dispersed Gaussian IRF."""
    b = _Builder()
    rot = draw(st.integers(0, len(RATES) - 1))
    b._rate_i = rot
    n_ds = draw(st.sampled_from([1, 1, 2] if for_fit else [1, 1, 2, 2, 3]))
    irf_kind = draw(st.sampled_from(["none", "gaussian", "gaussian", "multi-gaussian", "spectral-gaussian", "spectral-gaussian"]))
    irf = b.irf(irf_kind, center=draw(st.sampled_from([0.3, 0.1, 0.45])), width=draw(st.sampled_from([0.1, 0.2, 0.07])))
    max_lab = 3 if for_fit else 4
    species = ["s1", "s2", "s3", "s4", "s5"]
    # --- pool of megacomplexes
    pool = []
    decay_kind = draw(st.sampled_from(["par+seq", "par+par", "par+seq", "decay+par", "two-decay", "decay", "decay-sequential"] if compose else
                                      ["decay", "decay", "decay-parallel", "decay-parallel", "decay-sequential", "two-decay", "par+seq", "par+par", "decay+par"]))
    inputs = {}
    if decay_kind in ("decay", "two-decay", "decay+par"):
        n1 = draw(st.integers(1, max_lab))
        c1 = species[:n1]
        inputs.update(b.decay_general("mc_d1", c1, draw(st.sampled_from(["chain", "branch", "parallel"])), n_km=draw(st.integers(1, 2))))
        pool.append("mc_d1")
        if decay_kind == "two-decay":
            # second K-matrix megacomplex on other compartments (general decays share the dataset's initial concentration)
            n2 = draw(st.integers(1, 2))
            c2 = species[n1 : n1 + n2] or ["s5"]
            inputs.update(b.decay_general("mc_d2", c2, draw(st.sampled_from(["chain", "parallel"]))))
            pool.append("mc_d2")
        if decay_kind == "decay+par":
            shared = draw(st.booleans())
            c2 = ([c1[-1]] if shared else []) + ["s5"]
            b.decay_parallel("mc_d2", c2)
            pool.append("mc_d2")
    elif decay_kind in ("decay-parallel", "decay-sequential"):
        n1 = draw(st.integers(1, max_lab))
        (b.decay_parallel if decay_kind == "decay-parallel" else b.decay_sequential)("mc_d1", species[:n1])
        pool.append("mc_d1")
    else:
        n1, n2 = draw(st.integers(1, 3)), draw(st.integers(1, 2))
        overlap = draw(st.sampled_from([1, 1, 0])) if compose else draw(st.integers(0, 1))
        c1 = species[:n1]
        c2 = species[max(0, n1 - overlap) : max(0, n1 - overlap) + n2]
        if n1 >= 2 and draw(st.integers(0, 3)) == 0:
            # complete overlap: the same label set, listed in another order
            c2 = list(draw(st.permutations(c1)))
            if c2 == c1:
                c2 = c1[::-1]
        b.decay_parallel("mc_d1", c1)
        (b.decay_sequential if decay_kind == "par+seq" else b.decay_parallel)("mc_d2", c2)
        pool += ["mc_d1", "mc_d2"]
    extras = [e for e in ("doas", "pfid", "baseline", "coh") if draw(st.booleans())]
    if "doas" in extras and draw(st.booleans()):
        extras.append("doas2")
    if compose and not extras:
        extras = ["doas", "baseline"]
    if irf is None:
        extras = [e for e in extras if e not in ("pfid", "coh")]
    if "doas2" in extras and "doas" not in extras:
        extras[extras.index("doas2")] = "doas"
    extras = sorted(extras, key=lambda e: e == "doas2")  # the second oscillation megacomplex refers to the first
    for e in extras:
        if e == "doas":
            n = draw(st.integers(1, max_lab))
            b.oscillation("mc_osc", [f"osc{i+1}" for i in range(n)], offset=draw(st.integers(0, 3)))
            pool.append("mc_osc")
        elif e == "doas2":
            # a second oscillation megacomplex, sharing its first label with the first one or not
            first = b.spec["megacomplex"]["mc_osc"]["labels"][0]
            labs = [first if draw(st.booleans()) else "oscx", "oscy"][: draw(st.integers(1, 2))]
            b.oscillation("mc_osc2", labs, offset=4)
            pool.append("mc_osc2")
        elif e == "pfid":
            n = draw(st.integers(1, 3))
            b.oscillation("mc_pfid", [f"pf{i+1}" for i in range(n)], kind="pfid", offset=draw(st.integers(0, 2)))
            pool.append("mc_pfid")
        elif e == "baseline":
            b.baseline()
            pool.append("mc_base")
        else:
            b.coherent_artifact(order=draw(st.integers(1, 3)), own_width=draw(st.booleans()))
            pool.append("mc_coh")
    # --- datasets
    datasets = {}
    first_spectral = None
    for i in range(n_ds):
        lab = ["dataset_1", "dataset_2", "dataset_3"][i]
        k = min(len(pool), 3 if compose else draw(st.sampled_from([1, 2, 2, 3, 3, 3])))
        if i == 0 or draw(st.booleans()):
            mcs = list(draw(st.permutations(pool)))[:k]
        else:
            mcs = list(b.spec["dataset"]["dataset_1"]["megacomplex"])
        if for_fit and not any(m.startswith("mc_d") for m in mcs):
            mcs[0] = "mc_d1"
        ic = None
        if any(b.spec["megacomplex"][m]["type"] == "decay" for m in mcs):
            # the dataset's initial concentration covers exactly the species of its decay megacomplexes
            # (a species without an entry makes create_result raise: outside the statement of C06)
            ic = f"j{i+1}"
            comps = []
            for m in sorted(mcs):
                comps += [c for c in b.labels_of.get(m, []) if m.startswith("mc_d") and c not in comps]
            b.initial_concentration(ic, {c: inputs.get(c, 1.0) for c in sorted(comps)})
        mc_scale = [draw(st.sampled_from([0.5, 1.0, 2.0, 3.0])) for _ in mcs] if draw(st.booleans()) else None
        scale = draw(st.sampled_from([None, None, 0.5, 2.0, 3.0]))
        b.dataset(lab, mcs, irf=irf, ic=ic, mc_scale=mc_scale, scale=scale)
        spectral = _draw_spectral(draw)
        if first_spectral is None:
            first_spectral = spectral
        elif draw(st.booleans()):
            spectral = first_spectral
        datasets[lab] = _axes(_draw_time(draw, small=for_fit, irf=irf is not None), spectral, noise_seed=draw(st.integers(0, 10**6)),
                              noise=draw(st.sampled_from([0.0, 0.003, 0.01])) if for_fit else 0.0)
    link = draw(st.sampled_from([None, True, False])) if n_ds > 1 else None
    _freeze_unused(b)
    case = _case(b, datasets, "time", clp_seed=draw(st.integers(0, 10**6)), link=link,
                 perturb=[draw(st.sampled_from([0.88, 0.93, 1.06, 1.12])) for _ in range(8)])
    if with_perm:
        case["perm"] = draw_perm(draw, case["spec"], allow_split=allow_split)
    return case


def _freeze_unused(b: _Builder):
    """Parameters of megacomplexes no dataset uses are fixed (they cannot influence anything)."""
    used = {m for d in b.spec["dataset"].values() for m in d["megacomplex"] + d.get("global_megacomplex", [])}
    for m in b.spec["megacomplex"]:
        if m not in used:
            for g in (f"k_{m}", f"o_{m}", f"s_{m}"):
                for p in b.params.get(g, []):
                    p[2]["vary"] = False


@st.composite
def spectral_models(draw, *, for_fit=False, allow_split=False, with_perm=True):
    """Datasets with model dimension ``spectral`` (1-3 spectral megacomplexes sharing species or not,
    optional baseline), or full models: decay megacomplexes x global spectral megacomplexes."""
    b = _Builder()
    full = draw(st.booleans())
    species = ["s1", "s2", "s3", "s4"]
    n_sp = draw(st.integers(1, 2))
    max_lab = 3 if for_fit else 4
    n1 = draw(st.integers(1, max_lab))
    kinds = ("gaussian", "skewed-gaussian", "gaussian", "one") if not for_fit else ("gaussian", "skewed-gaussian", "gaussian")
    b.spectral("mc_sp1", species[:n1], offset=draw(st.integers(0, 3)), kinds=kinds)
    sp = ["mc_sp1"]
    if n_sp == 2:
        overlap = draw(st.integers(0, 1))
        c2 = species[max(0, n1 - overlap) : max(0, n1 - overlap) + draw(st.integers(1, 2))] or ["s4"]
        b.spectral("mc_sp2", c2, offset=draw(st.integers(0, 3)) + 1, kinds=kinds)
        sp.append("mc_sp2")
    datasets = {}
    if not full:
        if draw(st.booleans()):
            b.baseline("mc_base", dimension="spectral")
            sp.append("mc_base")
        n_ds = draw(st.integers(1, 2))
        for i in range(n_ds):
            lab = f"dataset_{i+1}"
            k = draw(st.integers(1, len(sp)))
            mcs = list(draw(st.permutations(sp)))[:k]
            if not any(m.startswith("mc_sp") for m in mcs):
                mcs[0] = "mc_sp1"
            b.dataset(lab, mcs, mc_scale=[draw(st.sampled_from([0.5, 1.0, 2.0])) for _ in mcs] if draw(st.booleans()) else None,
                      scale=draw(st.sampled_from([None, 2.0])))
            datasets[lab] = _axes(_draw_time(draw, small=True)[:12], SPECTRAL_DENSE, noise_seed=draw(st.integers(0, 10**6)), noise=0.003 if for_fit else 0.0)
        _freeze_unused(b)
        family = "spectral"
    else:
        kind = draw(st.sampled_from(["decay-parallel", "decay-sequential", "decay"]))
        all_sp = []
        for m in sp:
            all_sp += [s for s in b.spec["megacomplex"][m]["shape"] if s not in all_sp]
        ic = None
        if kind == "decay":
            inputs = b.decay_general("mc_d1", all_sp, draw(st.sampled_from(["chain", "branch", "parallel"])))
            b.initial_concentration("j1", inputs)
            ic = "j1"
        elif kind == "decay-parallel":
            b.decay_parallel("mc_d1", all_sp)
        else:
            b.decay_sequential("mc_d1", all_sp)
        irf = b.irf(draw(st.sampled_from(["none", "gaussian"])))
        b.dataset("dataset_1", ["mc_d1"], irf=irf, ic=ic, gmcs=sp,
                  gmc_scale=[draw(st.sampled_from([0.5, 1.0, 2.0])) for _ in sp] if draw(st.booleans()) else None)
        datasets["dataset_1"] = _axes(_draw_time(draw, small=True, irf=irf is not None), SPECTRAL_DENSE, noise_seed=draw(st.integers(0, 10**6)), noise=0.003 if for_fit else 0.0)
        family = "full"
    case = _case(b, datasets, family, clp_seed=draw(st.integers(0, 10**6)),
                 perturb=[draw(st.sampled_from([0.97, 0.985, 1.02, 1.03])) for _ in range(8)])
    if with_perm:
        case["perm"] = draw_perm(draw, case["spec"], allow_split=allow_split)
    return case


@st.composite
def guide_models(draw, *, with_perm=True):
    """A decay dataset linked to clp-guide datasets (exclusive megacomplex, one point on the model axis)."""
    b = _Builder()
    n = draw(st.integers(2, 3))
    comps = ["s1", "s2", "s3"][:n]
    kind = draw(st.sampled_from(["decay-parallel", "decay-sequential", "decay"]))
    ic = None
    if kind == "decay":
        b.initial_concentration("j1", b.decay_general("mc_d1", comps, draw(st.sampled_from(["chain", "branch", "parallel"]))))
        ic = "j1"
    elif kind == "decay-parallel":
        b.decay_parallel("mc_d1", comps)
    else:
        b.decay_sequential("mc_d1", comps)
    irf = b.irf(draw(st.sampled_from(["none", "gaussian"])))
    spectral = _draw_spectral(draw)
    b.dataset("dataset_1", ["mc_d1"], irf=irf, ic=ic)
    datasets = {"dataset_1": _axes(_draw_time(draw, small=True, irf=irf is not None), spectral, noise_seed=draw(st.integers(0, 10**6)), noise=0.003)}
    targets = list(draw(st.permutations(comps)))[: draw(st.integers(1, 2))]
    for i, tgt in enumerate(targets):
        b.spec["megacomplex"][f"mc_guide{i+1}"] = {"type": "clp-guide", "dimension": "time", "target": tgt}
        b.dataset(f"guide_{i+1}", [f"mc_guide{i+1}"])
        datasets[f"guide_{i+1}"] = _axes([0.0], spectral, noise_seed=draw(st.integers(0, 10**6)), noise=0.003)
    case = _case(b, datasets, "guide", clp_seed=draw(st.integers(0, 10**6)), link=True,
                 perturb=[draw(st.sampled_from([0.88, 0.93, 1.06, 1.12])) for _ in range(8)])
    if with_perm:
        case["perm"] = draw_perm(draw, case["spec"])
    return case


def twin_cases(for_fit=False):
    if for_fit:
        return st.one_of(time_models(for_fit=True), time_models(for_fit=True), time_models(for_fit=True),
                         spectral_models(for_fit=True), guide_models())
    return st.one_of(time_models(allow_split=True), time_models(allow_split=True), spectral_models(allow_split=True), guide_models())


def compose_cases():
    return st.one_of(time_models(with_perm=False, compose=True), time_models(with_perm=False, compose=True), time_models(with_perm=False),
                     spectral_models(with_perm=False))


# ------------------------------------------------------------------------------------------
# exhaustive grids


def _perms(n):
    return [list(p) for p in itertools.permutations(range(n))]


def base_single(kind: str, n: int, irf_kind: str):
    """One megacomplex with ``n`` labels in one dataset."""
    b = _Builder()
    irf = b.irf(irf_kind)
    labels4 = ["s1", "s2", "s3", "s4"][:n]
    ic = None
    target = None  # (perm key, item)
    if kind == "decay-parallel":
        b.decay_parallel("mc1", labels4)
        target = ("mc_labels", "mc1")
    elif kind in ("decay-chain", "decay-branch", "decay-par"):
        b.initial_concentration("j1", b.decay_general("mc1", labels4, kind.split("-")[1] if kind != "decay-par" else "parallel"))
        ic = "j1"
        target = ("ic", "j1")
    elif kind == "damped-oscillation":
        b.oscillation("mc1", [f"osc{i+1}" for i in range(n)])
        target = ("mc_labels", "mc1")
    elif kind == "pfid":
        b.oscillation("mc1", [f"pf{i+1}" for i in range(n)], kind="pfid")
        target = ("mc_labels", "mc1")
    else:
        raise ValueError(kind)
    b.dataset("dataset_1", ["mc1"], irf=irf, ic=ic)
    datasets = {"dataset_1": _axes(time_axis("two_step", 40, -1.0 if irf else 0.0), SPECTRAL_POOL[1:6])}
    return b, datasets, target


def grid_twin_matrix(tier):
    """Every permutation of up to 4 labels for every permutable megacomplex type with and without IRF; every
    order of 3 megacomplexes (with scales) crossed with every inner label order; all dataset / section orders
    of a three-dataset model."""
    cases = []
    for kind in ("decay-parallel", "decay-chain", "decay-branch", "decay-par", "damped-oscillation", "pfid"):
        for irf_kind in ("none", "gaussian", "multi-gaussian", "spectral-gaussian"):
            if kind == "pfid" and irf_kind == "none":
                continue
            for n in (2, 3, 4):
                for pi in _perms(n):
                    b, ds, (key, item) = base_single(kind, n, irf_kind)
                    cases.append(_case(b, ds, "time", perm={key: {item: pi}}))
    for n in (2, 3, 4):
        for pi in _perms(n):
            b = _Builder()
            b.spectral("mc1", ["s1", "s2", "s3", "s4"][:n])
            b.dataset("dataset_1", ["mc1"])
            cases.append(_case(b, {"dataset_1": _axes(time_axis("uniform", 10), SPECTRAL_DENSE)}, "spectral", perm={"mc_labels": {"mc1": pi}}))
            # as global megacomplex of a full model
            b = _Builder()
            b.spectral("mc_sp", ["s1", "s2", "s3", "s4"][:n])
            b.decay_parallel("mc_d1", ["s1", "s2", "s3", "s4"][:n])
            b.dataset("dataset_1", ["mc_d1"], gmcs=["mc_sp"])
            cases.append(_case(b, {"dataset_1": _axes(time_axis("uniform", 24, 0.0), SPECTRAL_DENSE)}, "full", perm={"mc_labels": {"mc_sp": pi}}))
    # three megacomplexes per dataset: order of the list (with scales) x inner orders
    for combo in ("par+doas+base", "decay+pfid+coh", "par+seq+doas", "doas+doas2+par"):
        for irf_kind in ("none", "gaussian", "spectral-gaussian"):
            b0, ds0, inner = base_combo(combo, irf_kind)
            if b0 is None:
                continue
            inner_perms = [dict(zip(inner, c)) for c in itertools.product(*[_perms(n) for n in inner.values()])]
            for pi in _perms(3):
                for ip in inner_perms:
                    b, ds, _ = base_combo(combo, irf_kind)
                    perm = {"ds_mc": {"dataset_1": pi}}
                    for (key, item), q in ip.items():
                        perm.setdefault(key, {})[item] = q
                    cases.append(_case(b, ds, "time", perm=perm))
    # dataset declaration order / dict order of the megacomplex section, three datasets
    for pi in _perms(3):
        for qi in _perms(3):
            for link in (None, False):
                b, ds = base_three_datasets()
                cases.append(_case(b, ds, "time", perm={"sections": {"dataset": pi, "megacomplex": qi}}, link=link))
    return cases


def base_combo(combo: str, irf_kind: str):
    b = _Builder()
    irf = b.irf(irf_kind)
    inner = {}
    ic = None
    if combo == "par+doas+base":
        b.decay_parallel("mc_a", ["s1", "s2", "s3"])
        b.oscillation("mc_b", ["osc1", "osc2", "osc3"])
        b.baseline("mc_c")
        inner = {("mc_labels", "mc_a"): 3, ("mc_labels", "mc_b"): 3}
    elif combo == "decay+pfid+coh":
        if irf is None:
            return None, None, None
        b.initial_concentration("j1", b.decay_general("mc_a", ["s1", "s2", "s3"], "branch", n_km=2))
        ic = "j1"
        b.oscillation("mc_b", ["pf1", "pf2"], kind="pfid")
        b.coherent_artifact("mc_c", order=3)
        inner = {("ic", "j1"): 3, ("mc_labels", "mc_b"): 2}
    elif combo == "par+seq+doas":
        b.decay_parallel("mc_a", ["s1", "s2"])
        b.decay_sequential("mc_b", ["s2", "s3"])  # shares s2
        b.oscillation("mc_c", ["osc1", "osc2"])
        inner = {("mc_labels", "mc_a"): 2, ("mc_labels", "mc_c"): 2}
    elif combo == "doas+doas2+par":
        b.oscillation("mc_a", ["osc1", "osc2", "osc3"])
        b.oscillation("mc_b", ["osc2", "oscx"], offset=4)  # shares osc2_cos / osc2_sin
        b.decay_parallel("mc_c", ["s1", "s2"])
        inner = {("mc_labels", "mc_a"): 3, ("mc_labels", "mc_b"): 2}
    b.dataset("dataset_1", ["mc_a", "mc_b", "mc_c"], irf=irf, ic=ic, mc_scale=[2.0, 0.5, 3.0])
    return b, {"dataset_1": _axes(time_axis("two_step", 56, -1.0 if irf else 0.0), SPECTRAL_POOL[2:6])}, inner


def base_three_datasets(irf_kind="gaussian"):
    b = _Builder()
    irf = b.irf(irf_kind)
    b.decay_parallel("mc_a", ["s1", "s2"])
    b.decay_sequential("mc_b", ["s2", "s3"])
    b.oscillation("mc_c", ["osc1", "osc2"])
    b.baseline("mc_d")
    b.dataset("dataset_1", ["mc_a", "mc_c"], irf=irf)
    b.dataset("dataset_2", ["mc_b", "mc_a", "mc_d"], irf=irf, mc_scale=[1.0, 2.0, 0.5], scale=2.0)
    b.dataset("dataset_3", ["mc_c", "mc_b"], irf=irf, scale=0.5)
    ds = {
        "dataset_1": _axes(time_axis("two_step", 32), SPECTRAL_POOL[0:4], noise_seed=11),
        "dataset_2": _axes(time_axis("uniform", 40), SPECTRAL_POOL[2:6], noise_seed=12),
        "dataset_3": _axes(time_axis("quadratic", 28), SPECTRAL_POOL[2:6], noise_seed=13),
    }
    return b, ds


def grid_twin_fit(tier):
    """optimize() twins: every order of 3 labels for each permutable type without and with IRF, every order of
    3 megacomplexes, every order of 3 datasets (linked and unlinked)."""
    cases = []
    for kind in ("decay-parallel", "decay-branch", "damped-oscillation", "pfid"):
        for irf_kind in ("none", "gaussian"):
            if kind == "pfid" and irf_kind == "none":
                continue
            for pi in _perms(3)[1:]:
                b, ds, (key, item) = base_single(kind, 3, irf_kind)
                if kind in ("damped-oscillation", "pfid"):
                    b.decay_parallel("mc0", ["s1"])
                    b.spec["dataset"]["dataset_1"]["megacomplex"].append("mc0")
                cases.append(_case(b, ds, "time", perm={key: {item: pi}}))
    for combo, irf_kind in (("par+doas+base", "none"), ("par+doas+base", "gaussian"), ("decay+pfid+coh", "gaussian"), ("par+seq+doas", "spectral-gaussian")):
        for pi in _perms(3)[1:]:
            b, ds, _ = base_combo(combo, irf_kind)
            cases.append(_case(b, ds, "time", perm={"ds_mc": {"dataset_1": pi}}))
    for pi in _perms(3)[1:]:
        for link in (None, False):
            b, ds = base_three_datasets()
            cases.append(_case(b, ds, "time", perm={"sections": {"dataset": pi}}, link=link))
    for pi in _perms(3)[1:]:
        b = _Builder()
        b.spectral("mc1", ["s1", "s2", "s3"], kinds=("gaussian", "skewed-gaussian", "gaussian"))
        b.dataset("dataset_1", ["mc1"])
        cases.append(_case(b, {"dataset_1": _axes(time_axis("uniform", 10), SPECTRAL_DENSE, noise=0.003)}, "spectral",
                           perm={"mc_labels": {"mc1": pi}}, perturb=[0.98, 1.02, 0.985, 1.03]))
    return cases


def grid_compose(tier):
    """Every ordered selection of 1-3 megacomplexes (with scales) out of a pool containing index-independent (2-D)
    and index-dependent (3-D) contributions with shared and distinct labels, for three IRF settings."""
    cases = []
    pool = ["mc_par", "mc_seq", "mc_dec", "mc_osc", "mc_osc2", "mc_pfid", "mc_base", "mc_coh"]
    for irf_kind in ("none", "gaussian", "spectral-gaussian"):
        avail = [m for m in pool if irf_kind != "none" or m not in ("mc_pfid", "mc_coh")]
        for k in (1, 2, 3):
            for sel in itertools.permutations(avail, k):
                b = compose_pool(irf_kind)
                needs_ic = "mc_dec" in sel
                b.dataset("dataset_1", list(sel), irf="irf1" if irf_kind != "none" else None, ic="j1" if needs_ic else None,
                          mc_scale=[2.0, 0.5, 3.0][:k] if (len(cases) % 3) else None)
                cases.append(_case(b, {"dataset_1": _axes(time_axis("two_step", 24, 0.0 if irf_kind == "none" else -1.0), SPECTRAL_POOL[2:5])}, "time"))
        # more megacomplexes in one dataset than any small-case shortcut expects (9-11), all sharing one label; and the same
        # megacomplex listed twice (with scales)
        for n_many in (9, 11):
            b = compose_pool(irf_kind)
            names = []
            for i in range(n_many):
                b.decay_parallel(f"mc_many{i}", ["s1", f"x{i}"])
                names.append(f"mc_many{i}")
            b.dataset("dataset_1", names, irf="irf1" if irf_kind != "none" else None, mc_scale=[1.0 + 0.25 * i for i in range(n_many)])
            cases.append(_case(b, {"dataset_1": _axes(time_axis("two_step", 24, 0.0 if irf_kind == "none" else -1.0), SPECTRAL_POOL[2:5])}, "time"))
        for sel, sc in ((["mc_par", "mc_seq", "mc_par"], [2.0, 1.5, 3.0]), (["mc_seq", "mc_par", "mc_par"], [1.5, 2.0, 3.0]), (["mc_osc", "mc_osc"], [2.0, 0.5])):
            b = compose_pool(irf_kind)
            b.dataset("dataset_1", list(sel), irf="irf1" if irf_kind != "none" else None, mc_scale=sc)
            cases.append(_case(b, {"dataset_1": _axes(time_axis("two_step", 24, 0.0 if irf_kind == "none" else -1.0), SPECTRAL_POOL[2:5])}, "time"))
        # a time axis of whole numbers, handed over as an integer array
        for k in (2, 3):
            for sel in itertools.permutations(["mc_par", "mc_seq", "mc_base", "mc_osc"], k):
                b = compose_pool(irf_kind)
                b.dataset("dataset_1", list(sel), irf="irf1" if irf_kind != "none" else None)
                cases.append(_case(b, {"dataset_1": _axes(time_axis("integer", 24, 0.0 if irf_kind == "none" else -1.0), SPECTRAL_POOL[2:5])}, "time"))
        # complete overlap: megacomplexes over the same label set listed in another order
        for k in (2, 3):
            for sel in itertools.permutations(["mc_par", "mc_par_r", "mc_osc", "mc_osc_r", "mc_base"], k):
                b = compose_pool(irf_kind)
                b.dataset("dataset_1", list(sel), irf="irf1" if irf_kind != "none" else None, mc_scale=[2.0, 0.5, 3.0][:k] if (len(cases) % 2) else None)
                cases.append(_case(b, {"dataset_1": _axes(time_axis("two_step", 24, 0.0 if irf_kind == "none" else -1.0), SPECTRAL_POOL[2:5])}, "time"))
    return cases


def compose_pool(irf_kind):
    b = _Builder()
    b.irf(irf_kind)
    b.decay_parallel("mc_par", ["s1", "s2"])
    b.decay_sequential("mc_seq", ["s2", "s3"])
    b.initial_concentration("j1", b.decay_general("mc_dec", ["s3", "s4"], "branch"))
    b.oscillation("mc_osc", ["osc1", "osc2"])
    b.oscillation("mc_osc2", ["osc2", "oscx"], offset=4)
    b.decay_parallel("mc_par_r", ["s2", "s1"])
    b.oscillation("mc_osc_r", ["osc2", "osc1"], offset=2)
    if irf_kind != "none":
        b.oscillation("mc_pfid", ["pf1", "pf2"], kind="pfid")
        b.coherent_artifact("mc_coh", order=2)
    b.baseline("mc_base")
    return b
