"""C20 - model grammar: JSON spec dicts for all built-in item types + matching parameter dicts.

A *case* produced by ``models()`` is plain JSON::

    {"spec":   {...model specification, see below...},
     "params": {label: value},          # every parameter the model references (+ a few unused ones)
     "free":   [label, ...],            # the parameters that vary (all others are fixed; keeps one
                                        #  objective evaluation + finite-difference Jacobian cheap)
     "data":   {dataset_label: kind},   # which seeded data set to make for which dataset
     "seed":   int,                     # data seed
     "mut_seed": int}                   # selects the mutation variants in the property functions

The spec is what ``Model.create_class_from_megacomplexes(types)(**spec)`` takes (the same thing the
yml loader produces after ``sanitize_yaml``), with two JSON encodings undone by ``to_python_spec``:
a K-matrix ``matrix`` is a list of ``[to, from, parameter_label]`` triples (python: dict keyed by
``(to, from)``) and intervals are lists (python: tuples).

Construction over rejection: every generated model is valid by construction and evaluable
(rates distinct, IRF present where a megacomplex needs it, shift lists as long as the global axis,
every dataset keeps >= 1 unconstrained clp).  Labels come from *confusable pools*: item labels are
shared between sections (an irf may be called like a k_matrix, a megacomplex ``irf`` or ``default``,
numeric-looking labels ``0``/``1``/``10``); parameter labels contain ``0``, ``1``, ``10``, ``1.10``-like
nested labels.  Compartment / clp labels are kept disjoint from both pools so that a KeyError naming a
model or parameter label can only come from reference resolution.
"""

from __future__ import annotations

import copy

import numpy as np
from hypothesis import strategies as st

ITEM_POOL = [
    "a", "a1", "a10", "b", "ab", "ba", "0", "1", "10", "01", "default", "irf", "megacomplex", "k_matrix",
    "shape", "scale", "dataset", "group", "x.y", "m-1",
]
PARAM_POOL = (
    [str(i) for i in range(0, 14)]
    + ["00", "01", "0.0", "0.1", "1.0", "1.1", "1.10", "10.1"]
    + [f"{g}.{i}" for g in ("k", "rates", "irf", "s", "p.q", "osc", "b.0") for i in (0, 1, 2, 3, 10, 11, 12)]
    + ["a", "a1", "a10", "ab", "scale_1", "scale_2", "center", "width", "x", "y", "z", "kinetic.k1", "kinetic.k2",
       "i.c", "i.w", "i.s", "d.c", "d.1", "d.2", "w", "w0", "w1", "bp", "amp", "loc", "skew", "rel", "pen"]
)
assert len(set(PARAM_POOL)) == len(PARAM_POOL)
DATASET_LABELS = ["dsA", "dsB", "dsC", "dsD"]
GROUP_LABELS = ["g", "g1", "0", "grp.x", "Default"]

TIME_AXIS = [round(-1.0 + 0.75 * i, 6) for i in range(13)]
TIME_AXIS_FULL = [round(-1.0 + 0.4 * i, 6) for i in range(25)]  # full models: up to 12 x 6 kron columns need >= 72 data points
SPECTRAL_GLOBAL = [480.0, 500.0, 520.0]
SPECTRAL_MODEL = [470.0 + 7.5 * i for i in range(9)]
TIME_GLOBAL = [0.0, 1.0, 2.0]
N_GLOBAL = 3

TIME_TYPES = ["decay", "decay-sequential", "decay-parallel", "damped-oscillation", "pfid", "coherent-artifact", "baseline"]
IRF_TYPES = ["gaussian", "multi-gaussian", "spectral-gaussian", "spectral-multi-gaussian"]
NEEDS_IRF_ATTR = {"decay", "decay-sequential", "decay-parallel", "damped-oscillation", "pfid", "coherent-artifact"}

_VALUE = {
    # class -> value of the i-th parameter of that class
    "rate": lambda i: 0.11 * 1.3**i,  # distinct, and small enough for the Gaussian-IRF kernel (exp(rate^2 width^2 / 2))
    "ic": lambda i: 1.0,
    "irf_center": lambda i: 0.3 + 0.1 * i,
    "irf_width": lambda i: 0.2 + 0.05 * i,
    "irf_scale": lambda i: 1.0 / (1 + i),
    "irf_shift": lambda i: 0.01 * ((i % 3) - 1),
    "disp_center": lambda i: 500.0,
    "disp_c": lambda i: 0.01 / (1 + i),
    "disp_w": lambda i: 0.001 / (1 + i),
    "backsweep": lambda i: 100.0 + i,
    "scale": lambda i: 1.0 + 0.1 * i,
    "freq": lambda i: 20.0 + 7.0 * i,
    "osc_rate": lambda i: 0.2 + 0.1 * i,
    "pfid_freq": lambda i: 490.0 + 10.0 * i,
    "pfid_rate": lambda i: -0.3 - 0.1 * i,  # PFID dephasing rates are negative by the megacomplex' convention
    "art_width": lambda i: 0.25 + 0.05 * i,
    "amp": lambda i: 1.0 + i,
    "loc": lambda i: 495.0 + 5.0 * i,
    "shape_width": lambda i: 20.0 + i,
    "skew": lambda i: 0.1 + 0.05 * i,
    "rel": lambda i: 0.5 + 0.1 * i,
    "pen": lambda i: 1.0 + 0.1 * i,
}


class _Builder:
    def __init__(self, draw):
        self.draw = draw
        self.spec: dict = {"megacomplex": {}, "dataset": {}}
        self.params: dict[str, float] = {}
        self.by_class: dict[str, list[str]] = {}
        self.pool = list(PARAM_POOL)
        self.n_comp = 0
        self.ic_cache: dict[tuple, str] = {}
        self.mc_comps: dict[str, list[str]] = {}  # megacomplex label -> clp labels it produces
        self.mc_nclp: dict[str, int] = {}
        self.k_comps: dict[str, list[str]] = {}
        self.n_extra = 0

    # ---- labels and parameters
    def label(self, section: str) -> str:
        used = set(self.spec.get(section, {}))
        free = [lab for lab in ITEM_POOL if lab not in used]
        return self.draw(st.sampled_from(free))

    def param(self, cls: str, avoid=()) -> str:
        have = [p for p in self.by_class.get(cls, []) if p not in avoid]
        if have and self.draw(st.integers(0, 4)) == 0:
            return self.draw(st.sampled_from(have))
        lab = self.fresh_param_label()
        idx = len(self.by_class.setdefault(cls, []))
        self.by_class[cls].append(lab)
        self.params[lab] = float(_VALUE[cls](idx))
        return lab

    def fresh_param_label(self) -> str:
        if self.pool:
            # (index draws instead of st.permutations: integers(a, b) with a > 0 are not reachable through
            #  hypothesis' fuzz_one_input byte provider, which the thorough-tier atheris engine uses)
            return self.pool.pop(self.draw(st.integers(0, len(self.pool) - 1)))
        self.n_extra += 1
        return f"extra.{self.n_extra}"

    def comps(self, n: int) -> list[str]:
        out = [f"s{self.n_comp + i + 1}" for i in range(n)]
        self.n_comp += n
        return out

    def section(self, name: str) -> dict:
        return self.spec.setdefault(name, {})

    # ---- items
    def new_k_matrix(self) -> tuple[str, list[str]]:
        d = self.draw
        n = (1 + d(st.integers(0, 2)))
        cs = self.comps(n)
        used: list[str] = []
        entries = []

        def rate():
            p = self.param("rate", avoid=used)
            used.append(p)
            return p

        if n > 1 and d(st.booleans()):  # chain  c1 -> c2 -> ... -> cn -> ground
            for i in range(n - 1):
                entries.append([cs[i + 1], cs[i], rate()])
            entries.append([cs[-1], cs[-1], rate()])
        else:  # parallel decays
            for c in cs:
                entries.append([c, c, rate()])
        lab = self.label("k_matrix")
        self.section("k_matrix")[lab] = {"matrix": entries}
        self.k_comps[lab] = cs
        return lab, cs

    def new_irf(self) -> str:
        d = self.draw
        typ = d(st.sampled_from(IRF_TYPES))
        multi = "multi" in typ
        item: dict = {"type": typ}
        if multi:
            nc, nw = d(st.sampled_from([(1, 1), (1, 2), (2, 1), (2, 2)]))
            item["center"] = [self.param("irf_center") for _ in range(nc)]
            item["width"] = [self.param("irf_width") for _ in range(nw)]
            n = max(nc, nw)
        else:
            item["center"] = self.param("irf_center")
            item["width"] = self.param("irf_width")
            n = 1
        if d(st.integers(0, 2)) == 0:
            item["scale"] = [self.param("irf_scale") for _ in range(n)]
        if d(st.integers(0, 2)) == 0:
            item["shift"] = [self.param("irf_shift") for _ in range(N_GLOBAL)]
        bs = d(st.integers(0, 3))
        if bs == 0:
            item["backsweep"] = True
            item["backsweep_period"] = self.param("backsweep")
        elif bs == 1:
            item["backsweep_period"] = self.param("backsweep")  # referenced although backsweep is off
        if typ.startswith("spectral"):
            item["dispersion_center"] = self.param("disp_center")
            item["center_dispersion_coefficients"] = [self.param("disp_c") for _ in range(d(st.integers(0, 2)))]
            if d(st.booleans()):
                item["width_dispersion_coefficients"] = [self.param("disp_w") for _ in range((1 + d(st.integers(0, 1))))]
        if d(st.integers(0, 3)) == 0:
            item["normalize"] = False
        lab = self.label("irf")
        self.section("irf")[lab] = item
        return lab

    def new_shape(self) -> str:
        d = self.draw
        typ = d(st.sampled_from(["gaussian", "gaussian", "skewed-gaussian", "skewed-gaussian", "one", "zero"]))
        item: dict = {"type": typ}
        if typ in ("gaussian", "skewed-gaussian"):
            if d(st.booleans()):
                item["amplitude"] = self.param("amp")
            item["location"] = self.param("loc")
            item["width"] = self.param("shape_width")
            if typ == "skewed-gaussian":
                item["skewness"] = self.param("skew")
        lab = self.label("shape")
        self.section("shape")[lab] = item
        return lab

    def new_mc(self, typ: str, dimension: str = "time") -> str:
        d = self.draw
        item: dict = {"type": typ}
        clps: list[str] = []
        if typ == "decay":
            kms: list[str] = []
            for _ in range((1 + d(st.integers(0, 1)))):
                existing = [k for k in self.spec.get("k_matrix", {}) if k not in kms]
                if existing and d(st.integers(0, 2)) == 0:
                    k = d(st.sampled_from(existing))
                    cs = self.k_comps[k]
                else:
                    k, cs = self.new_k_matrix()
                kms.append(k)
                clps += cs
            item["k_matrix"] = kms
        elif typ in ("decay-sequential", "decay-parallel"):
            n = (1 + d(st.integers(0, 2)))
            clps = self.comps(n)
            item["compartments"] = clps
            used: list[str] = []
            for _ in range(n):
                used.append(self.param("rate", avoid=used))
            item["rates"] = used
        elif typ in ("damped-oscillation", "pfid"):
            n = (1 + d(st.integers(0, 1)))
            labels = [f"o{self.n_comp + i + 1}" for i in range(n)]
            self.n_comp += n
            item["labels"] = labels
            fc, rc = ("freq", "osc_rate") if typ == "damped-oscillation" else ("pfid_freq", "pfid_rate")
            used = []
            for _ in range(n):
                used.append(self.param(fc, avoid=used))
            item["frequencies"] = used
            item["rates"] = [self.param(rc) for _ in range(n)]
            clps = [f"{x}_cos" for x in labels] + [f"{x}_sin" for x in labels]
        elif typ == "coherent-artifact":
            item["order"] = (1 + d(st.integers(0, 2)))
            if d(st.booleans()):
                item["width"] = self.param("art_width")
        elif typ == "baseline":
            item["dimension"] = dimension
        elif typ == "clp-guide":
            item["dimension"] = dimension
            item["target"] = "s1"
            clps = ["s1"]
        elif typ == "spectral":
            n = (1 + d(st.integers(0, 2)))
            clps = self.comps(n)
            shapes = {}
            for c in clps:
                existing = list(self.spec.get("shape", {}))
                if existing and d(st.integers(0, 2)) == 0:
                    shapes[c] = d(st.sampled_from(existing))
                else:
                    shapes[c] = self.new_shape()
            item["shape"] = shapes
        else:
            raise ValueError(typ)
        lab = self.label("megacomplex")
        self.spec["megacomplex"][lab] = item
        self.mc_comps[lab] = clps
        self.mc_nclp[lab] = (
            item["order"] if typ == "coherent-artifact" else 1 if typ == "baseline" else len(clps)
        )
        return lab

    def get_mc(self, typ: str, not_in=(), dimension: str = "time") -> str:
        existing = [
            lab
            for lab, m in self.spec["megacomplex"].items()
            if m["type"] == typ and lab not in not_in and m.get("dimension", dimension) == dimension
        ]
        if existing and self.draw(st.integers(0, 2)) == 0:
            return self.draw(st.sampled_from(existing))
        return self.new_mc(typ, dimension)

    def get_irf(self) -> str:
        existing = list(self.spec.get("irf", {}))
        if existing and self.draw(st.booleans()):
            return self.draw(st.sampled_from(existing))
        return self.new_irf()

    def get_ic(self, comps: list[str]) -> str:
        d = self.draw
        key = tuple(comps)
        if key in self.ic_cache and d(st.booleans()):
            return self.ic_cache[key]
        cs = list(comps)
        item = {"compartments": cs, "parameters": [self.param("ic") for _ in cs]}
        if len(cs) > 1 and d(st.integers(0, 2)) == 0:
            item["exclude_from_normalize"] = [cs[-1]]
        lab = self.label("initial_concentration")
        self.section("initial_concentration")[lab] = item
        self.ic_cache[key] = lab
        return lab


def _pick(draw, pool, n):
    rest = list(pool)
    return [rest.pop(draw(st.integers(0, len(rest) - 1))) for _ in range(n)]


@st.composite
def models(draw, min_datasets: int = 1, max_datasets: int = 3):
    b = _Builder(draw)
    d = draw
    n_ds = min_datasets + d(st.integers(0, max_datasets - min_datasets))
    kinds = [d(st.sampled_from(["time", "time", "time", "time", "full", "spectral", "guide"])) for _ in range(n_ds)]
    ds_labels = _pick(d, DATASET_LABELS, n_ds)
    plans = []
    # 1st pass: the megacomplex lists (decides which attributes the dataset class has)
    for kind, dl in zip(kinds, ds_labels):
        mcs: list[str] = []
        gmcs = None
        if kind in ("time", "full"):
            pool = TIME_TYPES if kind == "time" else ["decay", "decay-sequential", "decay-parallel"]
            k = (1 + d(st.integers(0, 2 if kind == "time" else 1)))
            types = [d(st.sampled_from(pool)) for _ in range(k)]
            seen_unique = set()
            for t in types:
                if t in ("baseline", "coherent-artifact"):
                    if t in seen_unique:
                        continue
                    seen_unique.add(t)
                # result creation of damped-oscillation cannot store the 3-d matrix a PFID forces: never mixed
                if (t == "pfid" and "damped-oscillation" in seen_unique) or (t == "damped-oscillation" and "pfid" in seen_unique):
                    continue
                if t in ("pfid", "damped-oscillation"):
                    seen_unique.add(t)
                mcs.append(b.get_mc(t, not_in=mcs))
            if kind == "full":
                gmcs = []
                for _ in range((1 + d(st.integers(0, 1)))):
                    gmcs.append(b.get_mc("spectral", not_in=gmcs, dimension="spectral"))
        elif kind == "spectral":
            mcs.append(b.get_mc("spectral", dimension="spectral"))
            if d(st.booleans()):
                mcs.append(b.get_mc("baseline", dimension="spectral"))
        else:
            mcs.append(b.get_mc("clp-guide"))
        plans.append((kind, dl, mcs, gmcs))

    types_present = {m["type"] for m in b.spec["megacomplex"].values()}
    has_irf_attr = bool(types_present & NEEDS_IRF_ATTR)
    has_ic_attr = "decay" in types_present

    # dataset groups
    groups: dict = {}
    if d(st.integers(0, 2)) == 0:
        groups["default"] = {"residual_function": d(st.sampled_from(["variable_projection", "non_negative_least_squares"]))}
    n_custom = d(st.integers(0, 2))
    custom = _pick(d, GROUP_LABELS, n_custom)
    for g in custom:
        groups[g] = {
            "residual_function": d(st.sampled_from(["variable_projection", "variable_projection", "non_negative_least_squares"])),
            "link_clp": d(st.sampled_from([None, False])),
        }
    if groups:
        b.spec["dataset_groups"] = groups

    # 2nd pass: dataset items
    for kind, dl, mcs, gmcs in plans:
        item: dict = {"megacomplex": mcs}
        types = [b.spec["megacomplex"][m]["type"] for m in mcs]
        if gmcs is not None:
            item["global_megacomplex"] = gmcs
            if d(st.integers(0, 2)) == 0:
                item["global_megacomplex_scale"] = [b.param("scale") for _ in gmcs]
        need_irf = any(t in ("coherent-artifact", "pfid") for t in types)
        if has_irf_attr and (need_irf or d(st.integers(0, 1)) == 0):
            item["irf"] = b.get_irf()
        if has_ic_attr:
            # the result creation of the decay family stores the initial concentration on the dataset's
            # species axis: its compartments have to be exactly the compartments of all decay-family
            # megacomplexes of the dataset (a documented caller-side convention, not a C20 matter)
            fam = [m for m in mcs if b.spec["megacomplex"][m]["type"] in ("decay", "decay-sequential", "decay-parallel")]
            comps = list(dict.fromkeys(c for m in fam for c in b.mc_comps[m]))
            has_decay = any(b.spec["megacomplex"][m]["type"] == "decay" for m in fam)
            if has_decay or (comps and d(st.integers(0, 3)) == 0):
                item["initial_concentration"] = b.get_ic(comps)
            elif not comps and d(st.integers(0, 3)) == 0 and b.spec.get("initial_concentration"):
                item["initial_concentration"] = d(st.sampled_from(sorted(b.spec["initial_concentration"])))  # unused but referenced
        if d(st.integers(0, 2)) == 0:
            item["megacomplex_scale"] = [b.param("scale") for _ in mcs]
        if d(st.integers(0, 2)) == 0:
            item["scale"] = b.param("scale")
        g = d(st.integers(0, 3))
        if g == 0:
            item["group"] = "default"
        elif g >= 2 and custom:
            item["group"] = d(st.sampled_from(custom))
        b.spec["dataset"][dl] = item

    # clp-level items.  They act on clp labels (not on model items); a real compartment is only used when
    # every dataset keeps >= 1 free clp afterwards, otherwise a label no dataset produces (then the item is
    # inert in the evaluation but its parameter reference is still validated and filled).
    nclp = []
    for kind, dl, mcs, gmcs in plans:
        nclp.append(sum(b.mc_nclp[m] for m in mcs))
    safe = min(nclp) >= 3
    real = [c for m in b.spec["megacomplex"] for c in b.mc_comps[m] if c.startswith("s")]
    real = list(dict.fromkeys(real))

    def clp_label():
        if safe and len(real) >= 2 and d(st.booleans()):
            return d(st.sampled_from(real))
        return d(st.sampled_from(["ghost1", "ghost2", "ghost3"]))

    budget = [1]  # at most one real relation + one real constraint (safe => >= 3 clps per dataset)

    if d(st.integers(0, 2)) == 0:
        rels = []
        for _ in range((1 + d(st.integers(0, 1)))):
            src, tgt = clp_label(), clp_label()
            if src == tgt or (not tgt.startswith("ghost") and budget[0] <= 0):
                tgt = "ghost9"
            if not tgt.startswith("ghost"):
                budget[0] -= 1
            r = {"source": src, "target": tgt, "parameter": b.param("rel")}
            iv = d(st.integers(0, 2))
            if iv == 1:
                r["interval"] = [[0.0, 490.0]]
            elif iv == 2:
                r["interval"] = [[0.0, 490.0], [510.0, 1000.0]]
            rels.append(r)
        b.spec["clp_relations"] = rels
    if d(st.integers(0, 2)) == 0:
        pens = []
        for _ in range((1 + d(st.integers(0, 1)))):
            src, tgt = clp_label(), clp_label()
            if src == tgt:
                tgt = "ghost9"
            pens.append({
                "type": "equal_area", "source": src, "source_intervals": [[0.0, 1000.0]], "target": tgt,
                "target_intervals": [[0.0, 490.0], [510.0, 1000.0]], "parameter": b.param("pen"), "weight": 0.1,
            })
        b.spec["clp_penalties"] = pens
    if d(st.integers(0, 2)) == 0:
        tgt = "ghost1"
        if safe and real and d(st.booleans()):
            rel_labels = {x for r in b.spec.get("clp_relations", []) for x in (r["source"], r["target"])}
            cand = [c for c in real if c not in rel_labels]
            if cand:
                tgt = d(st.sampled_from(cand))
        c = {"type": d(st.sampled_from(["zero", "only"])), "target": tgt}
        c["interval"] = [0.0, 490.0] if d(st.booleans()) else [[0.0, 490.0], [519.0, 521.0]]
        b.spec["clp_constraints"] = [c]
    if d(st.integers(0, 2)) == 0:
        w = {"datasets": [dl for dl in ds_labels if d(st.booleans())], "value": 0.5}
        if d(st.booleans()):
            w["global_interval"] = [0.0, 490.0]
        if d(st.booleans()):
            w["model_interval"] = [0.0, 3.0]
        b.spec["weights"] = [w]

    # unused items / parameters (defined, never referenced)
    if has_irf_attr and d(st.integers(0, 3)) == 0:
        b.new_irf()
    for _ in range(((0 if b.params else 1) + d(st.integers(0, 1)))):  # optimize() needs >= 1 free parameter
        b.params[b.fresh_param_label()] = 1.0

    used = sorted(b.params)
    free = [d(st.sampled_from(used))] if used else []
    return {
        "spec": b.spec,
        "params": b.params,
        "free": free,
        "data": {dl: kind for kind, dl, _, _ in plans},
        "seed": d(st.integers(0, 2**31 - 1)),
        "mut_seed": d(st.integers(0, 2**16)),
    }


# ------------------------------------------------------------------------------------------
# JSON case -> glotaran objects


def _tuples(v):
    if isinstance(v, list) and v and isinstance(v[0], list):
        return [tuple(x) for x in v]
    if isinstance(v, list):
        return tuple(v)
    return v


def to_python_spec(spec: dict) -> dict:
    """Undo the JSON encodings (K-matrix triples -> dict keyed by tuples; interval lists -> tuples)."""
    s = copy.deepcopy(spec)
    for km in s.get("k_matrix", {}).values():
        if isinstance(km.get("matrix"), list):
            km["matrix"] = {(t, f): p for t, f, p in km["matrix"]}
    for r in s.get("clp_relations", []) + s.get("clp_constraints", []):
        if "interval" in r:
            r["interval"] = _tuples(r["interval"])
    for p in s.get("clp_penalties", []):
        for k in ("source_intervals", "target_intervals"):
            if k in p:
                p[k] = [tuple(x) for x in p[k]]
    for w in s.get("weights", []):
        for k in ("global_interval", "model_interval"):
            if w.get(k) is not None:
                w[k] = tuple(w[k])
    return s


def build_model(spec: dict):
    """The real model-class construction (what the yml loader does after parsing)."""
    from glotaran.model import Model
    from glotaran.plugin_system.megacomplex_registration import get_megacomplex

    s = to_python_spec(spec)
    types = []
    for m in s["megacomplex"].values():
        t = get_megacomplex(m["type"])
        if t not in types:
            types.append(t)
    return Model.create_class_from_megacomplexes(types)(**s)


def build_parameters(params: dict, free=(), removed=()):
    from glotaran.parameter import Parameter
    from glotaran.parameter import Parameters

    return Parameters(
        {
            lab: Parameter(label=lab, value=float(v), vary=lab in free, non_negative=False)
            for lab, v in params.items()
            if lab not in removed
        }
    )


def build_data(case: dict) -> dict:
    import xarray as xr

    rng = np.random.default_rng(case["seed"])
    out = {}
    for dl in sorted(case["data"]):
        kind = case["data"][dl]
        if kind in ("time", "full"):
            m, g, md, gd = (TIME_AXIS if kind == "time" else TIME_AXIS_FULL), SPECTRAL_GLOBAL, "time", "spectral"
        elif kind == "spectral":
            m, g, md, gd = SPECTRAL_MODEL, TIME_GLOBAL, "spectral", "time"
        else:
            m, g, md, gd = [0.0], SPECTRAL_GLOBAL, "time", "spectral"
        vals = 1.0 + rng.standard_normal((len(m), len(g)))
        out[dl] = xr.DataArray(vals, coords=[(md, np.asarray(m)), (gd, np.asarray(g))]).to_dataset(name="data")
    return out


# ------------------------------------------------------------------------------------------
# histories: one model object + one Parameters object, edited in place and validated again and again
#
# A step is JSON ``{"op": str, "i": int, "variant": int, "probes": [str, ...]}``.  ``i`` selects (modulo the
# number of candidates the interpreter finds in the *current* state) what the operation acts on, so a
# step list is meaningful for every model and a recorded case replays without Hypothesis.  An operation
# without candidate degrades to ``noop`` (validating twice without an edit in between is part of the space).

HISTORY_OPS = [
    "rename", "rename", "rename",  # misspell one reference position in place (variant: fresh / defined elsewhere / near miss)
    "repair", "repair", "repair",  # give one misspelled position its original label back
    "del_def",  # delete the definition of a model item from its section of the live model
    "restore_def",  # put a deleted definition (the same object) back
    "del_param",  # remove a parameter from the live Parameters object
    "restore_param",  # put it back
    "dup_unique",  # list a unique megacomplex of a dataset a second time
    "undup",  # take the duplicate out again
    "noop",
]
# 0-suffix: called without parameters
HISTORY_PROBES = ["validate", "validate0", "valid", "valid0", "issues", "issues0", "scheme_validate", "scheme_valid"]


@st.composite
def histories(draw, max_steps: int = 12):
    case = draw(models())
    n = 2 + draw(st.integers(0, max_steps - 2))
    steps = []
    for _ in range(n):
        steps.append({
            "op": draw(st.sampled_from(HISTORY_OPS)),
            "i": draw(st.integers(0, 63)),
            "variant": draw(st.integers(0, 2)),
            "probes": [draw(st.sampled_from(HISTORY_PROBES)) for _ in range(1 + draw(st.integers(0, 2)))],
        })
    case["first_probes"] = [draw(st.sampled_from(HISTORY_PROBES)) for _ in range(1 + draw(st.integers(0, 1)))]
    case["steps"] = steps
    return case
