"""Built-in megacomplex combinations as JSON spec dicts + parameter dicts (C06, C10, C14).

case = {
  "spec": model spec (dict, K-matrix keys as "a|b" strings -> converted to tuples on build),
  "parameters": {group: [[label, value, {opts}], ...]},
  "datasets": {label: {"time": [...], "spectral": [...], "clp_seed": int, "noise": float, "noise_seed": int}},
  "sim": "clp" | "full",
}
Simulation: clp-driven (random smooth positive spectra from clp_seed, by clp label) or full model
(spectral global megacomplex with gaussian shapes).
"""

from __future__ import annotations

import copy

import numpy as np
from hypothesis import strategies as st

RATE_LADDER = [0.05, 0.17, 0.6, 2.0, 7.0]


def _time_axis(draw, identifiable=False):
    kind = draw(st.sampled_from(["uniform", "dense_early", "irregular"])) if not identifiable else "dense_early"
    n = draw(st.integers(25, 60)) if not identifiable else draw(st.integers(50, 70))
    t0 = draw(st.sampled_from([-1.0, -0.5, -2.0]))
    t1 = draw(st.sampled_from([20.0, 40.0, 60.0]))
    if kind == "uniform":
        t = np.linspace(t0, t1, n)
    elif kind == "dense_early":
        t = np.concatenate([np.linspace(t0, 2.0, n // 2, endpoint=False), np.linspace(2.0, t1, n - n // 2)])
    else:
        u = np.linspace(0, 1, n)
        t = t0 + (t1 - t0) * u ** 2
    return [float(x) for x in t]


def _spectral_axis(draw, dispersed=False):
    # (now and then several hundred wavelengths: beyond any block size an implementation may use)
    n = draw(st.sampled_from([257, 300, 513])) if draw(st.integers(0, 3 if dispersed else 19)) == 0 else draw(st.integers(3, 8))
    lo = draw(st.sampled_from([600.0, 450.0, 500.0]))
    # (long axes are dense: the whole axis stays within a few hundred nm of the dispersion centre, where the dispersed IRF stays
    # inside the time window - at 7800 nm its centre would sit at t = 56 and the matrix column vanish)
    step = draw(st.sampled_from([10.0, 25.0, 7.5])) if n < 100 else draw(st.sampled_from([0.5, 0.25, 1.0]))
    return [lo + step * i for i in range(n)]


@st.composite
def kinetic_cases(draw, *, max_datasets=3, allow_full=True, allow_irf=True, identifiable=False, extras_allowed=True):
    n_comp = draw(st.integers(1, 3))
    comps = [f"s{i+1}" for i in range(n_comp)]
    # rates: well separated (ratio >= 3)
    start = draw(st.integers(0, len(RATE_LADDER) - n_comp))
    rates = [RATE_LADDER[start + i] for i in range(n_comp)][::-1]  # fast -> slow for sequential
    decay_type = draw(st.sampled_from(["decay-sequential", "decay-parallel", "decay"]))
    params = {"rates": [[c, r, {"non-negative": draw(st.booleans())}] for c, r in zip(comps, rates)]}
    spec = {"megacomplex": {}, "dataset": {}}
    mcs = []
    extra_dataset = {}
    if decay_type in ("decay-sequential", "decay-parallel"):
        spec["megacomplex"]["mc_decay"] = {"type": decay_type, "compartments": comps, "rates": [f"rates.{c}" for c in comps]}
    else:
        # general decay with a sequential chain or a branching scheme and explicit initial concentration
        topo = draw(st.sampled_from(["chain", "parallel", "branch"])) if n_comp >= 2 else "parallel"
        km = {}
        if topo == "chain":
            for i in range(n_comp - 1):
                km[f"{comps[i+1]}|{comps[i]}"] = f"rates.{comps[i]}"
            km[f"{comps[-1]}|{comps[-1]}"] = f"rates.{comps[-1]}"
            j = [1.0] + [0.0] * (n_comp - 1)
        elif topo == "parallel":
            for c in comps:
                km[f"{c}|{c}"] = f"rates.{c}"
            j = [1.0] * n_comp
        else:
            # s1 -> s2 and s1 -> s3 (or s1 -> s2, s2 decays, with extra loss from s1)
            km[f"{comps[1]}|{comps[0]}"] = f"rates.{comps[0]}"
            km[f"{comps[0]}|{comps[0]}"] = "rates.loss"
            params["rates"].append(["loss", 0.9, {"vary": False}])
            for c in comps[1:]:
                km[f"{c}|{c}"] = f"rates.{c}"
            if n_comp == 3:
                km[f"{comps[2]}|{comps[0]}"] = "rates.branch"
                params["rates"].append(["branch", 0.4, {"vary": False}])
            j = [1.0] + [0.0] * (n_comp - 1)
        spec["k_matrix"] = {"km1": {"matrix": km}}
        spec["initial_concentration"] = {"j1": {"compartments": comps, "parameters": [f"inputs.{c}" for c in comps]}}
        params["inputs"] = [[c, v, {"vary": False}] for c, v in zip(comps, j)]
        spec["megacomplex"]["mc_decay"] = {"type": "decay", "k_matrix": ["km1"]}
        extra_dataset["initial_concentration"] = "j1"
    mcs.append("mc_decay")
    irf_kind = draw(st.sampled_from(["none", "gaussian", "gaussian", "multi-gaussian", "spectral-gaussian"])) if allow_irf else "none"
    if identifiable and irf_kind != "none":
        irf_kind = "gaussian"
    if irf_kind != "none":
        # identifiable family: an IRF that the time axes resolve (the recovery clause needs a well-behaved landscape)
        widths = [0.6, 0.9] if identifiable else [0.1, 0.25, 0.06]
        params["irf"] = [["center", draw(st.sampled_from([0.3, 0.0, 0.45])), {}], ["width", draw(st.sampled_from(widths)), {}]]
        irf = {"type": irf_kind, "center": "irf.center", "width": "irf.width"}
        if irf_kind == "multi-gaussian":
            params["irf"] += [["center2", 0.6, {"vary": False}], ["width2", 0.3, {"vary": False}], ["scale1", 1.0, {"vary": False}], ["scale2", 0.2, {"vary": False}]]
            irf.update(center=["irf.center", "irf.center2"], width=["irf.width", "irf.width2"], scale=["irf.scale1", "irf.scale2"])
        if irf_kind == "spectral-gaussian":
            params["irf"] += [["dispc", 550.0, {"vary": False}], ["disp1", draw(st.sampled_from([0.05, -0.03])), {"vary": False}], ["disp2", 0.01, {"vary": False}]]
            irf.update(dispersion_center="irf.dispc", center_dispersion_coefficients=["irf.disp1", "irf.disp2"])
            if draw(st.booleans()):
                params["irf"].append(["wdisp1", 0.005, {"vary": False}])
                irf["width_dispersion_coefficients"] = ["irf.wdisp1"]
        spec["irf"] = {"irf1": irf}
        extra_dataset["irf"] = "irf1"
    extras = draw(st.lists(st.sampled_from(["baseline", "damped-oscillation", "coherent-artifact"]), max_size=2, unique=True)) if extras_allowed else []
    if "coherent-artifact" in extras and irf_kind == "none":
        extras.remove("coherent-artifact")
    for e in extras:
        if e == "baseline":
            spec["megacomplex"]["mc_base"] = {"type": "baseline", "dimension": "time"}
            mcs.append("mc_base")
        elif e == "damped-oscillation":
            # frequencies resolved by every generated time axis (largest step 2.4: period >= 11 time units), else aliasing
            # gives exact alternative solutions and the model is not identifiable
            params["osc"] = [["freq", draw(st.sampled_from([1.5, 3.0])), {}], ["rate", draw(st.sampled_from([0.1, 0.25])), {}]]
            spec["megacomplex"]["mc_osc"] = {"type": "damped-oscillation", "labels": ["osc1"], "frequencies": ["osc.freq"], "rates": ["osc.rate"]}
            mcs.append("mc_osc")
        else:
            spec["megacomplex"]["mc_coh"] = {"type": "coherent-artifact", "order": draw(st.integers(1, 3))}
            mcs.append("mc_coh")
    sim = "full" if (allow_full and decay_type != "decay" and not extras and draw(st.integers(0, 3)) == 0) else "clp"
    n_ds = 1 if sim == "full" else draw(st.integers(1, max_datasets))
    datasets = {}
    for i in range(n_ds):
        lab = f"dataset_{i+1}"
        dd = {"megacomplex": list(mcs), **copy.deepcopy(extra_dataset)}
        if n_ds > 1 and i > 0 and (identifiable or draw(st.booleans())):
            params.setdefault("scale", []).append([f"d{i+1}", draw(st.sampled_from([0.5, 2.0, 3.0])), {"vary": False}])
            dd["scale"] = f"scale.d{i+1}"
        elif n_ds == 1 and sim == "clp" and draw(st.integers(0, 2)) == 0:
            params.setdefault("scale", []).append(["d1", draw(st.sampled_from([0.5, 3.0])), {"vary": False}])
            dd["scale"] = "scale.d1"
        if i > 0 and irf_kind in ("gaussian", "spectral-gaussian") and draw(st.booleans()):
            # dataset-level item of its own: same megacomplexes, different IRF (own centre / width parameters)
            irf_i = copy.deepcopy(spec["irf"]["irf1"])
            params["irf"] += [[f"center_d{i+1}", draw(st.sampled_from([0.15, 0.5, 0.7])), {}], [f"width_d{i+1}", draw(st.sampled_from([0.08, 0.2, 0.35])), {}]]
            irf_i.update(center=f"irf.center_d{i+1}", width=f"irf.width_d{i+1}")
            spec["irf"][f"irf{i+1}"] = irf_i
            dd["irf"] = f"irf{i+1}"
        spec["dataset"][lab] = dd
        same_time = i > 0 and draw(st.booleans())
        datasets[lab] = {"time": list(datasets["dataset_1"]["time"]) if same_time else _time_axis(draw, identifiable),
                         "spectral": _spectral_axis(draw, irf_kind == "spectral-gaussian") if (i == 0 or (not identifiable and draw(st.booleans()))) else None,
                         "clp_seed": draw(st.integers(0, 10**6)), "noise": 0.0, "noise_seed": draw(st.integers(0, 10**6))}
        shares_axis = datasets[lab]["spectral"] is None
        if datasets[lab]["spectral"] is None:
            datasets[lab]["spectral"] = list(datasets["dataset_1"]["spectral"])
        if i > 0 and shares_axis and "scale" in dd and draw(st.booleans()):
            # a FREE dataset scale: identifiable because the clps are linked with dataset_1 on a shared spectral axis
            for item in params["scale"]:
                if item[0] == f"d{i+1}":
                    item[2] = {}
        if n_ds == 1 and draw(st.integers(0, 5)) == 0:
            # square data (n_time == n_spectral) stored as (spectral, time): layout decisions must go by dimension name
            t_ = datasets[lab]["time"]
            datasets[lab]["spectral"] = [datasets[lab]["spectral"][0] + 2.5 * k for k in range(len(t_))]
            datasets[lab]["stored_transposed"] = True
    if sim == "full":
        shapes = {}
        params["shapes"] = []
        for k, c in enumerate(comps):
            params["shapes"] += [[f"amp{k}", 1.0 + k, {"vary": False}], [f"loc{k}", 610.0 + 40 * k, {"vary": False}], [f"wid{k}", 60.0 + 10 * k, {"vary": False}]]
            shapes[c] = f"sh{k}"
            spec.setdefault("shape", {})[f"sh{k}"] = {"type": "gaussian", "amplitude": f"shapes.amp{k}", "location": f"shapes.loc{k}", "width": f"shapes.wid{k}"}
        spec["megacomplex"]["mc_spec"] = {"type": "spectral", "shape": shapes}
        spec["dataset"]["dataset_1"]["global_megacomplex"] = ["mc_spec"]
    case = {"spec": spec, "parameters": params, "datasets": datasets, "sim": sim,
            "perturb": [draw(st.sampled_from([0.85, 0.9, 1.1, 1.18])) for _ in range(8)]}
    if draw(st.integers(0, 3)) == 0:
        # the same measurement as instruments / scripts deliver it: time points or wavelengths descending or in acquisition
        # order, integer coordinates (np.arange); (data dtypes are the business of the scheme generator: simulated data rounded to
        # single precision are no longer reproduced "to rounding" in double precision)
        rep = {"time": draw(st.sampled_from(["ascending", "descending", "shuffled", "integer"])),
               "spectral": draw(st.sampled_from(["ascending", "descending", "shuffled", "integer"]))}
        if identifiable and rep["time"] == "integer":
            rep["time"] = "descending"
        perm_seed = draw(st.integers(0, 10**6))
        for k, d in enumerate(datasets.values()):
            for axis in ("time", "spectral"):
                vals = list(d[axis])
                if rep[axis] == "descending":
                    vals = vals[::-1]
                elif rep[axis] == "shuffled":
                    vals = [vals[i] for i in np.random.default_rng([perm_seed, k, len(vals)]).permutation(len(vals))]
                elif rep[axis] == "integer":
                    vals = sorted({float(round(v)) for v in vals})
                d[axis] = vals
            if d.get("stored_transposed"):
                d["spectral"] = [d["spectral"][0] + (2.5 if rep["spectral"] != "integer" else 3.0) * j * (1 if d["spectral"][-1] >= d["spectral"][0] else -1) for j in range(len(d["time"]))]
        case["repr"] = rep
    return case


def coordinates(case, d):
    """numpy coordinates of a dataset in the representation the case asks for."""
    rep = case.get("repr") or {}
    out = {}
    for axis in ("time", "spectral"):
        vals = np.asarray(d[axis], dtype=float)
        if rep.get(axis) == "integer" and all(float(v).is_integer() for v in vals):
            vals = vals.astype(np.int64)
        out[axis] = vals
    return out


# ------------------------------------------------------------------------------------------


TIME_PARAMETERS = {"irf": lambda n: n.startswith(("center", "width", "disp", "wdisp")) and n != "dispc"}


def rescale_time(case, unit):
    """The same physics with the time axis in another unit (``unit`` new units per old one): time axes, IRF positions, widths
    and dispersion coefficients are multiplied, rates and frequencies divided.  The model matrices are mathematically unchanged;
    parameter *magnitudes* change by ``unit`` (1e6: picosecond rates on an attosecond axis, ...)."""
    if unit == 1:
        return case
    c = copy.deepcopy(case)
    for grp, items in c["parameters"].items():
        for item in items:
            if grp in ("rates", "osc"):
                item[1] = item[1] / unit
            elif grp == "irf" and TIME_PARAMETERS["irf"](item[0]):
                item[1] = item[1] * unit
    for d in c["datasets"].values():
        d["time"] = [t * unit for t in d["time"]]
    c["time_unit"] = unit
    return c


def _convert_spec(spec):
    spec = copy.deepcopy(spec)
    for km in spec.get("k_matrix", {}).values():
        km["matrix"] = {tuple(k.split("|")): v for k, v in km["matrix"].items()}
    return spec


def build_model(case):
    from glotaran.model import Model
    from glotaran.plugin_system.megacomplex_registration import get_megacomplex

    spec = _convert_spec(case["spec"])
    types = {get_megacomplex(m["type"]) for m in spec["megacomplex"].values()}
    return Model.create_class_from_megacomplexes(types)(**spec)


def build_parameters(case, perturb=False):
    from glotaran.parameter import Parameters

    d = {}
    k = 0
    for grp, items in case["parameters"].items():
        out = []
        for label, value, opts in items:
            v = value
            if perturb and opts.get("vary", True):
                v = value * case["perturb"][k % len(case["perturb"])]
                k += 1
            out.append([label, v, dict(opts)])
        d[grp] = out
    return Parameters.from_dict(d)


def clp_labels_of(model, parameters, dslabel, coords):
    """clp labels as the model reports them (through the public matrix calculation)."""
    from glotaran.model.item import fill_item
    from glotaran.optimization.matrix_provider import MatrixProvider

    dm = fill_item(model.dataset[dslabel], model, parameters)
    mc = MatrixProvider.calculate_dataset_matrix(dm, np.asarray(coords["spectral"]), np.asarray(coords["time"]))
    return list(mc.clp_labels)


def make_clp(labels, spectral, seed, factor=1.0):
    """Generating clps: one smooth function of the absolute wavelength per clp label (the same for
    every dataset of the case, so that linked datasets share them), times ``factor``."""
    import zlib

    import xarray as xr

    x = np.asarray(spectral, dtype=float)
    u = (x - 400.0) / 400.0
    arr = np.zeros((x.size, len(labels)))
    for j, lab in enumerate(labels):
        rng = np.random.default_rng([seed, zlib.crc32(str(lab).encode())])
        c, w, a = rng.uniform(0.1, 0.9), rng.uniform(0.2, 0.6), rng.uniform(0.5, 2.0)
        arr[:, j] = a * np.exp(-((u - c) / w) ** 2) + 0.1 * rng.uniform(0.2, 1.0)
        if rng.uniform() < 0.3:
            arr[:, j] *= -1
    arr *= factor
    return xr.DataArray(arr, coords=[("spectral", x), ("clp_label", list(labels))])


def simulate_data(case, model, parameters):
    from glotaran.simulation import simulate

    data, clps = {}, {}
    for lab, d in case["datasets"].items():
        coords = coordinates(case, d)
        if case["sim"] == "full":
            ds = simulate(model, lab, parameters, coords, noise=d["noise"] > 0, noise_std_dev=d["noise"] or 1.0, noise_seed=d["noise_seed"])
        else:
            labels = clp_labels_of(model, parameters, lab, coords)
            sc = case["spec"]["dataset"][lab].get("scale")
            seed0 = next(iter(case["datasets"].values()))["clp_seed"]
            clp = make_clp(labels, d["spectral"], seed0, float(parameters.get(sc).value) if sc else 1.0)
            clps[lab] = clp
            ds = simulate(model, lab, parameters, coords, clp=clp, noise=d["noise"] > 0, noise_std_dev=d["noise"] or 1.0, noise_seed=d["noise_seed"])
        if d.get("stored_transposed"):
            ds = ds.transpose("spectral", "time")
        data[lab] = ds
    return data, clps


def fit_model(case):
    """The model used for fitting: the simulation model without the global (spectral) megacomplex."""
    c = copy.deepcopy(case)
    if case["sim"] == "full":
        c["spec"]["megacomplex"].pop("mc_spec")
        c["spec"].pop("shape", None)
        c["spec"]["dataset"]["dataset_1"].pop("global_megacomplex")
        c["parameters"].pop("shapes")
    return c
