"""Generators for C16: valid parameter sets (file round-trips) and parameter specifications.

Everything produced here is plain JSON data (floats may be inf / nan).  Expressions are generated
as *trees*; ``render`` turns a tree into the expression string handed to pyglotaran and
``evaluate`` is the independent evaluator used by the oracle (IEEE double arithmetic in the
order fixed by the fully parenthesised rendering).

Validity rules respected (read off ``glotaran.parameter.parameter``):
  * a label is ``part(.part)*`` with ``part`` matching ``[A-Za-z0-9_]+`` and the whole label is not a
    reserved asteval symbol (``e``, ``pi``, ``True`` ... - the pools below avoid them; C16's self-check
    verifies that against ``RESERVED_LABELS``),
  * ``value`` is a float, ``minimum`` / ``maximum`` are int or float, flags are bool,
  * ``Parameter`` does *not* validate ``minimum <= value <= maximum`` nor ``non_negative`` vs
    ``expression``; the generator nevertheless keeps ``minimum <= value <= maximum`` for
    non-expression parameters and a non-negative value for ``non_negative`` ones,
  * an expression makes ``vary`` False (documented side effect of giving an expression),
  * expressions reference only non-expression parameters or expression parameters declared
    *earlier* (a single evaluation pass in declaration order is then sufficient, which keeps this
    property independent of the evaluation-order finding of C12).
"""

from __future__ import annotations

import functools
import math

from hypothesis import strategies as st

DBL_MAX = 1.7976931348623157e308
SHEET_LIMIT = 1e300

WORDS = ["a", "b", "k", "amp", "rates", "irf", "kinetic", "total", "center", "width", "x_1", "K2", "_u", "t0", "kappa", "s1", "B_2"]
#: tokens that pandas treats as missing values when they fill a whole cell: only used as *parts* of nested labels
NA_WORDS = ["none", "NA", "null", "NaN"]
DIGITS = ["1", "2", "3", "10", "007", "0", "01", "12", "100", "50", "110"]
SCI_LOOKING = ["1e5", "1E3", "2e10"]
FLAT_NUMERIC = DIGITS + SCI_LOOKING + ["Infinity"]
BOOL_LIKE = ["true", "TRUE", "false", "FALSE"]

LITERALS = ["1", "2", "2.5", "0.5", "10", "1e-3", "3.0", "100", "0.1", "7"]
NUMERIC_EXPRESSIONS = ["1", "2.5", "10", "0.5", "-1", "1e-3", "3.0", "0"]

LABEL_MODES = ["flat_numeric", "nested_numeric", "flat_words", "nested_words", "mixed", "mixed", "bool_like"]


# ------------------------------------------------------------------------------------------
# expression trees


def render(node, top=True) -> str:
    if "ref" in node:
        return "$" + node["ref"]
    if "lit" in node:
        return node["lit"]
    if "neg" in node:
        return "-(" + render(node["neg"], True) + ")"
    if "fn" in node:
        name = node["fn"]
        args = ", ".join(render(a, True) for a in node["args"])
        if name == "sqrtabs":
            return f"sqrt(abs({args}))"
        return f"{name}({args})"
    s = f"{render(node['args'][0], False)} {node['op']} {render(node['args'][1], False)}"
    return s if top else f"({s})"


def evaluate(node, values: dict) -> float:
    """IEEE evaluation of a tree; ``values`` maps full labels to floats."""
    if "ref" in node:
        return float(values[node["ref"]])
    if "lit" in node:
        return float(node["lit"])
    if "neg" in node:
        return -evaluate(node["neg"], values)
    if "fn" in node:
        args = [evaluate(a, values) for a in node["args"]]
        name = node["fn"]
        if name == "abs":
            return abs(args[0])
        if name == "sqrtabs":
            return math.sqrt(abs(args[0]))
        if name == "max":
            return max(args[0], args[1])
        if name == "min":
            return min(args[0], args[1])
        raise ValueError(name)
    a = evaluate(node["args"][0], values)
    b = evaluate(node["args"][1], values)
    op = node["op"]
    if op == "+":
        return a + b
    if op == "-":
        return a - b
    if op == "*":
        return a * b
    if op == "/":
        return a / b
    if op == "//":
        return a // b
    raise ValueError(op)


def references(node) -> list[str]:
    if "ref" in node:
        return [node["ref"]]
    if "lit" in node:
        return []
    if "neg" in node:
        return references(node["neg"])
    out = []
    for a in node["args"]:
        out += references(a)
    return out


def is_numeric_literal(node) -> bool:
    return "lit" in node


@functools.lru_cache(maxsize=None)
def _tree_shapes():
    """Trees whose references are still indices (one strategy object, built once per process)."""
    lit = st.sampled_from(LITERALS).map(lambda s: {"lit": s})
    refi = st.integers(0, 63).map(lambda i: {"refi": i})
    leaf = st.one_of(refi, refi, lit)

    def extend(children):
        return st.one_of(
            st.tuples(st.sampled_from(["+", "-", "*"]), children, children).map(lambda t: {"op": t[0], "args": [t[1], t[2]]}),
            st.tuples(st.sampled_from(["/", "//"]), children, lit).map(lambda t: {"op": t[0], "args": [t[1], t[2]]}),
            st.tuples(st.sampled_from(["max", "min"]), children, children).map(lambda t: {"fn": t[0], "args": [t[1], t[2]]}),
            st.tuples(st.sampled_from(["abs", "sqrtabs"]), children).map(lambda t: {"fn": t[0], "args": [t[1]]}),
            children.map(lambda c: {"neg": c}),
        )

    return st.recursive(leaf, extend, max_leaves=4)


def _bind(node, refs):
    if "refi" in node:
        return {"ref": refs[node["refi"] % len(refs)]} if refs else {"lit": LITERALS[node["refi"] % len(LITERALS)]}
    if "lit" in node:
        return node
    if "neg" in node:
        return {"neg": _bind(node["neg"], refs)}
    out = dict(node)
    out["args"] = [_bind(a, refs) for a in node["args"]]
    return out


def trees(refs: list[str]):
    """Strategy for expression trees over the referable labels ``refs`` (may be empty).

    At most 3 nested multiplications of moderate values: results stay finite.  A bare literal is
    not produced here (purely numeric expressions are drawn separately).
    """
    refs = list(refs)
    return _tree_shapes().map(lambda t: _bind(t, refs)).filter(lambda t: _depth(t) <= 3 and ("lit" not in t) and not _abs_of_int(t))


def _maybe_int(node) -> bool:
    """Could python evaluate this sub-expression to an ``int``?"""
    if "ref" in node:
        return False
    if "lit" in node:
        return node["lit"].lstrip("-").isdigit()
    if "neg" in node:
        return _maybe_int(node["neg"])
    if "fn" in node:
        if node["fn"] == "sqrtabs":
            return False
        return any(_maybe_int(a) for a in node["args"])
    if node["op"] == "/":
        return False
    return all(_maybe_int(a) for a in node["args"])


def _abs_of_int(node) -> bool:
    """``abs(<int>)`` is numpy's abs inside asteval and yields ``numpy.int64``, which pyglotaran's expression
    update rejects as 'non numeric' - a matter of expression evaluation (C12), kept out of C16's domain."""
    if "ref" in node or "lit" in node:
        return False
    if "neg" in node:
        return _abs_of_int(node["neg"])
    if "fn" in node and node["fn"] == "abs" and _maybe_int(node["args"][0]):
        return True
    return any(_abs_of_int(a) for a in node["args"])


def _depth(node) -> int:
    if "ref" in node or "lit" in node:
        return 0
    if "neg" in node:
        return 1 + _depth(node["neg"])
    return 1 + max(_depth(a) for a in node["args"])


# ------------------------------------------------------------------------------------------
# labels


def _nested(parts_group, parts_short, depth):
    return st.tuples(st.lists(parts_group, min_size=depth, max_size=depth), parts_short).map(lambda t: ".".join(t[0] + [t[1]]))


@functools.lru_cache(maxsize=None)
def label_lists(mode: str, max_size: int):
    words = st.sampled_from(WORDS)
    anypart = st.sampled_from(WORDS + DIGITS + NA_WORDS + SCI_LOOKING)
    digits = st.sampled_from(DIGITS)
    if mode == "flat_numeric":
        one = st.sampled_from(FLAT_NUMERIC)
    elif mode == "nested_numeric":
        one = st.tuples(digits, digits).map(".".join)
    elif mode == "flat_words":
        one = words
    elif mode == "nested_words":
        one = st.one_of(_nested(st.sampled_from(WORDS + DIGITS), anypart, 1), _nested(st.sampled_from(WORDS + DIGITS), anypart, 2))
    elif mode == "bool_like":
        one = st.sampled_from(BOOL_LIKE)
        max_size = min(max_size, len(BOOL_LIKE))
    else:
        one = st.one_of(words, st.sampled_from(FLAT_NUMERIC), st.tuples(digits, digits).map(".".join), _nested(anypart, anypart, 1), _nested(anypart, anypart, 2))
    return st.lists(one, min_size=1, max_size=max_size, unique=True)


# ------------------------------------------------------------------------------------------
# floats


@functools.lru_cache(maxsize=None)
def moderate_floats():
    """Realistic magnitudes (incl. decimals with leading zeros such as 0.00051...)."""
    return st.one_of(
        st.floats(1e-6, 1e6),
        st.floats(-1e6, -1e-6),
        st.floats(1e-5, 1e-2),
        st.tuples(st.integers(-(10**6), 10**6), st.integers(0, 8)).map(lambda t: t[0] / 10 ** t[1]),
        st.sampled_from([0.0, 1.0, -1.0, 0.5, 3.0, 0.00011304121157969737, 100.0]),
    )


@functools.lru_cache(maxsize=None)
def value_floats(limit: float):
    return st.one_of(
        st.floats(min_value=-limit, max_value=limit, allow_nan=False, allow_infinity=False),
        st.floats(min_value=-limit, max_value=limit, allow_nan=False, allow_infinity=False),
        moderate_floats(),
        st.sampled_from([limit, -limit, 0.0, -0.0, 5e-324, 2.2250738585072014e-308, 1e-310, 1.0, 1e16, 1e-5, 123456789.0]),
        st.tuples(st.floats(1.0, 10.0), st.integers(-300, 299)).map(lambda t: t[0] * 10.0 ** t[1]),
    )


# ------------------------------------------------------------------------------------------
# parameter sets (file round trips)


#: whole-cell missing-value tokens of the pandas readers that are valid flat labels
NA_TOKEN_LABELS = ["NA", "null", "none", "NaN", "NULL"]


@st.composite
def parameter_sets(draw, fmt: str | None, na_labels: bool = False):
    sub = None
    if fmt is None:
        fmt = draw(st.sampled_from(["csv", "tsv", "xlsx", "ods"]))
        sub = "na_label"
    limit = SHEET_LIMIT if fmt in ("xlsx", "ods") else DBL_MAX
    mode = draw(st.sampled_from(LABEL_MODES))
    labels = draw(label_lists(mode, 10 if draw(st.booleans()) else 4))
    if na_labels:
        mode = "na_token"
        labels = draw(st.lists(st.sampled_from(WORDS), max_size=3, unique=True))
        labels.insert(draw(st.integers(0, len(labels))), draw(st.sampled_from(NA_TOKEN_LABELS)))
    n = len(labels)
    expr_mode = draw(st.sampled_from(["none", "none", "numeric", "trees", "trees", "numeric_and_trees"]))
    col_mode = {c: draw(st.sampled_from(["default", "all", "mixed"])) for c in ("minimum", "maximum", "standard_error", "vary", "non_negative")}
    with_trees = expr_mode in ("trees", "numeric_and_trees")
    vals = moderate_floats() if with_trees else value_floats(limit)

    # which parameters carry an expression
    is_expr = [False] * n
    if expr_mode != "none":
        is_expr = [draw(st.booleans()) for _ in range(n)]
        if with_trees and n > 1:
            is_expr[draw(st.integers(0, n - 1))] = False  # keep something to refer to
        if not any(is_expr):
            is_expr[n - 1] = True
    params = []
    for i, label in enumerate(labels):
        value = draw(vals)
        p = {"label": label, "value": value, "standard_error": math.nan, "expression": None,
             "minimum": -math.inf, "maximum": math.inf, "non_negative": False, "vary": True}
        cm = col_mode["non_negative"]
        if cm == "all" or (cm == "mixed" and draw(st.booleans())):
            p["non_negative"] = True
            p["value"] = value = abs(value)
        cm = col_mode["vary"]
        if cm == "all" or (cm == "mixed" and draw(st.booleans())):
            p["vary"] = False
        cm = col_mode["standard_error"]
        if cm == "all" or (cm == "mixed" and draw(st.booleans())):
            p["standard_error"] = abs(draw(vals))
        bound_ok = not is_expr[i] or draw(st.booleans())
        cm = col_mode["minimum"]
        if bound_ok and (cm == "all" or (cm == "mixed" and draw(st.booleans()))):
            m = min(draw(vals), value)
            if value >= 0 and draw(st.integers(0, 5)) == 0:
                m = 0  # the way users write ``min: 0``
            p["minimum"] = m
        cm = col_mode["maximum"]
        if bound_ok and (cm == "all" or (cm == "mixed" and draw(st.booleans()))):
            m = max(draw(vals), value)
            if value <= 1 and draw(st.integers(0, 5)) == 0:
                m = 1
            p["maximum"] = m
        params.append(p)
    # expressions
    for i, p in enumerate(params):
        if not is_expr[i]:
            continue
        numeric = expr_mode == "numeric" or (expr_mode == "numeric_and_trees" and draw(st.integers(0, 2)) == 0)
        if numeric:
            p["expression"] = {"lit": draw(st.sampled_from(NUMERIC_EXPRESSIONS))}
        else:
            refs = [q["label"] for j, q in enumerate(params) if not is_expr[j] or j < i]
            refs = [r for r in refs if r != p["label"]]
            p["expression"] = draw(trees(refs))
    stale = []
    if with_trees and draw(st.booleans()):
        for i, p in enumerate(params):
            if not is_expr[i] and draw(st.booleans()):
                v = draw(moderate_floats())
                if p["non_negative"]:
                    v = abs(v)
                lo, hi = p["minimum"], p["maximum"]
                v = min(max(v, lo), hi)
                stale.append([p["label"], float(v)])
    case = {"fmt": fmt, "label_mode": mode, "expr_mode": expr_mode, "params": params, "stale": stale, "cycles": 3,
            "explicit_format": draw(st.booleans())}
    if sub:
        case["sub"] = sub
    if fmt == "csv":
        case["sep"] = draw(st.sampled_from([",", ",", ";", "\t", "|"]))
    if fmt in ("csv", "tsv"):
        case["replace_inf"] = draw(st.sampled_from([True, True, False]))
    return case


# ------------------------------------------------------------------------------------------
# histories of parameter files (several sets, several paths, overwriting, second loads)

#: file stems relative to the temporary directory (two of them share the base name)
HISTORY_STEMS = ["parameters", "sub/parameters", "other"]


def _reoption(draw, case: dict, source: dict) -> dict:
    """Save / load options of a derived set are drawn anew (a path can be written with different options over time)."""
    case["explicit_format"] = draw(st.booleans())
    if "sep" in source:
        case["sep"] = draw(st.sampled_from([",", ",", ";", "\t", "|"]))
    if "replace_inf" in source:
        case["replace_inf"] = draw(st.sampled_from([True, True, False]))
    return case


def _subset_of(draw, source: dict) -> dict | None:
    """A reduced model: some parameters of ``source`` dropped (and every expression that referred to a dropped one)."""
    params = source["params"]
    if len(params) < 2:
        return None
    keep = [draw(st.booleans()) for _ in params]
    if all(keep):
        keep[draw(st.integers(0, len(params) - 1))] = False
    changed = True
    while changed:
        changed = False
        kept = {p["label"] for p, k in zip(params, keep) if k}
        for i, p in enumerate(params):
            if keep[i] and p["expression"] is not None and any(r not in kept for r in references(p["expression"])):
                keep[i] = False
                changed = True
    out = [dict(p) for p, k in zip(params, keep) if k]
    if not out:
        return None
    kept = {p["label"] for p in out}
    case = dict(source, params=out, stale=[list(x) for x in source["stale"] if x[0] in kept])
    return _reoption(draw, case, source)


def _edited(draw, source: dict) -> dict:
    """The same labels with other values / options (cells that were filled become empty and the other way round)."""
    out = []
    for p in source["params"]:
        q = dict(p)
        if q["expression"] is None:
            v = draw(moderate_floats())
            if q["non_negative"]:
                v = abs(v)
            if draw(st.booleans()):
                q["minimum"] = -math.inf
            if draw(st.booleans()):
                q["maximum"] = math.inf
            q["value"] = float(min(max(v, q["minimum"]), q["maximum"]))
            if draw(st.booleans()):
                q["vary"] = not q["vary"]
        if draw(st.booleans()):
            q["standard_error"] = math.nan if not math.isnan(q["standard_error"]) else abs(draw(moderate_floats()))
        out.append(q)
    return _reoption(draw, dict(source, params=out, stale=[]), source)


@st.composite
def histories(draw, fmt: str | None = None):
    """Several parameter sets written to / read from a few paths of one directory, as a list of steps.

    Steps: ``save`` (set i -> path j, allow_overwrite), ``load`` (path j), ``resave`` (the object last loaded from
    path j -> path k, allow_overwrite; k may be j, and path j may have been overwritten in between).  Sets are independent draws, reduced versions (fewer rows) or
    edited versions (same rows, other cells) of an earlier set, so that a path is overwritten with smaller, larger and
    equally sized tables.
    """
    if fmt is None:
        fmt = draw(st.sampled_from(["csv", "tsv", "xlsx", "ods"]))
    sets = [draw(parameter_sets(fmt))]
    for _ in range(draw(st.integers(1, 2))):
        kind = draw(st.sampled_from(["independent", "subset", "subset", "edited"]))
        source = sets[draw(st.integers(0, len(sets) - 1))]
        derived = _subset_of(draw, source) if kind == "subset" else _edited(draw, source) if kind == "edited" else None
        sets.append(derived if derived is not None else draw(parameter_sets(fmt)))
    if draw(st.booleans()):
        sets.sort(key=lambda c: -len(c["params"]))  # larger tables first: later saves shrink the file
    n_paths = draw(st.sampled_from([1, 2, 2, 3]))
    stems = draw(st.permutations(HISTORY_STEMS))[:n_paths]
    written, loaded, steps = set(), set(), []
    for _ in range(draw(st.integers(2, 7))):
        op = draw(st.sampled_from(["save", "save", "save", "load", "load", "resave", "resave", "refused_edit"]))
        if op == "refused_edit" and loaded:
            steps.append({"op": "refused_edit", "from": draw(st.sampled_from(sorted(loaded)))})
        elif op == "load" and written:
            j = draw(st.sampled_from(sorted(written)))
            steps.append({"op": "load", "path": j})
            loaded.add(j)
        elif op == "resave" and loaded:
            j = draw(st.sampled_from(sorted(loaded)))
            k = draw(st.integers(0, n_paths - 1))
            overwrite = draw(st.sampled_from([True, True, True, False]))
            steps.append({"op": "resave", "from": j, "path": k, "overwrite": overwrite})
            if overwrite or k not in written:
                written.add(k)
        else:
            k = draw(st.integers(0, n_paths - 1))
            overwrite = draw(st.sampled_from([True, True, True, False]))
            steps.append({"op": "save", "set": draw(st.integers(0, len(sets) - 1)), "path": k, "overwrite": overwrite})
            if overwrite or k not in written:
                written.add(k)
    return {"sub": "history", "fmt": fmt, "sets": sets, "paths": [f"{stem}.{fmt}" for stem in stems], "steps": steps}


# ------------------------------------------------------------------------------------------
# specifications (yml / dict / list)

#: never equal to an automatic number of a group of <= 5 items ("1".."5")
SPEC_LABELS = WORDS + ["007", "10", "01", "k_1e3", "none", "NA"]
SCI_STRINGS = ["1e-3", "1E7", "2.5e3", "-4.2e-4", "1e+2", "5e0", ".5e1", "3e-10"]
OPTION_NAMES = {
    "vary": ["vary"],
    "non_negative": ["non-negative", "non-negative", "non_negative"],
    "minimum": ["min", "min", "minimum"],
    "maximum": ["max", "max", "maximum"],
    "expression": ["expr", "expr", "expression"],
    "standard_error": ["standard-error", "standard_error"],
}


@functools.lru_cache(maxsize=None)
def _spec_value():
    return st.one_of(
        moderate_floats().map(lambda v: {"t": "float", "v": v}),
        st.integers(-1000, 1000).map(lambda v: {"t": "int", "v": v}),
        st.sampled_from(SCI_STRINGS).map(lambda s: {"t": "sci", "v": s}),
        st.floats(allow_nan=False, allow_infinity=False).map(lambda v: {"t": "float", "v": v}),
    )


@st.composite
def _plain_options(draw, for_defaults=False):
    out = []
    if draw(st.booleans()):
        out.append([draw(st.sampled_from(OPTION_NAMES["vary"])), draw(st.booleans())])
    if draw(st.booleans()):
        out.append([draw(st.sampled_from(OPTION_NAMES["non_negative"])), draw(st.booleans())])
    if draw(st.booleans()):
        out.append([draw(st.sampled_from(OPTION_NAMES["minimum"])), draw(st.one_of(st.sampled_from([-math.inf, 0, -1, 0.0]), st.floats(-1e9, 0.0)))])
    if draw(st.booleans()):
        out.append([draw(st.sampled_from(OPTION_NAMES["maximum"])), draw(st.one_of(st.sampled_from([math.inf, 1, 1e3, 8]), st.floats(0.0, 1e9)))])
    if not for_defaults and draw(st.integers(0, 4)) == 0:
        out.append([draw(st.sampled_from(OPTION_NAMES["standard_error"])), draw(st.one_of(st.just(math.nan), st.floats(0, 1e3)))])
    return draw(st.permutations(out))


@st.composite
def _item_list(draw, prefix: str, known: list, kind: str, allow_unlabelled_sci: bool):
    """Items of one group; ``known`` accumulates [full_label, is_expression] in declaration order."""
    n = draw(st.integers(1, 5))
    labels = draw(st.lists(st.sampled_from(SPEC_LABELS), min_size=n, max_size=n, unique=True))
    items = []
    for i in range(n):
        form = draw(st.sampled_from(["bare", "bare", "lv", "lvo", "vo", "v", "lo_expr", "lvo_expr"]))
        value = draw(_spec_value())
        item = {"label": None, "value": value, "options": None, "bare": False}
        if form == "bare":
            item["bare"] = True
        if form in ("lv", "lvo", "lo_expr", "lvo_expr"):
            item["label"] = labels[i]
        if form in ("lvo", "vo"):
            item["options"] = draw(_plain_options())
        if form in ("lo_expr", "lvo_expr"):
            refs = [k[0] for k in known]
            tree = draw(st.one_of(trees(refs), st.sampled_from(NUMERIC_EXPRESSIONS).map(lambda s: {"lit": s}))) if refs else {"lit": draw(st.sampled_from(NUMERIC_EXPRESSIONS))}
            opts = list(draw(_plain_options()))
            opts.insert(draw(st.integers(0, len(opts))), [draw(st.sampled_from(OPTION_NAMES["expression"])), {"tree": tree}])
            item["options"] = opts
            if form == "lo_expr":
                item["value"] = None
        fragile = item["label"] is None and value["t"] == "sci" and (not item["bare"] or kind == "list")
        if fragile and not allow_unlabelled_sci:
            item["value"] = {"t": "float", "v": float(value["v"])}
        short = item["label"] if item["label"] is not None else str(i + 1)
        full = f"{prefix}.{short}" if prefix else short
        known.append([full, form in ("lo_expr", "lvo_expr")])
        items.append(item)
    if draw(st.booleans()):
        items.insert(draw(st.integers(0, len(items))), {"defaults": list(draw(_plain_options(for_defaults=True)))})
    return items


@st.composite
def specifications(draw, unlabelled_sci: bool = False):
    kind = draw(st.sampled_from(["list", "dict", "dict"]))
    known: list = []
    if kind == "list":
        items = draw(_item_list("", known, kind, unlabelled_sci))
        root = {"items": items}
    else:
        names = draw(st.lists(st.sampled_from(WORDS + DIGITS), min_size=1, max_size=3, unique=True))
        children = []
        for name in names:
            if draw(st.integers(0, 3)) == 0:
                subnames = draw(st.lists(st.sampled_from(WORDS + DIGITS), min_size=1, max_size=2, unique=True))
                sub = []
                for sn in subnames:
                    items = draw(_item_list(f"{name}.{sn}", known, kind, unlabelled_sci))
                    sub.append([sn, {"items": items}])
                children.append([name, {"children": sub}])
            else:
                items = draw(_item_list(name, known, kind, unlabelled_sci))
                children.append([name, {"items": items}])
        root = {"children": children}
    style = {
        "flow": draw(st.booleans()),
        "bools": draw(st.sampled_from(["lower", "title"])),
        "quote_keys": draw(st.booleans()),
        "yml_file": draw(st.integers(0, 3)) == 0,
    }
    return {"kind": kind, "root": root, "style": style, "unlabelled_sci": unlabelled_sci}
